"""Real transport stacks (network -> segments -> noise -> coder [-> ...]) over a fake dispatcher, talking to the Noise server double."""
import threading, time
from harness import core


class FakeDispatcher(object):
    """YowConnectionDispatcher double: records calls, hands written bytes to a sink, lets the driver fire callbacks."""
    def __init__(self, callbacks, log, on_data=None):
        self.cb, self.log, self.on_data = callbacks, log, on_data
        self.open = False

    def connect(self, host):
        self.log.append(("connect", host))

    def disconnect(self):
        self.log.append(("disconnect",))
        was = self.open
        self.open = False
        self.cb.onDisconnected()

    def sendData(self, data):
        self.log.append(("sendData", len(data), self.open))
        if self.on_data:
            self.on_data(bytes(data))


class TransportRig(object):
    """network(fake dispatcher) | segments | noise | coder | [extra layers] | top probe, on a private profile."""
    def __init__(self, profile, server, extra_layers=(), top_cls=None, reply_inline=True):
        from yowsup.layers import YowLayer
        from yowsup.stacks import YowStack, YowStackBuilder
        from yowsup.layers.network import YowNetworkLayer
        core.shim_consonance()
        self.server = server
        self.log = []
        self.wire_out = bytearray()      # everything the client wrote
        self.lock = threading.Lock()
        self.reply_inline = reply_inline
        self.pending_replies = []

        class Probe(YowLayer):
            def __init__(self):
                YowLayer.__init__(self)
                self.up, self.events = [], []

            def receive(self, d):
                self.up.append(d)

            def onEvent(self, ev):
                self.events.append((ev.getName(), dict(ev.args)))
                return False
        self.top = (top_cls or Probe)()
        layers = tuple(YowStackBuilder.getCoreLayers()) + tuple(extra_layers) + (self.top,)
        self.stack = YowStack(layers, reversed=False)
        self.stack.setProp("profile", profile)
        self.net = self.stack.getLayer(0)
        self.noise = self.stack.getLayer(2)
        self.coder = self.stack.getLayer(3)
        self.dispatchers = []

        def factory(_type):
            d = FakeDispatcher(self.net, self.log, self._client_wrote)
            self.dispatchers.append(d)
            return d
        self.net._YowNetworkLayer__create_dispatcher = factory

    def _client_wrote(self, data):
        with self.lock:
            self.wire_out += data
            replies = self.server.feed(data) if self.server is not None else []
        for rep in replies:
            if self.reply_inline:
                self.net.onRecvData(rep)
            else:
                self.pending_replies.append(rep)

    def connect(self):
        from yowsup.layers import YowLayerEvent
        from yowsup.layers.network import YowNetworkLayer
        self.stack.broadcastEvent(YowLayerEvent(YowNetworkLayer.EVENT_STATE_CONNECT))
        d = self.dispatchers[-1]
        d.open = True
        self.net.onConnected()
        return d

    def login(self, passive=False, timeout=10.0):
        """connect, fire the auth event (as the auth layer does) and wait until the handshake thread has finished."""
        from yowsup.layers import YowLayerEvent
        from yowsup.layers.auth.layer_authentication import YowAuthenticationProtocolLayer
        self.connect()
        # without an auth layer in the rig the AUTH event is fired from the top, as the auth layer would broadcast it
        self.top.broadcastEvent(YowLayerEvent(YowAuthenticationProtocolLayer.EVENT_AUTH, passive=passive))
        return self.wait_state(("transport", "error"), timeout)

    def wait_state(self, states, timeout=10.0):
        t0 = time.time()
        while time.time() - t0 < timeout:
            w = self.noise._handshake_worker
            if self.noise._wa_noiseprotocol.state in states and (w is None or not w.is_alive()):
                return self.noise._wa_noiseprotocol.state
            time.sleep(0.002)
        return self.noise._wa_noiseprotocol.state

    def server_send(self, plaintext, chunks=None):
        data = self.server.send(plaintext)
        if not chunks:
            self.net.onRecvData(data)
        else:
            i = 0
            for n in chunks:
                if i >= len(data):
                    break
                self.net.onRecvData(data[i:i + n])
                i += n
            if i < len(data):
                self.net.onRecvData(data[i:])
