"""C12 on the full protocol stack: every layer of an account's stack (network | wire tap | coder | logger | axolotl control | axolotl send ||
receive | the protocol layers in parallel | application) as the failure site x both directions x the position of the failing operation in a
conversation (an outgoing message, its incoming counterpart, the receipt going out, the receipt coming in; 1:1 and group) x follow-up
operations from the same and from another thread.  Two or three real stacks against the WhatsApp-level server double (harness/e2e.py).

A site is armed just before one world step and fails the first stanza that passes through that layer in that direction.  Expected (C12):
the error reaches the caller of that step; afterwards the stack is usable - a later message to the account and a later message from it are
processed normally (shown once at the recipient, receipt back at the author), from whichever thread, and nothing blocks."""
import threading
from harness import core, e2e, e2ekit

JOIN_S = 25.0


class SiteFailure(Exception):
    pass


# what a failing layer raises varies: handlers reject with ValueError, lookups fail with KeyError / AttributeError, conversions with
# TypeError / UnicodeError; whatever it is, it must reach the caller
class SiteValueError(SiteFailure, ValueError):
    pass


class SiteKeyError(SiteFailure, KeyError):
    pass


class SiteAttributeError(SiteFailure, AttributeError):
    pass


class SiteTypeError(SiteFailure, TypeError):
    pass


class SiteRuntimeError(SiteFailure, RuntimeError):
    pass


FAILURES = (SiteFailure, SiteValueError, SiteKeyError, SiteAttributeError, SiteTypeError, SiteRuntimeError)


def sites(acc):
    """[(label, layer object)] of an account's stack, sublayers of parallel layers included."""
    out = []
    i = 0
    while True:
        try:
            L = acc.stack.getLayer(i)
        except IndexError:
            break
        subs = getattr(L, "sublayers", None)
        if subs:
            for s in subs:
                out.append(("%d/%s" % (i, type(s).__name__), s))
        else:
            out.append(("%d/%s" % (i, type(L).__name__), L))
        i += 1
    return out


class Arm(object):
    """Fails the first call of layer.send / layer.receive after arming; restores the method afterwards."""
    def __init__(self, layer, direction, exc=SiteFailure):
        self.layer, self.direction = layer, direction
        self.hit = False
        self.orig = getattr(layer, direction)
        arm = self

        def failing(*a, **k):
            if not arm.hit:
                arm.hit = True
                raise exc("injected failure in %s.%s" % (type(layer).__name__, direction))
            return arm.orig(*a, **k)
        setattr(layer, direction, failing)

    def disarm(self):
        try:
            delattr(self.layer, self.direction)
        except AttributeError:
            setattr(self.layer, self.direction, self.orig)


def in_thread(fn, name):
    """Run fn on its own thread; (finished, exception).  A thread that does not finish is left behind (daemon) and reported."""
    box = {}

    def run():
        try:
            box["r"] = fn()
        except BaseException as e:      # noqa
            box["e"] = e
    t = threading.Thread(target=run, name="verif-" + name)
    t.daemon = True
    t.start()
    t.join(JOIN_S)
    return (not t.is_alive()), box.get("e")


POSITIONS = ("outgoing-message", "incoming-message", "outgoing-receipt", "incoming-receipt", "incoming-key-result")


def one_case(roots, group, position, site_label, direction, make_text, exc=SiteFailure):
    """Returns (status, detail): status in reached-ok | not-reached | violation:<what>."""
    n = 3 if group else 2
    w = e2e.World(roots, n, group=group)
    try:
        dest = "G" if group else "b"
        count = {"k": 0}

        def submit(s, d):
            count["k"] += 1
            mid = "f%d" % count["k"]
            to = w.gjid if d == "G" else w.acc(d).jid
            w.do_submit(s, mid, d, make_text(mid, to))
            return mid
        if position != "incoming-key-result":
            # sessions (and sender keys) established both ways first
            submit("a", dest)
            w.settle()
            submit("b", "G" if group else "a")
            w.settle()
        # the step at which the site is armed
        victim = {"outgoing-message": "a", "incoming-message": "b", "outgoing-receipt": "b", "incoming-receipt": "a", "incoming-key-result": "a"}[position]
        acc = w.acc(victim)
        layer = dict(sites(acc)).get(site_label)
        if layer is None:
            return "not-reached", "no such layer"
        want_dir = {"outgoing-message": "send", "incoming-message": "receive", "outgoing-receipt": "send", "incoming-receipt": "receive", "incoming-key-result": "receive"}[position]
        if direction != want_dir:
            return "not-reached", "direction"
        state = {}

        def failing_step():
            if position == "outgoing-message":
                arm = state["arm"] = Arm(layer, direction, exc)
                try:
                    state["mid"] = submit("a", dest)
                finally:
                    arm.disarm()
                return
            state["mid"] = submit("a", dest)
            w.do_process("a")
            if position == "incoming-key-result":
                # first contact: what a wrote was a request (the group's members, the recipients' keys); its answer is the failing stanza
                if not (w.server.outq["a"] and w.head("a", 1)["k"] == "ctl" and w.head("a", 1)["f"] == 1):
                    state["norcpt"] = True
                    return
                arm = state["arm"] = Arm(layer, direction, exc)
                try:
                    w.do_deliver("a", None, 1)
                finally:
                    arm.disarm()
            elif position in ("incoming-message", "outgoing-receipt"):
                # the message is the stanza queued for b by that step (an ack for a precedes nothing of b's)
                j = next(i for i in range(1, len(w.server.outq["b"]) + 1) if w.head("b", i)["k"] == "msg")
                arm = state["arm"] = Arm(layer, direction, exc)
                try:
                    w.do_deliver("b", None, j)
                finally:
                    arm.disarm()
            else:
                # b shows the message and acknowledges; the receipt travels back to a
                while not any(w.head("a", i)["k"] == "rcpt" for i in range(1, len(w.server.outq["a"]) + 1)):
                    en = [e for e in w.enabled() if e != ("deliver", "a")]
                    if not en:
                        state["norcpt"] = True
                        return
                    kind, name = en[0]
                    (w.do_process if kind == "process" else w.do_deliver)(name)
                j = next(i for i in range(1, len(w.server.outq["a"]) + 1) if w.head("a", i)["k"] == "rcpt")
                arm = state["arm"] = Arm(layer, direction, exc)
                try:
                    w.do_deliver("a", None, j)
                finally:
                    arm.disarm()
        done, exc = in_thread(failing_step, "failing-step")
        arm = state.get("arm")
        if not done:
            return "violation:wedged-in-failing-step", "the step with the failing layer never returned"
        if arm is None or not arm.hit:
            if exc is not None and not isinstance(exc, SiteFailure):
                return "violation:exception-without-failure", "%r" % (exc,)
            return "not-reached", "the stanza does not pass through this layer in this direction"
        if exc is None:
            reported = False
        elif isinstance(exc, SiteFailure):
            reported = True
        else:
            return "violation:other-exception", "the injected failure surfaced as %r" % (exc,)
        # whatever is still queued is served (the failed stanza itself is lost)
        done, exc = in_thread(lambda: w.settle(), "settle")
        if not done:
            return "violation:wedged", "serving what was queued after the failure blocks forever"
        if exc is not None:
            return "violation:follow-up-raised", "serving what was queued after the failure raised %r" % (exc,)
        # follow-up 1: a later message TO the victim's peer set from a (same logical sender), follow-up 2: from b, on another thread
        shown_before = len(w.shown)
        box = {}

        def follow1():
            box["m1"] = submit("a", dest)
            w.settle()

        def follow2():
            box["m2"] = submit("b", "G" if group else "a")
            w.settle()
        for fn, nm in ((follow1, "follow-up-same-side"), (follow2, "follow-up-other-side")):
            done, exc = in_thread(fn, nm)
            if not done:
                return "violation:wedged", "%s after the failure blocks forever" % nm
            if exc is not None:
                return "violation:follow-up-raised", "%s after the failure raised %r" % (nm, exc)
        want = []
        for mid, s in ((box["m1"], "a"), (box["m2"], "b")):
            for r in ("abc"[:n]):
                if r != s:
                    want.append((r, mid))
        got = [(x[0], x[1]) for x in w.shown[shown_before:] if x[1] in (box["m1"], box["m2"])]
        missing = [x for x in want if x not in got]
        twice = [x for x in set(got) if got.count(x) > 1]
        bad = [x for x in w.shown[shown_before:] if x[1] in (box["m1"], box["m2"]) and not x[5]]
        if missing or twice or bad:
            return "violation:later-messages-not-processed", "after the failure: not shown %s, shown twice %s, altered %s" % (missing, twice, [(x[0], x[1], x[6]) for x in bad])
        rc = set((x[0], x[1], w.name_of(x[3] or x[2])) for x in w.receipts if x[4] in (None, "", "delivery"))
        norc = [(s, mid, r) for (r, mid) in want for s in [("a" if mid == box["m1"] else "b")] if (s, mid, r) not in rc]
        if norc:
            return "violation:later-receipts-missing", "after the failure the author never sees the receipt: %s" % norc
        if not reported:
            return "violation:not-reported", "the failure was swallowed: the caller of the step saw no error"
        return "reached-ok", ""
    finally:
        w.close()


def sweep(r, rng, thorough, text_entity):
    """All sites x directions x positions, 1:1 and group."""
    roots = e2ekit.Roots()
    reached = skipped = 0
    try:
        probe = e2e.World(roots, 2, group=False)
        labels = [l for (l, _) in sites(probe.acc("a"))]
        probe.close()
        combos = []
        for group in (False, True):
            for pos in POSITIONS:
                d = "send" if pos.startswith("outgoing") else "receive"
                for lab in labels:
                    combos.append((group, pos, lab, d))
        for ci, (group, pos, lab, d) in enumerate(combos):
            exc = FAILURES[(ci + core.seed()) % len(FAILURES)] if not thorough else None
            for exc in ([exc] if exc is not None else FAILURES):
                status, detail = one_case(roots, group, pos, lab, d, text_entity, exc)
                if status != "reached-ok":
                    break
            detail = ("%s [raising %s]" % (detail, exc.__name__)) if detail else detail
            if status == "not-reached":
                skipped += 1
                continue
            reached += 1
            r.case(("failure-site", group, pos, lab, d))
            r.cov["traces_validated_against_impl"] += 1
            if status.startswith("violation:"):
                r.violation("site:%s:%s:%s" % (status.split(":", 1)[1], pos, lab.split("/")[1]),
                            "%s conversation, %s fails in %s.%s: %s" % ("group" if group else "1:1", pos, lab, d, detail),
                            {"group": group, "position": pos, "site": lab, "direction": d})
    finally:
        roots.close()
    r.notes["failure_sites_reached"] = reached
    r.notes["failure_sites_not_on_path"] = skipped
    if reached < 20:
        raise core.MachineryError("failure-site sweep reached only %d sites" % reached)
