"""Assembled protocol-layer stacks between recording probes (shared by C06, C07, C08)."""
from harness import core


def protocol_stack(groups=True, media=True, privacy=True, profiles=True, app_cls=None, with_top=True):
    """bottom probe | YowParallelLayer(protocol layers) | [interface-layer subclass] | top probe"""
    from yowsup.layers import YowLayer, YowParallelLayer
    from yowsup.stacks import YowStack, YowStackBuilder

    class Probe(YowLayer):
        def __init__(self):
            YowLayer.__init__(self)
            self.up, self.down, self.events = [], [], []

        def receive(self, data):
            self.up.append(data)

        def send(self, data):
            self.down.append(data)

        def onEvent(self, ev):
            self.events.append(ev.getName())
            return False
    layers = YowStackBuilder.getProtocolLayers(groups=groups, media=media, privacy=privacy, profiles=profiles)
    bottom, top = Probe(), Probe()
    items = [bottom, YowParallelLayer(layers)]
    app = None
    if app_cls is not None:
        app = app_cls()
        items.append(app)
    items.append(top)
    st = YowStack(tuple(items), reversed=False)
    group = st.getLayer(1)
    return st, bottom, group, app, top


def member(group, clsname):
    for s in group.sublayers:
        if s.__class__.__name__ == clsname:
            return s
    return None
