"""Server side of WhatsApp's Noise handshake (XX, IK, IK->XXfallback) on dissononce, and a strict in-order transport peer.
Used as the peer of the real YowNoiseLayer; it fails loudly on any frame that does not decrypt with the next counter."""
import struct
from dissononce.processing.impl.handshakestate import HandshakeState
from dissononce.processing.impl.symmetricstate import SymmetricState
from dissononce.processing.impl.cipherstate import CipherState
from dissononce.processing.handshakepatterns.interactive.IK import IKHandshakePattern
from dissononce.processing.handshakepatterns.interactive.XX import XXHandshakePattern
from dissononce.processing.modifiers.fallback import FallbackPatternModifier
from dissononce.cipher.aesgcm import AESGCMCipher
from dissononce.hash.sha256 import SHA256Hash
from dissononce.dh.x25519.x25519 import X25519DH
from dissononce.dh.x25519.public import PublicKey
from consonance.proto import wa20_pb2


class WAServerSymmetricState(SymmetricState):
    """WhatsApp's variant: no MixHash of a payload while the cipher has no key - in both directions."""
    def encrypt_and_hash(self, plaintext):
        ciphertext = self._cipherstate.encrypt_with_ad(self._h, plaintext)
        if self._cipherstate.has_key():
            self.mix_hash(ciphertext)
        return ciphertext

    def decrypt_and_hash(self, ciphertext):
        plaintext = self._cipherstate.decrypt_with_ad(self._h, ciphertext)
        if self._cipherstate.has_key():
            self.mix_hash(ciphertext)
        return plaintext


class ProtocolError(Exception):
    pass


class NoiseServer(object):
    """Feed it the bytes the client wrote (feed()); it returns the bytes to send back. States: header, hello, finish, transport."""
    PROLOGUE = b"WA\x04\x00"

    def __init__(self, static=None, force_fallback=False, corrupt_hello=False):
        self.dh = X25519DH()
        self.static = static or self.dh.generate_keypair()
        self.force_fallback = force_fallback
        self.corrupt_hello = corrupt_hello
        self.buf = bytearray()
        self.state = "header"
        self.edge_routing = None
        self.client_payload = None
        self.variant = None
        self.recv_cs = self.send_cs = None
        self.received = []       # decrypted client transport frames, in order
        self.sent_plain = []
        self.hs = None

    def _new_hs(self):
        return HandshakeState(WAServerSymmetricState(CipherState(AESGCMCipher()), SHA256Hash()), self.dh)

    @staticmethod
    def frame(data):
        return struct.pack(">I", len(data))[1:] + data

    def _cert(self):
        c = wa20_pb2.NoiseCertificate()
        d = wa20_pb2.NoiseCertificate.Details()
        d.serial = 1
        d.issuer = "VerifDouble"
        d.key = self.static.public.data
        c.details = d.SerializeToString()
        c.signature = b"\x00" * 64
        return c.SerializeToString()

    def feed(self, data):
        """Returns list of byte strings to send to the client."""
        self.buf += data
        out = []
        while True:
            if self.state == "header":
                if self.buf[:2] == b"ED":
                    if len(self.buf) < 4 + 3:
                        break
                    n = struct.unpack(">I", b"\x00" + bytes(self.buf[4:7]))[0]
                    if len(self.buf) < 7 + n:
                        break
                    self.edge_routing = bytes(self.buf[7:7 + n])
                    del self.buf[:7 + n]
                    continue
                if len(self.buf) < 4:
                    break
                if bytes(self.buf[:4]) != self.PROLOGUE:
                    raise ProtocolError("bad prologue %r" % bytes(self.buf[:4]))
                del self.buf[:4]
                self.state = "hello"
                continue
            if len(self.buf) < 3:
                break
            n = struct.unpack(">I", b"\x00" + bytes(self.buf[:3]))[0]
            if len(self.buf) < 3 + n:
                break
            seg = bytes(self.buf[3:3 + n])
            del self.buf[:3 + n]
            out += self._segment(seg)
        return out

    def _segment(self, seg):
        if self.state == "hello":
            m = wa20_pb2.HandshakeMessage()
            m.ParseFromString(seg)
            if not m.HasField("client_hello"):
                raise ProtocolError("expected client hello")
            ch = m.client_hello
            if ch.HasField("static"):
                # IK attempt
                hs = self._new_hs()
                hs.initialize(IKHandshakePattern(), False, self.PROLOGUE, s=self.static)
                payload = bytearray()
                try:
                    if self.force_fallback:
                        raise ValueError("server key rotated")
                    hs.read_message(ch.ephemeral + ch.static + ch.payload, payload)
                    self.variant = "IK"
                    self.client_payload = self._parse_payload(bytes(payload))
                    buf = bytearray()
                    pair = hs.write_message(self._cert(), buf)
                    self.recv_cs, self.send_cs = pair[0], pair[1]
                    sh = wa20_pb2.HandshakeMessage()
                    sh.server_hello.ephemeral = bytes(buf[:32])
                    sh.server_hello.payload = self._maybe_corrupt(bytes(buf[32:]))
                    self.state = "transport"
                    return [self.frame(sh.SerializeToString())]
                except ProtocolError:
                    raise
                except Exception:
                    # client used a server key we do not have: answer as XXfallback responder with our static
                    self.variant = "XXfallback"
                    hs = self._new_hs()
                    hs.initialize(FallbackPatternModifier().modify(XXHandshakePattern()), False, self.PROLOGUE, s=self.static,
                                  re=PublicKey(ch.ephemeral))
            else:
                self.variant = "XX"
                hs = self._new_hs()
                hs.initialize(XXHandshakePattern(), False, self.PROLOGUE, s=self.static)
                hs.read_message(ch.ephemeral, bytearray())
            buf = bytearray()
            hs.write_message(self._cert(), buf)
            sh = wa20_pb2.HandshakeMessage()
            sh.server_hello.ephemeral = bytes(buf[:32])
            sh.server_hello.static = bytes(buf[32:80])
            sh.server_hello.payload = self._maybe_corrupt(bytes(buf[80:]))
            self.hs = hs
            self.state = "finish"
            return [self.frame(sh.SerializeToString())]
        if self.state == "finish":
            m = wa20_pb2.HandshakeMessage()
            m.ParseFromString(seg)
            if not m.HasField("client_finish"):
                raise ProtocolError("expected client finish")
            payload = bytearray()
            pair = self.hs.read_message(m.client_finish.static + m.client_finish.payload, payload)
            self.client_payload = self._parse_payload(bytes(payload))
            self.recv_cs, self.send_cs = pair[0], pair[1]
            self.state = "transport"
            return []
        if self.state == "transport":
            try:
                pt = self.recv_cs.decrypt_with_ad(b"", seg)
            except Exception as e:
                raise ProtocolError("client frame %d does not decrypt with the next counter: %r" % (len(self.received) + 1, e))
            self.received.append(bytes(pt))
            return []
        raise ProtocolError("segment in state %s" % self.state)

    def _maybe_corrupt(self, b):
        if self.corrupt_hello:
            return b[:-1] + bytes(bytearray([bytearray(b)[-1] ^ 0x55]))
        return b

    @staticmethod
    def _parse_payload(b):
        p = wa20_pb2.ClientPayload()
        p.ParseFromString(b)
        return p

    def send(self, plaintext):
        """Encrypt one transport frame for the client."""
        if self.state != "transport":
            raise ProtocolError("send before transport")
        self.sent_plain.append(bytes(plaintext))
        return self.frame(self.send_cs.encrypt_with_ad(b"", bytes(plaintext)))
