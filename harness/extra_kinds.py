"""Kinds added to the catalogue by the main harness (registered on import): message-type / payload combinations the
statement's quantifier names that the first catalogue pass did not include."""
from harness import catalogue as c

if "in.message.text.with_skdm" not in c.BY_NAME:
    def _pb_text_with_skdm(rng):
        m = c._pb().Message()
        m.conversation = c.gen_text(rng, 1, 60)
        m.sender_key_distribution_message.group_id = c.gen_gjid(rng)
        m.sender_key_distribution_message.axolotl_sender_key_distribution_message = c.gen_bytes(rng, 40, 80)
        return m

    # a group re-send after a retry carries the key distribution AND the text: the text must still be shown
    c._in("in.message.text.with_skdm", c.L_MSG, c._p("protocol_messages", "message_text", "TextMessageProtocolEntity"), "message",
          c._in_text_message(_pb_text_with_skdm), variants=c.MSG_VARIANTS, app_ack=c.app_ack_message,
          notes="text + sender key distribution in one payload (retry re-send); the serialised entity drops the key distribution, "
                "so only count/class are compared")

    def _typed_unsupported(mtype):
        def build(rng, variant, request):
            attrs = c._in_message_attrs(rng, mtype, variant)
            return c.N("message", attrs, [c.N("proto", {}, None, c._pb_unsupported(rng).SerializeToString())])
        return build
    # content the library cannot present, in stanzas whose type attribute is not "text"
    for mtype in ("pay", "reaction", "poll"):
        c._in("in.message.%s.unsupported" % mtype, c.L_MSG, None, "message", _typed_unsupported(mtype), variants=c.MSG_VARIANTS,
              reaction=c.react_delivery_receipt, reaction_layer=c.L_MSG,
              notes="unpresentable payload, message type %s, no mediatype: one delivery receipt" % mtype)
    # type=media but no mediatype on the proto node and an unpresentable payload: still exactly ONE receipt
    c._in("in.message.media.nomediatype.unsupported", c.L_MSG, None, "message", _typed_unsupported("media"), variants=c.MSG_VARIANTS,
          reaction=c.react_delivery_receipt, reaction_layer=c.L_MSG,
          notes="type=media without mediatype: messages layer answers; the media layer must not answer a second time")
    # encrypt notifications: with the encryption layers the control layer acknowledges and consumes count / identity
    # notifications (and then talks to the server with iqs); anything else is acknowledged by the notifications layer
    def _encrypt(child):
        def build(rng, variant, request):
            attrs = {"t": c.gen_ts(rng), "id": c.gen_id(rng), "from": c.DOMAIN, "type": "encrypt"}
            kids = []
            if child == "count":
                kids = [c.N("count", {"value": str(rng.randint(0, 20))})]
            elif child == "identity":
                attrs["from"] = c.gen_jid(rng)
                kids = [c.N("identity")]
            return c.N("notification", attrs, kids)
        return build
    for child in ("count", "identity", "none"):
        k = c._in("in.notification.encrypt.%s" % child, "YowNotificationsProtocolLayer", None, "notification", _encrypt(child),
                  reaction=c.react_notification_ack, reaction_layer="YowNotificationsProtocolLayer", reaches_top=False,
                  notes="needs-manager; iq stanzas may follow the ack (key upload / key fetch)")
    # retry receipts (axolotl package): registration ids over the full 32-bit range
    import struct

    def _regid(rng):
        return rng.choice([0, 1, 0x3fff, 0x7fffffff, 0x80000000, 0xffffffff, rng.getrandbits(32), rng.getrandbits(14)])

    def _retry_in(rng, variant, request):
        group = variant == "group"
        mid = c.gen_id(rng)
        attrs = {"id": mid, "t": c.gen_ts(rng), "type": "retry", "from": c.gen_gjid(rng) if group else c.gen_jid(rng)}
        if group:
            attrs["participant"] = c.gen_jid(rng)
        return c.N("receipt", attrs, [c.N("retry", {"count": str(c.bint(rng, 1, 5)), "id": mid, "v": "1", "t": c.gen_ts(rng)}),
                                      c.N("registration", {}, None, struct.pack(">I", _regid(rng)))])
    c._in("in.receipt.retry", "AxolotlSendLayer", "yowsup.layers.axolotl.protocolentities.receipt_incoming_retry.RetryIncomingReceiptProtocolEntity",
          "receipt", _retry_in, variants=("group",), reaches_top=False, notes="axolotl-state")

    def _retry_out_draw(rng):
        return {"id": c.gen_id(rng), "jid": c.gen_jid(rng), "reg": _regid(rng), "t": c.gen_ts(rng), "count": c.bint(rng, 1, 5),
                "participant": c.gen_jid(rng) if rng.random() < 0.4 else None}

    def _retry_out_node(v):
        attrs = {"id": v["id"], "to": v["jid"], "type": "retry"}
        if v["participant"]:
            attrs["participant"] = v["participant"]
        return c.N("receipt", attrs, [c.N("retry", {"count": str(v["count"]), "id": v["id"], "v": "1", "t": v["t"]}),
                                      c.N("registration", {}, None, struct.pack(">I", v["reg"]))])

    def _retry_out_entity(v):
        cls = c.load_class("yowsup.layers.axolotl.protocolentities.receipt_outgoing_retry.RetryOutgoingReceiptProtocolEntity")
        return cls(v["id"], v["jid"], v["reg"], v["t"], count=v["count"], participant=v["participant"])
    c._out("out.receipt.retry", "AxolotlReceivelayer", "yowsup.layers.axolotl.protocolentities.receipt_outgoing_retry.RetryOutgoingReceiptProtocolEntity",
           "receipt", _retry_out_draw, _retry_out_node, _retry_out_entity, notes="axolotl-state")
    # media messages that also carry a sender key distribution (the re-send a group member gets after asking for a retry): the
    # entity keeps the whole payload, so its serialisation must still carry both
    def _with_skdm(pb_of):
        def f(rng, variant):
            m = pb_of(rng, variant)
            m.sender_key_distribution_message.group_id = c.gen_gjid(rng)
            m.sender_key_distribution_message.axolotl_sender_key_distribution_message = c.gen_bytes(rng, 40, 80)
            return m
        return f
    c._media("in.message.media.image.with_skdm", c._IMG, "image", _with_skdm(lambda rng, v: c.pb_image(c.draw_image(rng))))
    c._media("in.message.media.location.with_skdm", c._LOC, "location", _with_skdm(lambda rng, v: c.pb_location(c.draw_location(rng))))
    # payloads the library parses but has no entity for: a revoke ("delete for everyone") and a bare contact without media type.
    # Nothing is shown, the sender still gets exactly one delivery receipt.
    def _pb_revoke(rng):
        m = c._pb().Message()
        m.protocol_message.key.remote_jid = c.gen_jid(rng)
        m.protocol_message.key.from_me = True
        m.protocol_message.key.id = c.gen_id(rng)
        m.protocol_message.type = 0
        return m

    def _pb_bare_contact(rng):
        m = c._pb().Message()
        m.contact_message.display_name = c.gen_text(rng, 1, 20)
        m.contact_message.vcard = b"BEGIN:VCARD\nEND:VCARD"
        return m
    for nm, pb in (("revoke", _pb_revoke), ("contact_nomediatype", _pb_bare_contact)):
        c._in("in.message.text.%s" % nm, c.L_MSG, None, "message", c._in_text_message(pb), variants=c.MSG_VARIANTS,
              reaction=c.react_delivery_receipt, reaction_layer=c.L_MSG,
              notes="payload without an entity of its own (%s), no mediatype: consumed, one delivery receipt" % nm)
    c.BY_NAME.update({k.name: k for k in c.KINDS})


def keys_result_node(rng):
    """<iq type=result><list><user jid=..><registration/><type/><identity/><skey><id/><value/><signature/></skey><key><id/><value/></key></user>*</list></iq>
    in the byte widths the entity itself writes (4-byte numbers), with valid curve points."""
    from axolotl.ecc.curve import Curve
    users = []
    for _ in range(rng.randint(1, 3)):
        pub = lambda: bytes(Curve.generateKeyPair().getPublicKey().getPublicKey())
        num = lambda: bytes(bytearray(rng.randint(0, 255) for _ in range(4)))
        users.append(c.N("user", {"jid": c.gen_jid(rng)}, [
            c.N("registration", {}, None, num()), c.N("type", {}, None, b"\x00\x00\x00\x05"), c.N("identity", {}, None, pub()),
            c.N("skey", {}, [c.N("id", {}, None, num()), c.N("value", {}, None, pub()), c.N("signature", {}, None, c.gen_bytes(rng, 64, 64))]),
            c.N("key", {}, [c.N("id", {}, None, num()), c.N("value", {}, None, pub())])]))
    return c.N("iq", {"type": "result", "from": c.DOMAIN, "id": c.gen_id(rng)}, [c.N("list", {}, users)])


# kinds whose exact round trip is not judged (state-dependent or width-normalising) but whose entities must still be independent of
# each other: (name, entity class path, node builder)
ISOLATION_ONLY = [("in.iq.result.encrypt.keys", "yowsup.layers.axolotl.protocolentities.iq_keys_get_result.ResultGetKeysIqProtocolEntity", keys_result_node)]


def enc_message_nodes(rng, sizes):
    """Encrypted message envelopes as the send layer builds them, with ciphertext lengths around the codec's length-class boundaries."""
    from yowsup.layers.axolotl.protocolentities import EncryptedMessageProtocolEntity, EncProtocolEntity
    from yowsup.layers.protocol_messages.protocolentities.attributes.attributes_message_meta import MessageMetaAttributes
    out = []
    for n in sizes:
        for typ, media in (("msg", None), ("pkmsg", "image"), ("skmsg", None)):
            data = bytes(bytearray(rng.randint(0, 255) for _ in range(n)))
            if data.endswith(b"@"):
                data = data[:-1] + b"A"
            e = EncryptedMessageProtocolEntity([EncProtocolEntity(typ, 2, data, media)], "text" if media is None else "media",
                                               MessageMetaAttributes(id=c.gen_id(rng), recipient=c.gen_jid(rng)))
            out.append(("out.message.enc.%s.%d" % (typ, n), e.toProtocolTreeNode()))
    return out
