"""Shared driver for C11 (concurrent senders) and C12 (failures do not wedge).  Spec: SendPath.tla (MC_SendPath.tla job configurations);
binding D + A: TLC schedules are replayed step by step on a real transport stack under the deterministic scheduler; D + B: randomly
scheduled executions are recorded and checked on observables."""
import json, os, random, re, struct
from harness import core, sched, e2ekit, transportkit
from harness.doubles.noise_server import NoiseServer, ProtocolError

CFG_JOBS = {}   # parsed from MC_SendPath.tla


def parse_jobs():
    src = open(os.path.join(core.SPEC, "MC_SendPath.tla")).read()
    out = {}
    for m in re.finditer(r"^(JobsC\w+) == \[(.*)\]$", src, re.M):
        jobs = {}
        for tm in re.finditer(r"(\w) \|-> << (.*?) >>", m.group(2)):
            js = []
            for j in re.finditer(r"SF\(\"(\w+)\", \"(\w+)\"\)|S\(\"(\w+)\"\)|RF|RU|RR|R", tm.group(2)):
                tok = j.group(0)
                if tok.startswith("SF"):
                    js.append({"kind": "send", "entry": j.group(1), "fault": j.group(2)})
                elif tok.startswith("S("):
                    js.append({"kind": "send", "entry": j.group(3), "fault": "none"})
                elif tok == "RF":
                    js.append({"kind": "recv", "entry": "-", "fault": "deliver"})
                elif tok == "RR":
                    js.append({"kind": "recvreply", "entry": "top", "fault": "none"})
                elif tok == "RU":
                    js.append({"kind": "recv", "entry": "-", "fault": "undecodable"})
                else:
                    js.append({"kind": "recv", "entry": "-", "fault": "none"})
            jobs[tm.group(1)] = js
        out[m.group(1)] = jobs
    return out


class _Boom(Exception):
    pass


class World(object):
    """One real transport stack in transport state under a fresh scheduler."""
    N = 0

    def __init__(self, jobs):
        from yowsup.layers import YowLayer, YowLayerEvent
        from yowsup.layers.auth.layer_authentication import YowAuthenticationProtocolLayer
        from yowsup.structs import ProtocolTreeNode
        World.N += 1
        self.jobs = jobs
        self.s = sched.Scheduler()
        self.inst = sched.Installation(self.s)
        self.outcome = {t: [] for t in jobs}
        self.drift = 0
        try:
            class Mid(YowLayer):
                pass

            class Top(YowLayer):
                def __init__(top):
                    YowLayer.__init__(top)
                    top.up = []

                def receive(top, node):
                    if node["boom"]:
                        raise _Boom("application callback raising")
                    top.up.append(node)
                    if node["reply"]:
                        # answered on the delivering thread, from within the delivery (as a pong / receipt is)
                        from yowsup.structs import ProtocolTreeNode
                        top.toLower(ProtocolTreeNode("iq", {"id": node["reply"], "type": "get", "xmlns": "w:p"}))
            self.srv = NoiseServer()
            self.rig = transportkit.TransportRig(e2ekit.make_profile("49157701%05d" % World.N), self.srv, extra_layers=(Mid,), top_cls=Top, reply_inline=False)
            st = self.rig.stack
            names = {1: "seg", 2: "noise", 3: "coder", 4: "logger", 5: "mid", 6: "top"}
            for i, n in names.items():
                st.getLayer(i).lock.name = n
            self.mid, self.top, self.logger = st.getLayer(5), st.getLayer(6), st.getLayer(4)
            nz = self.rig.noise
            nz._flush_lock.name = "flush"
            if hasattr(nz, "_transport_lock"):
                nz._transport_lock.name = "transport"
            nz._incoming_segments_queue.name = "incomingQ"
            nz._stream._readqueue.name = "readQ"
            nz._stream._writequeue.name = "writeQ"
            # pre-handshake part: a send while the session is not ready
            self.pre = {}
            for t, js in jobs.items():
                if js and js[0]["fault"] == "notready":
                    try:
                        (self.top if js[0]["entry"] == "top" else self.mid).toLower(self.stanza(t, 1))
                        self.pre[t] = "ok"
                    except BaseException:
                        self.pre[t] = "raised"
            rig = self.rig
            rig.connect()

            def net():
                while True:
                    if rig.pending_replies:
                        rig.net.onRecvData(rig.pending_replies.pop(0))
                    elif self.srv.state == "transport":
                        return
                    else:
                        self.s.yield_point(("idle", "net"))
            self.s.spawn("login", lambda: rig.top.broadcastEvent(YowLayerEvent(YowAuthenticationProtocolLayer.EVENT_AUTH, passive=False)))
            self.s.spawn("hsnet", net)
            self.s.run(lambda r, sc: ([t for t in r if t.pending[0] != "idle"] or r)[0], 5000)
            if rig.noise._wa_noiseprotocol.state != "transport":
                raise core.MachineryError("handshake did not complete in the rig")
            self.hs_bytes = len(rig.wire_out)
            rig.server = None          # from now on only collect the client's bytes; the strict peer reads them afterwards
            if any(j.get("entry") == "coder" for js in jobs.values() for j in js):
                # senders entering at the coder run its encoder outside any layer lock: let the scheduler preempt inside the encoding
                writer = rig.coder.writer
                for meth in ("writeAttributes", "writeString"):
                    orig = getattr(writer, meth)

                    def yielding(*a, orig=orig, meth=meth, **k):
                        self.s.yield_point(("encode", meth))
                        return orig(*a, **k)
                    setattr(writer, meth, yielding)
            self.boom_installed = False
        except BaseException:
            self.close()
            raise

    def stanza(self, t, n, fault="none"):
        from yowsup.structs import ProtocolTreeNode
        if fault == "coder":
            return ProtocolTreeNode("iq", {"id": "%s-%d" % (t, n), "type": None})          # unencodable value
        if fault == "oversize":
            return ProtocolTreeNode("iq", {"id": "%s-%d" % (t, n)}, None, b"\x00" * 16777216)
        if fault == "oversize_edge":
            # encoded size exactly 2^24 - 16: with the 16-byte tag the frame needs 2^24 bytes
            from yowsup.layers.coder.encoder import WriteEncoder
            from yowsup.layers.coder.tokendictionary import TokenDictionary
            probe = ProtocolTreeNode("iq", {"id": "%s-%d" % (t, n)}, None, b"\x00" * 1048576)
            overhead = len(WriteEncoder(TokenDictionary()).protocolTreeNodeToBytes(probe)) - 1048576
            return ProtocolTreeNode("iq", {"id": "%s-%d" % (t, n)}, None, b"\x00" * (16777216 - 16 - overhead))
        return ProtocolTreeNode("iq", {"id": "%s-%d" % (t, n), "type": "get", "xmlns": "w:p"})

    def thread_fn(self, t):
        def fn():
            for i, j in enumerate(self.jobs[t]):
                n = i + 1
                if i > 0:
                    self.s.yield_point(("jobstart", t))
                if j["fault"] == "notready":
                    self.outcome[t].append(self.pre.get(t, "ok"))
                    continue
                try:
                    if j["kind"] == "send":
                        layer = self.top if j["entry"] == "top" else self.mid
                        if j["entry"] == "coder":
                            # a sender that enters at the coder layer itself (YowStack.send on a stack that ends there, a layer calling down)
                            self.rig.coder.send(self.stanza(t, n, j["fault"]))
                            self.outcome[t].append("ok")
                            continue
                        if j["fault"] == "logger":
                            orig = self.logger.send

                            def raising(data, orig=orig):
                                self.logger.send = orig
                                raise _Boom("layer raising")
                            self.logger.send = raising
                        layer.toLower(self.stanza(t, n, j["fault"]))
                    else:
                        from yowsup.layers.coder.encoder import WriteEncoder
                        from yowsup.layers.coder.tokendictionary import TokenDictionary
                        from yowsup.structs import ProtocolTreeNode
                        attrs = {"id": "srv-%s-%d" % (t, n)}
                        if j["fault"] == "deliver":
                            attrs["boom"] = "1"
                        if j["kind"] == "recvreply":
                            attrs["reply"] = "%s-%d" % (t, n)
                        pt = bytes(bytearray(WriteEncoder(TokenDictionary()).protocolTreeNodeToBytes(ProtocolTreeNode("ib", attrs))))
                        if j["fault"] == "undecodable":
                            # three ways a frame can be undecodable: a list of 2 whose tag announces a string that is not there, a frame
                            # flagged compressed whose payload does not inflate, a compressed frame that is cut off
                            import zlib as _z
                            pt = (b"\x00\xf8\x02\xfc", b"\x02" + b"\xf8\x02\xfc\x01a",
                                  b"\x02" + _z.compress(pt[1:] * 3)[:-5])[(n + len(t) + ord(t[-1])) % 3]
                        self.rig.net.onRecvData(self.srv.send(pt))
                    self.outcome[t].append("ok")
                except sched.Killed:
                    raise
                except BaseException as e:
                    self.outcome[t].append("raised")
        return fn

    def start_threads(self):
        for t in sorted(self.jobs):
            self.s.spawn(t, self.thread_fn(t))

    def pending_matches(self, mt, act):
        """Does managed thread mt's pending operation correspond to the specification's action?"""
        op = self.s.describe(mt.pending)
        if act["name"] == "StartJob":
            return op[0] in ("start", "jobstart")
        k, l = act["op"], act["l"]
        want = {"acq": ("acquire", l), "rel": ("release", l), "putW": ("put", "writeQ"), "getW": ("get", "writeQ"), "putI": ("put", "incomingQ"),
                "getI": ("get", "incomingQ"), "sizeI": ("qsize", "incomingQ"), "sizeI2": ("qsize", "incomingQ"), "putR": ("put", "readQ"),
                "getR": ("get", "readQ"), "sizeI3": ("qsize", "incomingQ")}[k]
        return tuple(op[:2]) == want

    def verdict(self, run, pid, label, expect_outcomes, jobs):
        """Observable checks after all threads finished (or the scheduler reported a deadlock)."""
        rig, srv = self.rig, self.srv
        data = bytes(rig.wire_out[self.hs_bytes:])
        problems = []
        # C11: whole frames, decryptable in counter order by the strict peer, each accepted stanza exactly once
        srv.state = "transport"
        before = len(srv.received)
        try:
            srv.feed(data)
            if srv.buf:
                problems.append(("wire:partial-frame", "the byte stream ends inside a frame (%d stray bytes)" % len(srv.buf)))
        except ProtocolError as e:
            problems.append(("wire:undecryptable", "strict in-order peer: %s" % e))
        except Exception as e:
            problems.append(("wire:garbled", "peer could not parse the byte stream: %r" % (e,)))
        from yowsup.layers.coder.decoder import ReadDecoder
        from yowsup.layers.coder.tokendictionary import TokenDictionary
        got_ids = []
        for pt in srv.received[before:]:
            try:
                got_ids.append(ReadDecoder(TokenDictionary()).getProtocolTreeNode(bytearray(pt))["id"])
            except Exception:
                got_ids.append("?")
        want_ids = sorted("%s-%d" % (t, i + 1) for t in jobs for i, j in enumerate(jobs[t])
                          if j["kind"] in ("send", "recvreply") and i < len(self.outcome[t]) and self.outcome[t][i] == "ok")
        if not any(p[0].startswith("wire:") for p in problems) and sorted(got_ids) != want_ids:
            problems.append(("wire:not-exactly-once", "stanzas on the wire %s, accepted sends %s" % (sorted(got_ids), want_ids)))
        # C12: outcomes, locks, incoming frames
        for t in jobs:
            exp = expect_outcomes.get(t)
            if exp is not None and self.outcome[t] != exp:
                problems.append(("outcome:%s" % ("not-reported" if "raised" in exp and self.outcome[t].count("raised") < exp.count("raised") else "differs"),
                                 "thread %s: job outcomes %s, specification %s" % (t, self.outcome[t], exp)))
        # every failing operation is reported to SOME caller (a failure on the way up: to whichever receive call was flushing): over all
        # threads there are at least as many raising calls as failing operations
        nfault = sum(1 for t in jobs for j in jobs[t] if j["fault"] != "none")
        nraised = sum(o.count("raised") for o in self.outcome.values())
        if not problems and all(len(self.outcome[t]) == len(jobs[t]) for t in jobs) and nraised < nfault:
            problems.append(("outcome:not-reported", "%d failing operations, %d calls reported an error (outcomes %s)" % (nfault, nraised, dict(self.outcome))))
        held = [l.name for l in [self.rig.stack.getLayer(i).lock for i in range(7)] + [self.rig.noise._flush_lock] if l.held]
        if held:
            problems.append(("lock-leak", "locks still held after all operations returned: %s" % held))
        nrecv_ok = sum(1 for t in jobs for i, j in enumerate(jobs[t]) if j["kind"] in ("recv", "recvreply") and j["fault"] == "none")
        if not held and len(self.top.up) != nrecv_ok and not any(p[0].startswith("outcome") for p in problems):
            problems.append(("recv:lost", "%d of %d good incoming frames reached the top" % (len(self.top.up), nrecv_ok)))
        return problems

    def close(self):
        try:
            self.s.kill()
        finally:
            self.inst.undo()


def expected_outcomes(jobs):
    exp = {}
    nbad = 0
    for t, js in jobs.items():
        if all(j["kind"] == "send" for j in js):
            exp[t] = ["raised" if j["fault"] != "none" else "ok" for j in js]
        else:
            exp[t] = None          # a raising upward handler is reported to whichever receive call was flushing
    return exp


def replay_schedule(run, pid, cfgname, jobs, g, path, label):
    w = World(jobs)
    try:
        w.start_threads()
        init, steps = g.path_steps(path)
        s = w.s
        deadlock = None
        exact = True
        for act, to in steps:
            mt = [t for t in s.threads if t.name == act["t"]][0]
            if exact and (mt.finished or not s.enabled(mt) or not w.pending_matches(mt, act)):
                exact = False
                w.drift += 1
                break
            s.step(mt)
        try:
            s.run(lambda r, sc: ([t for t in r if t.pending[0] != "idle"] or r)[0], 20000)
        except sched.Deadlock as e:
            deadlock = str(e)
        problems = w.verdict(run, pid, label, expected_outcomes(jobs), jobs)
        if deadlock:
            problems.insert(0, ("wedged", "after the failing operation a follow-up blocks forever: %s" % deadlock))
        return problems, exact, [(a, b) for a, b in s.trace[-40:]]
    finally:
        w.close()


def random_schedule(run, pid, jobs, rng):
    w = World(jobs)
    try:
        w.start_threads()
        deadlock = None
        # PCT-style: random priorities, a few priority change points
        prio = {t: rng.random() for t in jobs}
        changes = set(rng.sample(range(1, 60), 3))
        state = {"n": 0}

        def chooser(r, sc):
            state["n"] += 1
            if state["n"] in changes:
                prio[rng.choice(sorted(prio))] = rng.random()
            return max(r, key=lambda t: prio.get(t.name, 0))
        try:
            w.s.run(chooser, 20000)
        except sched.Deadlock as e:
            deadlock = str(e)
        problems = w.verdict(run, pid, "random", expected_outcomes(jobs), jobs)
        if deadlock:
            problems.insert(0, ("wedged", "a follow-up operation blocks forever: %s" % deadlock))
        return problems, [(a, b) for a, b in w.s.trace[-40:]]
    finally:
        w.close()


def run(pid, extra=None):
    r = core.Run(pid, "model_checking")
    thorough = r.tier == "thorough"
    rng = random.Random(core.seed())
    allcfg = parse_jobs()
    mine = sorted(k for k in allcfg if k.startswith("JobsC11" if pid == "C11" else "JobsC12"))
    if pid == "C11":
        mine.append("JobsC12g")     # a refused boundary-size stanza must not disturb the counters of the frames that follow
    r.cov["rule"] = ("case = one schedule (interleaving at lock / queue operations) of the job configuration's threads on a real transport stack "
                     "(network(fake dispatcher) | segments | noise (handshake done against the Noise double) | coder | logger | mid | top) run under the "
                     "deterministic scheduler: TLC schedules from SendPath.tla replayed step by step (transition cover) + PCT-random schedules; checked: "
                     + ("byte stream = whole frames decryptable in counter order by a strict peer, every accepted stanza exactly once"
                        if pid == "C11" else "the error reaches the caller, no lock stays held, follow-up sends / incoming frames from the same and other "
                        "threads complete (a blocked follow-up is a detected deadlock), cipher counters stay in step") + "; distinct by (configuration, schedule)")
    roots = e2ekit.Roots()
    e2ekit.small_batches(3, 1)
    exact_n = drift_n = 0
    try:
        for cfg in mine:
            short = cfg[4:].lower()
            res = core.must_clean(core.tlc("MC_SendPath", "MC_SendPath_%s.cfg" % short, r.scratch, workers=8, timeout=1200), cfg)
            r.add_tlc(res)
            if pid == "C12" and cfg.startswith("JobsC12"):
                bad = core.tlc("MC_SendPath", "MC_SendPath_%s_asread.cfg" % short, r.scratch, workers=4)
                core.must_violate(bad, "NoLockLeak", cfg + " as read")
            jobs = allcfg[cfg]
            has_oversize = any(j["fault"] in ("oversize", "oversize_edge") for js in jobs.values() for j in js)
            # derived edge-dump configuration: written to the run's scratch directory (never into /verif/spec), passed to TLC by absolute path
            ecfg = os.path.join(r.scratch.path, "Edges_SendPath_%s.cfg" % short)
            open(ecfg, "w").write(re.sub(r"^(INVARIANT|PROPERTY).*\n", "", open(os.path.join(core.SPEC, "MC_SendPath_%s.cfg" % short)).read(), flags=re.M)
                                                          .replace("SPECIFICATION FairSpec", "SPECIFICATION Spec") + "ACTION_CONSTRAINT Edge\n")
            eg = core.tlc("MC_SendPath", ecfg, r.scratch, workers=1, timeout=1200)
            g = core.Graph(eg.printed())
            if len(g.edges) < 50:
                raise core.MachineryError("edge dump too small for %s" % cfg)
            paths = g.transition_cover(rng)
            budget = (len(paths) if thorough else min(len(paths), 120)) if not has_oversize else (12 if thorough else 3)
            if len(paths) > budget:
                paths = rng.sample(paths, budget)
            for pi, p in enumerate(paths):
                problems, exact, tail = replay_schedule(r, pid, cfg, jobs, g, p, short)
                exact_n += exact
                drift_n += (not exact)
                r.case((cfg, tuple(p)))
                r.cov["traces_validated_against_impl"] += 1
                for sig, desc in problems:
                    if relevant(pid, sig):
                        r.violation("%s:%s" % (sig, fault_of(jobs)), "%s, schedule #%d: %s" % (cfg, pi, desc), {"cfg": cfg, "jobs": jobs, "schedule_tail": tail})
                if pi == 0:
                    r.sample({"configuration": cfg, "jobs": jobs, "schedule": [g.edges[i][1] for i in p][:30]})
            nrand = (60 if thorough else 15) if not has_oversize else (3 if thorough else 1)
            for k in range(nrand):
                problems, tail = random_schedule(r, pid, jobs, rng)
                r.case((cfg, "rand", k, rng.random()))
                r.cov["traces_validated_against_impl"] += 1
                for sig, desc in problems:
                    if relevant(pid, sig):
                        r.violation("%s:%s" % (sig, fault_of(jobs)), "%s, random schedule: %s" % (cfg, desc), {"cfg": cfg, "jobs": jobs, "schedule_tail": tail})
        if pid == "C12":
            handshake_thread_failure(r)
            write_raises_then_reconnect(r)
        if pid == "C11":
            # senders entering at the coder layer (its encoder runs before the coder's own lock): random schedules with preemption inside the encoding
            cj = {"a": [{"kind": "send", "entry": "coder", "fault": "none"}] * 2, "b": [{"kind": "send", "entry": "coder", "fault": "none"}] * 2,
                  "c": [{"kind": "send", "entry": "top", "fault": "none"}]}
            for k in range(60 if thorough else 20):
                problems, tail = random_schedule(r, pid, cj, rng)
                r.case(("coder-entry", "rand", k, rng.random()))
                r.cov["traces_validated_against_impl"] += 1
                for sig, desc in problems:
                    if relevant(pid, sig):
                        r.violation("%s:coder-entry" % sig, "senders entering at the coder layer, random schedule: %s" % desc, {"jobs": "coder-entry", "schedule_tail": tail})
            # two threads deliver incoming frames at once (the handshake thread flushing what was queued while the network thread brings the
            # next frame) and one delivery is answered from within it, while a third thread sends: flush lock and transport lock are taken
            # by all of them (random schedules only: SendPath.tla attributes a reply to the receiving thread's job, which does not fit two receivers)
            rj = {"a": [{"kind": "recvreply", "entry": "top", "fault": "none"}, {"kind": "send", "entry": "top", "fault": "none"}],
                  "b": [{"kind": "recv", "entry": "-", "fault": "none"}, {"kind": "recv", "entry": "-", "fault": "none"}],
                  "c": [{"kind": "send", "entry": "mid", "fault": "none"}]}
            for k in range(90 if thorough else 30):
                problems, tail = random_schedule(r, pid, rj, rng)
                r.case(("two-receivers", "rand", k, rng.random()))
                r.cov["traces_validated_against_impl"] += 1
                for sig, desc in problems:
                    if relevant(pid, sig):
                        r.violation("%s:two-receivers" % sig, "two delivering threads, one delivery answered from within, random schedule: %s" % desc, {"jobs": "two-receivers", "schedule_tail": tail})
            write_across_reconnect(r)
            write_raises_then_reconnect(r)
            asyncore_flush_race(r, rng, 200 if thorough else 40)
    finally:
        roots.close()
    if extra is not None:
        extra(r)
    r.notes["schedules_replayed_exactly"] = exact_n
    r.notes["schedules_with_drift"] = drift_n
    if pid == "C12" and False:
        pass
    r.assumptions += core.ENV_ASSUMPTIONS + [
        "exactly one managed thread runs at a time; threads can be preempted only at Lock / Queue operations (all inter-thread communication of this code goes through them)",
        "the Noise server double mirrors WhatsApp's symmetric-state variant and decrypts strictly in counter order"]
    return r.finish()


def write_across_reconnect(r):
    """A sender is inside its two-part socket write (length header written, payload not yet) when the connection goes down and the
    application reconnects at once: whatever remains of that write belongs to the dead connection - the bytes reaching the NEW connection are
    its own prologue and whole frames only (real threads; the blocked write is released before or after the reconnect, whichever the code allows)."""
    import threading
    from yowsup.layers import YowLayer
    from yowsup.structs import ProtocolTreeNode
    for variant in ("header", "payload"):
        r.case(("write-across-reconnect", variant))
        r.cov["traces_validated_against_impl"] += 1
        World.N += 1

        class Top(YowLayer):
            def __init__(top):
                YowLayer.__init__(top)
                top.up = []

            def receive(top, node):
                top.up.append(node)
        srv1 = NoiseServer()
        rig = transportkit.TransportRig(e2ekit.make_profile("49157708%05d" % World.N), srv1, top_cls=Top, reply_inline=True)
        errors = []
        old_hook = threading.excepthook
        threading.excepthook = lambda a: errors.append(a.exc_type.__name__)
        blocked, release = threading.Event(), threading.Event()
        try:
            if rig.login(timeout=90.0) != "transport":
                raise core.MachineryError("first login of the rig failed")
            d1 = rig.dispatchers[-1]
            orig_send = d1.sendData
            count = {"n": 0}

            def slow_send(data, orig_send=orig_send):
                # the socket write of connection 1 blocks on the chosen part of the two-part write
                count["n"] += 1
                if count["n"] == (1 if variant == "header" else 2):
                    blocked.set()
                    release.wait(20)
                    if not d1.open:
                        return          # the socket is gone: the write fails / is discarded
                orig_send(data)
            d1.sendData = slow_send
            a = threading.Thread(target=lambda: rig.top.toLower(ProtocolTreeNode("iq", {"id": "inflight", "type": "get", "xmlns": "w:p"})))
            a.daemon = True
            a.start()
            import time as _t
            t_end = _t.time() + 60
            while not blocked.is_set() and a.is_alive() and _t.time() < t_end:
                _t.sleep(0.01)
            if not blocked.is_set():
                if a.is_alive():
                    raise core.MachineryError("the sender never reached the socket write")
                # the stack wrote the frame with fewer writes than this variant arms (e.g. header and payload in one write): not applicable
                r.notes.setdefault("write_across_reconnect_skipped", []).append(variant)
                continue
            d1.open = False
            def connection_lost():
                # the network layer announces DISCONNECTED through the stack loop (a deferred callback): run it, as the loop would,
                # before anything reconnects (a connect overtaking it is C16's recorded finding, not this scenario)
                import yowsup.stacks.yowstack as ys
                rig.net.onDisconnected()
                core.drain_detached(execute=True)
            b = threading.Thread(target=connection_lost)
            b.daemon = True
            b.start()
            b.join(0.6)
            if b.is_alive():
                # the stack makes the disconnect wait for the write in progress: let the write finish first
                release.set()
                b.join(60)
                a.join(60)
            srv2 = NoiseServer(static=srv1.static)
            rig.server = srv2
            problems = []
            try:
                state = rig.login(timeout=90.0)
                release.set()
                a.join(60)
                b.join(60)
                time_ok = not a.is_alive() and not b.is_alive()
                if not time_ok:
                    problems.append(("wedged", "the sender / the disconnect handling did not finish"))
                # a stanza on the new connection: the server must be able to follow the byte stream
                rig.top.toLower(ProtocolTreeNode("iq", {"id": "fresh", "type": "get", "xmlns": "w:p"}))
            except ProtocolError as e:
                problems.append(("wire:foreign-bytes", "the new connection's server cannot follow the byte stream: %s" % e))
                state = None
            if state is not None and state != "transport":
                problems.append(("wire:login-failed", "the login after the reconnect ended in state %r" % state))
            elif state == "transport":
                from yowsup.layers.coder.decoder import ReadDecoder
                from yowsup.layers.coder.tokendictionary import TokenDictionary
                try:
                    ids = [ReadDecoder(TokenDictionary()).getProtocolTreeNode(bytearray(x))["id"] for x in srv2.received]
                except Exception as e:
                    ids = ["undecodable: %r" % (e,)]
                if ids != ["fresh"]:
                    problems.append(("wire:foreign-frames", "the new connection carried %s, only 'fresh' was sent on it" % ids))
            for sig, desc in problems:
                r.violation("%s:write-across-reconnect" % sig, "sender blocked in the %s part of its socket write while the connection dropped and was re-established: %s (thread errors %s)" % (
                    variant, desc, errors), {"scenario": "write-across-reconnect", "variant": variant})
        finally:
            release.set()
            threading.excepthook = old_hook
            try:
                rig.net.onDisconnected()
            except Exception:
                pass


def write_raises_then_reconnect(r):
    """A failure on the way down at the LOWEST site: the socket write raises (a dead connection noticed inside a write) for the first or
    the second write of a frame.  The error is reported to the caller, no lock stays held, and after the connection is re-established the
    new connection's byte stream is clean: its own prologue, then whole frames only (nothing of the failed frame is sent later)."""
    import threading
    from yowsup.layers import YowLayer
    from yowsup.structs import ProtocolTreeNode
    import yowsup.stacks.yowstack as ys
    for variant in (1, 2):
        r.case(("write-raises-then-reconnect", variant))
        r.cov["traces_validated_against_impl"] += 1
        World.N += 1

        class Top(YowLayer):
            def __init__(top):
                YowLayer.__init__(top)
                top.up = []

            def receive(top, node):
                top.up.append(node)
        srv1 = NoiseServer()
        rig = transportkit.TransportRig(e2ekit.make_profile("49157707%05d" % World.N), srv1, top_cls=Top, reply_inline=True)
        try:
            if rig.login(timeout=90.0) != "transport":
                raise core.MachineryError("first login of the rig failed")
            d1 = rig.dispatchers[-1]
            orig_send = d1.sendData
            count = {"n": 0}

            def failing_send(data, orig_send=orig_send):
                count["n"] += 1
                if count["n"] == variant:
                    raise IOError(110, "Connection timed out")
                if count["n"] < variant:
                    orig_send(data)
            d1.sendData = failing_send
            problems = []
            raised = None
            try:
                rig.top.toLower(ProtocolTreeNode("iq", {"id": "doomed", "type": "get", "xmlns": "w:p"}))
            except Exception as e:
                raised = e
            if count["n"] < variant:
                r.notes.setdefault("write_raises_skipped", []).append(variant)     # fewer writes per frame than this variant arms
                continue
            if raised is None:
                problems.append(("down:error-swallowed", "the failing socket write was not reported to the sender"))
            held = [getattr(l.lock, "name", i) for i, l in ((i, rig.stack.getLayer(i)) for i in range(1, 5)) if l.lock.locked()]
            tl = getattr(rig.noise, "_transport_lock", None)
            if held or (tl is not None and tl.locked()):
                problems.append(("lock-leak", "locks still held after the failing write: %s transport=%s" % (held, tl is not None and tl.locked())))
            else:
                # the dead connection is noticed and a new one is made
                d1.open = False
                rig.net.onDisconnected()
                core.drain_detached(execute=True)
                srv2 = NoiseServer(static=srv1.static)
                rig.server = srv2
                try:
                    state = rig.login(timeout=90.0)
                    rig.top.toLower(ProtocolTreeNode("iq", {"id": "fresh", "type": "get", "xmlns": "w:p"}))
                except ProtocolError as e:
                    problems.append(("wire:foreign-bytes", "the new connection's server cannot follow the byte stream: %s" % e))
                    state = None
                except Exception as e:
                    problems.append(("down:follow-up-raises", "login / send on the new connection raised %r" % (e,)))
                    state = None
                if state is not None and state != "transport":
                    problems.append(("wire:login-failed", "the login after the reconnect ended in state %r" % state))
                elif state == "transport":
                    from yowsup.layers.coder.decoder import ReadDecoder
                    from yowsup.layers.coder.tokendictionary import TokenDictionary
                    try:
                        ids = [ReadDecoder(TokenDictionary()).getProtocolTreeNode(bytearray(x))["id"] for x in srv2.received]
                    except Exception as e:
                        ids = ["undecodable: %r" % (e,)]
                    if ids != ["fresh"]:
                        problems.append(("wire:foreign-frames", "the new connection carried %s, only 'fresh' was sent on it" % ids))
            for sig, desc in problems:
                r.violation("%s:write-raises" % sig, "socket write #%d of a frame raises, then the connection is re-established: %s" % (variant, desc),
                            {"scenario": "write-raises-then-reconnect", "variant": variant})
        finally:
            try:
                rig.net.onDisconnected()
            except Exception:
                pass


def handshake_thread_failure(r):
    """A failure on the way up on the HANDSHAKE thread: the server's first stanzas travel in the same chunk as its handshake reply (a login with
    the cached server key), so the noise layer queues them and the handshake thread hands them upward as soon as the transport is established.
    The application callback raises for the first one.  That error belongs to the stanza: the login succeeded, the connection stays up, the
    frame behind it and later frames are delivered, sends work, no lock stays held - with real threads, for each position of the raising frame."""
    import threading, time
    from yowsup.layers import YowLayer
    from yowsup.structs import ProtocolTreeNode
    from yowsup.layers.coder.encoder import WriteEncoder
    from yowsup.layers.coder.decoder import ReadDecoder
    from yowsup.layers.coder.tokendictionary import TokenDictionary
    from yowsup.layers.noise.layer import YowNoiseLayer

    def enc(node):
        return bytes(bytearray(WriteEncoder(TokenDictionary()).protocolTreeNodeToBytes(node)))
    for pos in (0, 1):
        r.case(("handshake-thread-failure", pos))
        r.cov["traces_validated_against_impl"] += 1
        World.N += 1
        events = []

        class Top(YowLayer):
            def __init__(top):
                YowLayer.__init__(top)
                top.up = []

            def receive(top, node):
                if node["boom"]:
                    raise _Boom("application callback raising")
                top.up.append(node)

            def onEvent(top, ev):
                events.append(ev.getName())
                return False
        srv1 = NoiseServer()
        rig = transportkit.TransportRig(e2ekit.make_profile("49157709%05d" % World.N), srv1, top_cls=Top, reply_inline=True)
        errors = []
        old_hook = threading.excepthook
        threading.excepthook = lambda a: errors.append(a.exc_type.__name__)
        try:
            if rig.login(timeout=90.0) != "transport":
                raise core.MachineryError("first login of the rig failed")
            d1 = rig.dispatchers[-1]
            d1.open = False
            rig.net.onDisconnected()
            frames = [ProtocolTreeNode("notification", {"id": "n%d" % i, "from": "s.whatsapp.net", "type": "x"}) for i in range(2)]
            frames[pos]["boom"] = "1"

            class Behind(object):
                """The same server (same static key); its first stanzas ride on the chunk of its handshake reply."""
                def __init__(b):
                    b.srv = NoiseServer(static=srv1.static)
                    b.done = False

                def feed(b, data):
                    out = b.srv.feed(data)
                    if out and b.srv.state == "transport" and not b.done:
                        b.done = True
                        out[-1] = out[-1] + b"".join(b.srv.send(enc(f)) for f in frames)
                    return out

                def __getattr__(b, n):
                    return getattr(b.srv, n)
            rig.server = Behind()
            state = rig.login(timeout=90.0)
            w = rig.noise._handshake_worker
            if w is not None:
                w.join(60)
            problems = []
            if rig.server.variant != "IK" or not rig.server.done:
                raise core.MachineryError("second login of the rig was not an IK handshake with stanzas behind the hello (%s)" % rig.server.variant)
            if state != "transport":
                problems.append(("up:login-state", "after the login the noise protocol is in state %r" % state))
            if YowNoiseLayer.EVENT_HANDSHAKE_FAILED in events or any(getattr(n, "tag", None) == "failure" for n in rig.top.up):
                problems.append(("up:spurious-login-failure", "the application's error for a stanza was reported as a login failure (events %s, top %s)" % (
                    [e.rsplit(".", 1)[-1] for e in events], [n.tag for n in rig.top.up])))
            last_connect = max(i for i, x in enumerate(rig.log) if x[0] == "connect")
            if any(x[0] == "disconnect" for x in rig.log[last_connect:]):
                problems.append(("up:disconnected", "the connection was closed because an application callback raised"))
            # a later frame: everything behind the failing stanza is delivered, in order
            later = ProtocolTreeNode("notification", {"id": "later", "from": "s.whatsapp.net", "type": "x"})
            try:
                rig.net.onRecvData(rig.server.send(enc(later)))
            except _Boom:
                pass
            except Exception as e:
                problems.append(("up:later-frame-raises", "a later frame raised %r" % (e,)))
            want = [f["id"] for f in frames if not f["boom"]] + ["later"]
            got = [n["id"] for n in rig.top.up if getattr(n, "tag", None) == "notification"]
            if got != want:
                problems.append(("up:frames-lost", "frames delivered after the failing one: %s, expected %s" % (got, want)))
            held = [getattr(l.lock, "name", i) for i, l in ((i, rig.stack.getLayer(i)) for i in range(1, 5)) if l.lock.locked()]
            if held or rig.noise._flush_lock.locked():
                problems.append(("lock-leak", "locks still held: %s flush=%s" % (held, rig.noise._flush_lock.locked())))
            else:
                done = []
                t = threading.Thread(target=lambda: (rig.top.toLower(ProtocolTreeNode("iq", {"id": "after", "type": "get", "xmlns": "w:p"})), done.append(1)))
                t.daemon = True
                t.start()
                t.join(60)
                if not done:
                    problems.append(("wedged", "a send after the failure does not return"))
                else:
                    try:
                        got_srv = [ReadDecoder(TokenDictionary()).getProtocolTreeNode(bytearray(x)) for x in rig.server.received]
                    except Exception as e:
                        got_srv = []
                    if not any(n is not None and n["id"] == "after" for n in got_srv):
                        problems.append(("down:send-lost", "a send after the failure did not reach the server"))
            for sig, desc in problems:
                r.violation("%s:handshake-thread" % sig, "stanzas behind the server hello, application raises for stanza %d: %s (thread errors %s)" % (pos, desc, errors),
                            {"scenario": "handshake-thread-failure", "pos": pos})
        finally:
            threading.excepthook = old_hook
            try:
                rig.net.onDisconnected()
            except Exception:
                pass


def fault_of(jobs):
    fs = sorted(set(j["fault"] for js in jobs.values() for j in js if j["fault"] != "none"))
    return "+".join(fs) or "nofault"


def relevant(pid, sig):
    if pid == "C11":
        return sig.startswith("wire:") or sig == "wedged"
    return True


def asyncore_flush_race(r, rng, n=40):
    """The default (asyncore) dispatcher's send buffer is flushed by whoever gets there: the sending thread itself (sendData) and the
    thread that serves the connection (handle_write, when the socket could not take everything at once).  Real AsyncoreConnectionDispatcher,
    a socket double that takes a limited number of bytes per call and is a preemption point (the real send() releases the interpreter lock),
    2-3 sender threads and the serving thread under the deterministic scheduler, PCT-random schedules.  The bytes reaching the socket are
    the chunks handed to sendData, each whole and exactly once, those of one sender in its order."""
    import threading as _threading
    import yowsup.layers.network.dispatcher.dispatcher_asyncore as DA
    from yowsup.layers.network.dispatcher.dispatcher import ConnectionCallbacks

    class CB(ConnectionCallbacks):
        pass
    for k in range(n):
        s = sched.Scheduler()
        saved = getattr(DA, "threading", None)
        if saved is not None:
            DA.threading = sched.shim_module(_threading, Lock=lambda: s.Lock(), RLock=lambda: s.RLock())
        wire = bytearray()
        cap = rng.choice([3, 5, 8, 64])
        # every third run the connection dies under a write: the n-th send() finds the peer gone
        reset_at = rng.randint(1, 6) if k % 3 == 2 else None
        calls = {"n": 0, "closed": 0}
        downs = []

        class Sock(object):
            def send(self, data):
                s.yield_point(("sock.send", len(data)))
                calls["n"] += 1
                if reset_at is not None and calls["n"] >= reset_at:
                    raise ConnectionResetError(104, "Connection reset by peer")
                take = bytes(data[:cap])
                wire.extend(take)
                return len(take)

            def setblocking(self, x):
                pass

            def fileno(self):
                return -1

            def close(self):
                calls["closed"] += 1
        CB.onDisconnected = lambda cb: downs.append("down")
        try:
            d = DA.AsyncoreConnectionDispatcher(CB())
            d.socket = Sock()
            d.connected = True
            d._connected = True
            senders = rng.choice([1, 2, 3])
            chunks = {}
            for si in range(senders):
                chunks["s%d" % si] = [bytes([65 + si]) + bytes([48 + j]) * rng.randint(2, 9) + b"." for j in range(rng.randint(1, 3))]
            done = {"n": 0}

            def sender(name):
                for c in chunks[name]:
                    d.sendData(c)
                done["n"] += 1

            def server():
                # the serving thread: flushes while there is something to flush, until every sender is done and the buffer is empty
                while True:
                    if downs:
                        return          # the connection is over: nothing left to serve
                    if len(d.out_buffer):
                        d.handle_write()
                    elif done["n"] == senders:
                        return
                    else:
                        s.wait_until("work", lambda: len(d.out_buffer) or done["n"] == senders or downs)
            for name in sorted(chunks):
                s.spawn(name, lambda name=name: sender(name))
            s.spawn("loop", server)
            prio = {t.name: rng.random() for t in s.threads}
            changes = set(rng.sample(range(1, 40), 4))
            st = {"n": 0}

            def chooser(rr, sc):
                st["n"] += 1
                if st["n"] in changes:
                    prio[rng.choice(sorted(prio))] = rng.random()
                return max(rr, key=lambda t: prio.get(t.name, 0))
            r.case(("asyncore-flush", k, rng.random()))
            r.cov["traces_validated_against_impl"] += 1
            try:
                s.run(chooser, 20000)
            except sched.Deadlock as e:
                r.violation("wedged:asyncore-flush", "senders and the serving thread flushing the asyncore dispatcher's buffer: %s" % e, {"chunks": {a: [c.decode() for c in b] for a, b in chunks.items()}})
                continue
            errs = [t.error for t in s.threads if t.error]
            if reset_at is not None:
                # oracle for a connection that died under a write: nobody blocked (checked above), nobody saw an exception, the end was
                # reported (a second writer that was already past the connected test may report it again: the network layer announces only a state change) and what reached the socket before is a prefix of
                # some interleaving of whole chunks - here only: every byte on the wire belongs to a chunk that was handed over
                allowed = set(b for cs in chunks.values() for c in cs for b in c)
                if errs or (calls["n"] >= reset_at and not downs) or any(b not in allowed for b in wire):
                    r.violation("reset:asyncore-flush", "chunks handed to the asyncore dispatcher %s, send() call #%d finds the connection reset: errors %r, end of connection reported %d times, bytes on the wire %r; schedule tail %s" % (
                        {a: [c.decode() for c in b] for a, b in chunks.items()}, reset_at, errs, len(downs), bytes(wire), s.trace[-10:]),
                        {"chunks": {a: [c.decode() for c in b] for a, b in chunks.items()}, "reset_at": reset_at})
                continue
            # oracle: the wire splits into whole chunks, each chunk once, per sender in order
            rest = bytes(wire)
            got = []
            while rest:
                j = rest.find(b".")
                if j < 0:
                    got.append(rest)
                    break
                got.append(rest[:j + 1])
                rest = rest[j + 1:]
            want = sorted(c for cs in chunks.values() for c in cs)
            per_sender_ok = all([g for g in got if g[:1] == cs[0][:1]] == cs for cs in chunks.values())
            if errs or sorted(got) != want or not per_sender_ok:
                r.violation("stream:asyncore-flush", "chunks handed to the asyncore dispatcher %s (socket takes %d bytes per call); bytes reaching the socket %r%s; schedule tail %s" % (
                    {a: [c.decode() for c in b] for a, b in chunks.items()}, cap, bytes(wire), (" errors %r" % errs) if errs else "", s.trace[-14:]),
                    {"chunks": {a: [c.decode() for c in b] for a, b in chunks.items()}, "cap": cap})
        finally:
            if saved is not None:
                DA.threading = saved
            s.kill()
