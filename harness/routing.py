"""Shared driver for C06 (exactly-once routing) and C07 (mandatory acknowledgements).
Spec: Routing.tla evaluated by TLC over the kind table extracted from the catalogue; binding A: every (kind, module selection, encryption on/off)
row is replayed on a real assembled stack between probes."""
import json, os, random
from harness import core, stackkit

SHORT = {"YowAuthenticationProtocolLayer": "auth", "YowMessagesProtocolLayer": "messages", "YowReceiptProtocolLayer": "receipts",
         "YowAckProtocolLayer": "acks", "YowPresenceProtocolLayer": "presence", "YowIbProtocolLayer": "ib", "YowIqProtocolLayer": "iq",
         "YowNotificationsProtocolLayer": "notifications", "YowContactsIqProtocolLayer": "contacts", "YowChatstateProtocolLayer": "chatstate",
         "YowCallsProtocolLayer": "calls", "YowGroupsProtocolLayer": "groups", "YowMediaProtocolLayer": "media",
         "YowPrivacyProtocolLayer": "privacy", "YowProfilesProtocolLayer": "profiles", None: "none"}
# note: out.iq.unregister is claimed by the profiles layer


def payload_class(node):
    """Classify a plaintext message payload with the generated protobuf classes only."""
    proto = node.getChild("proto")
    if proto is None or proto.getData() is None:
        return "none"
    from yowsup.layers.protocol_messages.proto.e2e_pb2 import Message
    m = Message()
    try:
        m.ParseFromString(proto.getData())
    except Exception:
        return "other"
    if m.conversation:
        return "conversation"
    if m.HasField("extended_text_message"):
        return "extended_text"
    fields = [f.name for f, _ in m.ListFields()]
    if fields == ["sender_key_distribution_message"]:
        return "skdm"
    return "other"


def features(cat, kind, rng):
    if kind.direction == "in":
        req = None
        holder = "none"
        if kind.solicited_by:
            sk = cat.BY_NAME[kind.solicited_by]
            req = sk.make_entity(rng)
            holder = SHORT[sk.iq_reply["holder"]] if sk.iq_reply and sk.iq_reply["holder"] else "none"
        node = kind.make_node(rng, request=req) if req is not None else kind.make_node(rng)
        proto = node.getChild("proto")
        return {"dir": "in", "tag": node.tag, "type": node["type"] or "none", "xmlns": node["xmlns"] or "none",
                "children": sorted(set(c.tag for c in node.getAllChildren())), "mediatype": (proto["mediatype"] if proto is not None and proto["mediatype"] else "none"),
                "payload": payload_class(node) if node.tag == "message" else "none", "holder": holder, "class": "none"}
    ent = kind.make_entity(rng)
    typ = ent.getType() if hasattr(ent, "getType") else None
    xmlns = ent.getXmlns() if hasattr(ent, "getXmlns") else None
    return {"dir": "out", "tag": ent.getTag(), "type": typ or "none", "xmlns": xmlns or "none", "children": [], "mediatype": "none",
            "payload": "none", "holder": "none", "class": ent.__class__.__name__}


def kind_table(cat, seed):
    rows = []
    for k in cat.KINDS:
        if (k.notes or "") == "axolotl-state":
            continue        # entity-level kinds of the axolotl package (C09); their routing needs key state (C03)
        fs = []
        for s in range(4):
            try:
                fs.append(features(cat, k, random.Random(seed * 131 + s)))
            except Exception as e:
                fs.append({"error": repr(e)})
        f = fs[0]
        if "error" in f:
            rows.append((k, None, f["error"]))
            continue
        stable = all(json.dumps(x, sort_keys=True) == json.dumps(f, sort_keys=True) for x in fs)
        react_module = "none"
        if k.direction == "in" and k.reaction is not None and getattr(k, "reaction_layer", None):
            rl = SHORT.get(k.reaction_layer, "none")
            react_module = rl if rl in ("groups", "media", "privacy", "profiles") else "none"
        if k.direction == "in":
            expect_claim = bool(k.reaches_top)
            layer = f["holder"] if (f["tag"] == "iq" and f["holder"] != "none") else SHORT.get(k.layer, "none")
        else:
            expect_claim = True
            layer = SHORT.get(k.layer, "none")
        row = dict(f, name=k.name, module=k.module or "none", layer=layer, expect_claim=expect_claim,
                   expect_react=bool(k.direction == "in" and k.reaction is not None and not k.raises), react_module=react_module)
        rows.append((k, row, None if stable else "features vary between draws"))
    return rows


class Rig(object):
    """One assembled stack per (module selection, encryption on/off)."""
    def __init__(self, cfg, enc):
        from yowsup.layers import YowLayer, YowParallelLayer
        from yowsup.stacks import YowStack, YowStackBuilder
        self.cfg, self.enc = cfg, enc

        class Probe(YowLayer):
            def __init__(self):
                YowLayer.__init__(self)
                self.up, self.down = [], []

            def receive(self, d):
                self.up.append(d)

            def send(self, d):
                self.down.append(d)
        self.bottom, self.top = Probe(), Probe()
        layers = YowStackBuilder.getProtocolLayers(groups=cfg["g"], media=cfg["m"], privacy=cfg["p"], profiles=cfg["pr"])
        items = [self.bottom]
        self.enc_entered = []
        if enc:
            from yowsup.layers.axolotl import AxolotlSendLayer, AxolotlControlLayer, AxolotlReceivelayer
            items += [AxolotlControlLayer, YowParallelLayer((AxolotlSendLayer, AxolotlReceivelayer))]
        items += [YowParallelLayer(layers), self.top]
        self.stack = YowStack(tuple(items), reversed=False)
        if enc:
            # a real key store so that the control layer can answer key requests
            from yowsup.layers import YowLayerEvent
            from yowsup.layers.network.layer import YowNetworkLayer
            from harness import e2ekit
            Rig.NPROFILES = getattr(Rig, "NPROFILES", 0) + 1
            self.stack.setProp("profile", e2ekit.make_profile("4915770%06d" % Rig.NPROFILES))
            self.stack.emitEvent(YowLayerEvent(YowNetworkLayer.EVENT_STATE_CONNECTED))
            del self.bottom.down[:]
            sendl = self.stack.getLayer(2).sublayers[0]
            orig = sendl.send

            def recording_send(node, orig=orig):
                if node.tag == "message":
                    self.enc_entered.append(node)      # its further fate (encryption) is C03's subject
                    return
                return orig(node)
            sendl.send = recording_send

    def reset(self):
        del self.bottom.up[:], self.bottom.down[:], self.top.up[:], self.top.down[:], self.enc_entered[:]
        # registries are per layer; clear what a previous case may have left behind
        grp = self.stack.getLayer(3 if self.enc else 1)
        for s in grp.sublayers:
            if hasattr(s, "iqRegistry"):
                s.iqRegistry.clear()

    def inject(self, node):
        self.bottom.toUpper(node)

    def send(self, entity):
        self.top.toLower(entity)


def run(pid):
    r = core.Run(pid, "model_checking")
    thorough = r.tier == "thorough"
    rng = random.Random(core.seed())
    from harness import catalogue as cat
    from harness import extra_kinds
    focus = "routing" if pid == "C06" else "acks"
    r.cov["rule"] = ("case = (stanza/entity kind of the catalogue with generated field values, selection of the optional modules (16), encryption layers "
                     "on/off) replayed on a real assembled stack; expected claimer / reactor sets come from Routing.tla evaluated by TLC, which also checks "
                     "mutual exclusion of the layers' guards for all 16 selections; %s; distinct by (kind, selection, encryption, draw)" % (
                         "compared: number, class and content of entities at the top / stanzas at the bottom" if focus == "routing"
                         else "compared: the stanzas sent down in response (exactly one ack/receipt/pong with the stanza's id, type, sender, participant)"))
    table = kind_table(cat, core.seed())
    bad = [(k.name, e) for k, row, e in table if row is None or e]
    kinds = [(k, row) for k, row, e in table if row is not None]
    kf = os.path.join(r.scratch.path, "kinds.json")
    json.dump([row for _, row in kinds], open(kf, "w"))
    res = core.tlc("Routing_Eval", "Routing_Eval.cfg", r.scratch, workers=1, env={"KINDS_FILE": kf}, timeout=1800)
    outs = {p["i"]: p for p in res.printed() if isinstance(p, dict) and "rows" in p}
    if not res.finished or len(outs) != len(kinds):
        raise core.MachineryError("Routing_Eval failed (%d of %d kinds)\n%s" % (len(outs), len(kinds), "\n".join(res.out.splitlines()[-20:])))
    r.add_tlc(res)
    r.cov["states"] = len(kinds) * 16
    r.cov["transitions"] = len(kinds) * 16 * 15
    r.notes["kinds"] = len(kinds)
    broken = [(k.name, e) for k, row, e in table if row is None]
    if broken:
        # a catalogue entry that cannot even be built would silently drop its rows from the check
        raise core.MachineryError("catalogue kinds cannot be built: %s" % broken[:5])
    if bad:
        r.notes["kinds_without_stable_features"] = bad[:10]
    from harness import e2ekit
    roots = e2ekit.Roots()
    e2ekit.small_batches(3, 1)
    try:
        return _run_rows(r, cat, kinds, outs, focus, thorough)
    finally:
        roots.close()


def _run_rows(r, cat, kinds, outs, focus, thorough):
    rigs = {}
    rng = random.Random(core.seed() + 99)
    draws = 6 if thorough else 2
    for ki, (kind, row) in enumerate(kinds):
        o = outs[ki + 1]
        for rrow in o["rows"]:
            cfg = rrow["cfg"]
            ck = (cfg["g"], cfg["m"], cfg["p"], cfg["pr"])
            # design verdict for this row (guards mutually exclusive, as the catalogue expects)
            design_ok = rrow["ok1"] if focus == "routing" else rrow["ok2"]
            # documented variants of the stanza (optional attributes present / absent, group forms, ...) in turn, the default shape first
            variants = [None] + (list(kind.variants) + list(kind.routing_variants) if kind.direction == "in" else [])
            for enc in (False, True):
                for d in range(max(draws, len(variants))):
                    rig = rigs.get((ck, enc))
                    if rig is None:
                        rig = rigs[(ck, enc)] = Rig(cfg, enc)
                    rig.poisoned = False
                    check_row(r, cat, kind, row, rrow, rig, enc, random.Random(core.seed() * 7 + ki * 31 + d), focus, design_ok, variant=variants[d % len(variants)])
                    if kind.name in ALSO_SOLICITED and not rig.poisoned:
                        check_row(r, cat, kind, row, rrow, rig, enc, random.Random(core.seed() * 7 + ki * 31 + d + 1000), focus, design_ok,
                                  solicit=ALSO_SOLICITED[kind.name])
                    if d == 0 and not rig.poisoned and all(cfg.values()):
                        repeat_row(r, cat, kind, rrow, rig, enc, core.seed() * 7 + ki * 31 + 500, variants[(ki + (1 if enc else 0)) % len(variants)])
                    if rig.poisoned:
                        del rigs[(ck, enc)]    # an exception unwound through the layers (locks may be left held): start from a fresh stack
        if ki == len(kinds) - 1 and focus == "acks":
            ping_collisions(r, cat, rigs, rng)
        if ki == len(kinds) - 1 and focus == "routing":
            unknown_retry(r, cat, rigs, rng)
            default_layers(r)
        if ki in (0, 40, 90):
            r.sample({"kind": kind.name, "features": {k: row[k] for k in ("tag", "type", "xmlns", "children", "mediatype", "payload", "holder", "class")},
                      "claimers_all_on": [x["claim"] for x in o["rows"] if all(x["cfg"].values())][0]})
    r.assumptions += core.ENV_ASSUMPTIONS[:1] + [
        "kind table and concrete stanzas come from the hand-written catalogue (harness/catalogue.py); encrypted message kinds and key iqs are covered by C03/C14",
        "with encryption layers on, an outgoing message is followed up to its entry into the send layer (its encryption is C03's subject)"]
    return r.finish()


def unknown_retry(r, cat, rigs, rng):
    """A retry receipt for a message the encryption layer does not hold (sent by an earlier run, already answered, evicted) is not its
    business: like every other receipt it reaches the application exactly once, with or without the encryption layers."""
    kind = cat.BY_NAME.get("in.receipt.retry")
    if kind is None:
        raise core.MachineryError("catalogue has no in.receipt.retry kind")
    for (ck, enc), rig in sorted(rigs.items(), key=lambda x: repr(x[0])):
        for variant in (None, "group"):
            rig.reset()
            r.case(("unknown-retry", ck, enc, variant))
            r.cov["traces_validated_against_impl"] += 1
            try:
                node = kind.make_node(rng, variant=variant) if variant else kind.make_node(rng)
                rig.inject(node)
                ups = list(rig.top.up)
                if len(ups) != 1 or ups[0] is None or ups[0].getId() != node["id"]:
                    r.violation("in:count:in.receipt.retry:unknown-message", "retry receipt for a message nobody holds (encryption %s, %s): %d entities at the top, expected 1" % (
                        enc, variant or "direct", len(ups)), {"enc": enc, "variant": variant})
            except core.TooManyViolations:
                raise
            except Exception as e:
                r.violation("in:exception:in.receipt.retry:%s" % type(e).__name__, "retry receipt for an unknown message raised %r" % (e,), {"enc": enc})
                rigs.pop((ck, enc), None)
                break


def default_layers(r):
    """The module selection of the default stack is the module selection asked for: getDefaultLayers(flags) carries exactly the
    protocol layers of getProtocolLayers(flags)."""
    from yowsup.stacks import YowStackBuilder
    from yowsup.layers import YowParallelLayer
    import itertools
    for g, m, p, pr in itertools.product((False, True), repeat=4):
        r.case(("default-layers", g, m, p, pr))
        want = sorted(c.__name__ for c in YowStackBuilder.getProtocolLayers(groups=g, media=m, privacy=p, profiles=pr))
        got = None
        for item in YowStackBuilder.getDefaultLayers(groups=g, media=m, privacy=p, profiles=pr):
            if isinstance(item, YowParallelLayer):
                names = sorted(c.__name__ for c in item.sublayers) if item.sublayers and isinstance(item.sublayers[0], type) else sorted(type(c).__name__ for c in item.sublayers)
                if "YowMessagesProtocolLayer" in names:
                    got = names
        if got != want:
            r.violation("selection:default-layers", "getDefaultLayers(groups=%s, media=%s, privacy=%s, profiles=%s) carries protocol layers %s, the selection asks for %s" % (
                g, m, p, pr, got, want), {"flags": [g, m, p, pr]})


def ping_collisions(r, cat, rigs, rng):
    """Every server ping gets one pong with the same id - also when its id equals that of a request still awaiting its reply
    (request ids are short process-wide counters, so server-chosen ids do collide)."""
    from yowsup.structs import ProtocolTreeNode
    for (ck, enc), rig in sorted(rigs.items(), key=lambda x: repr(x[0])):
        for k in cat.KINDS:
            if k.direction != "out" or not k.iq_reply:
                continue
            mod = k.module
            if mod and not rig.cfg[{"groups": "g", "media": "m", "privacy": "p", "profiles": "pr"}[mod]]:
                continue
            rig.reset()
            r.case(("ping-collision", k.name, ck, enc))
            r.cov["traces_validated_against_impl"] += 1
            try:
                ent = k.make_entity(rng)
                rig.send(ent)
                del rig.bottom.down[:]
                rig.inject(ProtocolTreeNode("iq", {"id": ent.getId(), "type": "get", "xmlns": "urn:xmpp:ping", "from": "s.whatsapp.net"}))
                pongs = [d for d in rig.bottom.down if d.tag == "iq" and d["type"] == "result"]
                if len(pongs) != 1 or pongs[0]["id"] != ent.getId() or len(rig.bottom.down) != 1:
                    r.violation("react:ping-collision:%s" % k.name, "server ping whose id equals the outstanding %s request's id: %d pongs (stanzas down: %s)" % (
                        k.name, len(pongs), [(d.tag, d["type"], d["id"]) for d in rig.bottom.down]), {"kind": k.name, "enc": enc})
            except core.TooManyViolations:
                raise
            except Exception as e:
                r.violation("react:ping-collision:exception:%s" % type(e).__name__, "%s then colliding ping raised %r" % (k.name, e), {"kind": k.name})
                rigs.pop((ck, enc), None)
                break


# results that a layer claims with or without an outstanding request: also replayed as the reply to that request
ALSO_SOLICITED = {"in.iq.result.sync": "out.iq.sync.get"}


def repeat_row(r, cat, kind, rrow, rig, enc, seed, variant):
    """The same stanza once more under a new stanza id (a caller ringing again, a notification repeated by the server): what reaches the
    application and what is written back is the same as the first time - no layer remembers a stanza it has answered."""
    if kind.direction != "in" or kind.solicited_by or kind.raises:
        return
    cfgname = "".join(k for k, v in sorted(rrow["cfg"].items()) if v) or "-"
    seen = []
    try:
        for round_ in (1, 2):
            node = kind.make_node(random.Random(seed), variant=variant)
            if node["id"] is not None:
                node.setAttribute("id", "%s%d" % (node["id"][:-1] or "r", round_))
            rig.reset()
            rig.inject(node)
            downs = [d for d in rig.bottom.down if not (enc and d.tag == "iq" and d["xmlns"] == "encrypt")]
            seen.append((len(rig.top.up), sorted((d.tag, d["type"] or "", d["class"] or "") for d in downs)))
    except Exception:
        rig.poisoned = True
        return      # an exception for this kind is reported by check_row
    r.case(("repeat", kind.name, cfgname, enc, variant))
    r.cov["traces_validated_against_impl"] += 1
    if seen[0] != seen[1]:
        r.violation("repeat:%s" % kind.name, "%s (variant %s, modules %s, encryption %s) injected twice under different stanza ids: first time %d entities up / %s down, second time %d up / %s down" % (
            kind.name, variant, cfgname, enc, seen[0][0], seen[0][1], seen[1][0], seen[1][1]), {"kind": kind.name, "cfg": rrow["cfg"], "enc": enc, "variant": variant})


def check_row(r, cat, kind, row, rrow, rig, enc, rng, focus, design_ok, solicit=None, variant=None):
    cfgname = "".join(k for k, v in sorted(rrow["cfg"].items()) if v) or "-"
    label = (kind.name, cfgname, enc)
    r.case(label + (rng.random(),))
    r.cov["traces_validated_against_impl"] += 1
    if not design_ok:
        # the guards as transcribed give not exactly one claimer / reactor: decided against the real stack below
        r.notes.setdefault("design_rows_not_exclusive", []).append([kind.name, cfgname]) if len(r.notes.get("design_rows_not_exclusive", [])) < 20 else None
    rig.reset()
    owner_present = row["module"] == "none" or rrow["cfg"][{"groups": "g", "media": "m", "privacy": "p", "profiles": "pr"}[row["module"]]]
    try:
        if kind.direction == "in":
            req = None
            inline = False
            if kind.solicited_by or solicit:
                sk = cat.BY_NAME[kind.solicited_by or solicit]
                req = sk.make_entity(rng)
                node = kind.make_node(rng, variant=variant, request=req)
                # every third solicited reply arrives while the request is still being written (loopback / very fast peer, or the
                # writing thread preempted right after the write): the routing is that of request-then-reply
                inline = rng.random() < 0.34
                if inline:
                    orig_send = rig.bottom.send
                    fired = []

                    def send_and_reply(data, orig_send=orig_send):
                        orig_send(data)
                        if not fired and getattr(data, "tag", None) == "iq" and data["id"] == node["id"]:
                            fired.append(1)
                            rig.bottom.send = orig_send
                            rig.bottom.toUpper(node)
                    rig.bottom.send = send_and_reply
                    try:
                        rig.send(req)
                    finally:
                        rig.bottom.send = orig_send
                    inline = bool(fired)
                else:
                    rig.send(req)
                rig.reset_probes_only = True
                rig.bottom.down[:] = [d for d in rig.bottom.down if not (d.tag == "iq" and d["id"] == req.getId() and d["type"] not in ("result", "error"))] if inline else []
                del rig.enc_entered[:]
            else:
                node = kind.make_node(rng, variant=variant)
            want_react = kind.reaction(node) if kind.reaction is not None else []
            copy_before = node.__str__()
            if not inline:
                rig.inject(node)
            ups, downs = list(rig.top.up), list(rig.bottom.down)
            if enc:
                # key management traffic of the encryption layers (key upload after login, key fetch) is not a reaction to the stanza
                downs = [d for d in downs if not (d.tag == "iq" and d["xmlns"] == "encrypt")]
            expect_up = 1 if (kind.reaches_top and owner_present) else 0
            if enc and node.tag == "notification" and node["type"] == "encrypt":
                expect_up = 0
            if focus == "routing":
                if len(ups) != expect_up:
                    r.violation("in:count:%s" % kind.name, "%s injected (modules %s, encryption %s): %d entities at the top, expected %d" % (
                        kind.name, cfgname, enc, len(ups), expect_up), {"kind": kind.name, "cfg": rrow["cfg"], "enc": enc})
                    return
                n_react = len(want_react) if (kind.reaction is not None and not kind.raises and (row["react_module"] == "none" or rrow["cfg"][{"groups": "g", "media": "m", "privacy": "p", "profiles": "pr"}[row["react_module"]]])) else 0
                if len(downs) != n_react:
                    r.violation("in:down-count:%s" % kind.name, "%s injected (modules %s, encryption %s): %d stanzas went down %s, expected %d (nothing may be duplicated)" % (
                        kind.name, cfgname, enc, len(downs), [d.tag for d in downs], n_react), {"kind": kind.name, "cfg": rrow["cfg"], "enc": enc})
                    return
                if expect_up:
                    e = ups[0]
                    want_cls = kind.entity_class.rsplit(".", 1)[-1] if kind.entity_class else None
                    if e is None or (want_cls and e.__class__.__name__ != want_cls and want_cls not in [c.__name__ for c in e.__class__.__mro__]):
                        r.violation("in:class:%s" % kind.name, "%s: entity at the top is %s, expected %s" % (kind.name, type(e).__name__, want_cls),
                                    {"kind": kind.name, "cfg": rrow["cfg"], "enc": enc})
                        return
                    try:
                        # the stanza's fields are compared for the default shape; for the other variants count and class (their
                        # field-level fidelity is C09's subject, including its recorded findings)
                        diffs, _ = cat.node_diff(e.toProtocolTreeNode(), node) if ("only count/class are compared" not in (kind.notes or "") and variant is None) else ([], [])
                        # C06 asks that the entity carries the stanza's fields; attributes the serialisation ADDS
                        # (defaults made explicit) are C09's subject, not a routing failure
                        diffs = [x for x in diffs if not x.endswith(" added")]
                    except Exception as ex:
                        diffs = ["toProtocolTreeNode raised %r" % (ex,)]
                    if diffs:
                        r.violation("in:fields:%s" % kind.name, "%s: the entity does not carry the stanza's fields: %s" % (kind.name, "; ".join(diffs[:3])),
                                    {"kind": kind.name, "cfg": rrow["cfg"], "enc": enc})
            else:
                react_present = kind.reaction is not None and (row["react_module"] == "none" or rrow["cfg"][{"groups": "g", "media": "m", "privacy": "p", "profiles": "pr"}[row["react_module"]]])
                want = want_react if react_present else []
                if len(downs) != len(want):
                    r.violation("react:count:%s" % kind.name, "%s injected (modules %s, encryption %s): %d stanzas sent down %s, expected %d" % (
                        kind.name, cfgname, enc, len(downs), [d.tag for d in downs], len(want)), {"kind": kind.name, "cfg": rrow["cfg"], "enc": enc})
                    return
                for g, w in zip(downs, want):
                    diffs, _ = cat.node_diff(g, w)
                    if diffs:
                        r.violation("react:fields:%s" % kind.name, "%s: acknowledgement differs: %s" % (kind.name, "; ".join(diffs[:3])),
                                    {"kind": kind.name, "cfg": rrow["cfg"], "enc": enc})
        else:
            if focus != "routing":
                return
            seed = rng.random()
            ent = kind.make_entity(random.Random(seed))
            want = kind.make_node(random.Random(seed))
            rig.send(ent)
            downs = list(rig.bottom.down)
            entered = list(rig.enc_entered)
            expect = 1 if owner_present else 0
            if enc and ent.getTag() == "message":
                if len(entered) != expect or downs:
                    r.violation("out:enc-entry:%s" % kind.name, "%s sent (modules %s): %d stanzas entered the encryption send layer, %d bypassed it; expected %d / 0" % (
                        kind.name, cfgname, len(entered), len(downs), expect), {"kind": kind.name, "cfg": rrow["cfg"]})
                    return
                downs = entered
            if len(downs) != expect:
                r.violation("out:count:%s" % kind.name, "%s sent (modules %s, encryption %s): %d stanzas at the bottom, expected %d" % (
                    kind.name, cfgname, enc, len(downs), expect), {"kind": kind.name, "cfg": rrow["cfg"], "enc": enc})
                return
            if expect:
                diffs, _ = cat.node_diff(downs[0], want)
                if diffs:
                    r.violation("out:fields:%s" % kind.name, "%s: stanza differs from the entity's serialisation: %s" % (kind.name, "; ".join(diffs[:3])),
                                {"kind": kind.name, "cfg": rrow["cfg"], "enc": enc})
    except core.TooManyViolations:
        raise
    except Exception as e:
        rig.poisoned = True
        if kind.raises and type(e).__name__ == kind.raises:
            return       # documented rejection (picture notification that is neither set nor delete)
        r.violation("%s:exception:%s:%s" % (kind.direction, type(e).__name__, kind.name), "%s (modules %s, encryption %s, module %s %s) raised %r" % (
            kind.name, cfgname, enc, row["module"], "present" if owner_present else "absent", e), {"kind": kind.name, "cfg": rrow["cfg"], "enc": enc})
