# -*- coding: utf-8 -*-
"""Catalogue of stanza kinds handled by the yowsup protocol-layer group.

This module is an ORACLE: every ProtocolTreeNode it produces is written by hand
from the entity class docstrings and the from/toProtocolTreeNode code, never by
calling an entity's own toProtocolTreeNode.  The harness checks the entity
classes and the protocol layers against it:

  (a) routing      each "in" stanza gives exactly one entity at the top of the
                   protocol-layer group (or none if reaches_top is False), each
                   "out" entity gives exactly one stanza at the bottom
  (b) round trip   Entity.fromProtocolTreeNode(node).toProtocolTreeNode() == node
  (c) reactions    stanzas the layers must send DOWN on receipt (acks, receipts,
                   pong)
  (d) iq replies   request/response correlation through iqRegistry

Shape policy
  make_node(rng)                 default variant: the most complete documented
                                 shape that the unmodified code round-trips
                                 (if there is one).
  make_node(rng, variant="x")    documented alternatives (an optional attribute
                                 absent / present, another documented child...)
                                 Those that the real code does not reproduce are
                                 listed in KNOWN_DEVIATIONS, they are NOT bent
                                 to fit the code.
  If no documented shape round-trips, the default is the documented shape and the
  kind is listed in KNOWN_DEVIATIONS with variant None.

Extra attributes on Kind beyond the agreed interface (all optional for users):
  variants       tuple of variant names accepted by make_node
  solicited_by   for "in" iq result/error kinds: name of the "out" kind whose
                 request must have been sent (and registered) first.  For such
                 kinds reaches_top describes the SOLICITED case; injected
                 unsolicited they give nothing at the top and nothing down.
                 make_node(rng, request=entity) copies id/jids from the request.
  app_ack        for "in" message/receipt kinds: fn(node, read=False) -> the
                 stanza that entity.ack(...) is expected to serialise to (sent by
                 the application, not by the layers)
  reaction_layer class name of the (always present, basic) layer that sends the
                 reaction; reactions do not depend on optional modules
  forced         names of entity fields that make_entity has to set AFTER the
                 public constructor because the constructor offers no parameter
                 and takes the value from a process-global counter / the clock
                 (e.g. "_id"); without that the expected node is unpredictable
  raises         name of the exception the layer is known to raise for the kind
  notes          free text

The module imports without touching files or the network.  Run with
PYTHONPATH=/verif/.deps:/repo.
"""
from __future__ import print_function

import importlib
import random

from yowsup.structs.protocoltreenode import ProtocolTreeNode

DOMAIN = "s.whatsapp.net"
GROUP_DOMAIN = "g.us"

_PE = "yowsup.layers.%s.protocolentities.%s"


def _p(layer_pkg, mod, cls):
    return (_PE % (layer_pkg, mod)) + "." + cls


def load_class(dotted):
    """Import and return the class named by a dotted path."""
    modname, _, clsname = dotted.rpartition(".")
    return getattr(importlib.import_module(modname), clsname)


def N(tag, attrs=None, children=None, data=None):
    """Hand-built node; attrs with value None are a programming error here."""
    attrs = dict(attrs or {})
    for k, v in attrs.items():
        assert type(k) is str and type(v) is str, (tag, k, v)
    assert data is None or type(data) is bytes, (tag, data)
    return ProtocolTreeNode(tag, attrs, list(children or []), data)


# --------------------------------------------------------------------------- #
# value generators (seeded only through the rng argument)
# --------------------------------------------------------------------------- #

_ASCII = "abcdefghijklmnopqrstuvwxyzABCDEFGHIJKLMNOPQRSTUVWXYZ0123456789 .,;:!?-_/()'&+*#@=%"
_LATIN1_HI = u"".join(chr(c) for c in range(0xA1, 0x100) if c != 0xAD)
_WIDE = u"ΔΩЖאم中文日本語€☃\U0001F600\U0001F44Déüß"


def gen_id(rng):
    """'1632400000-7'-like stanza id."""
    return "%d-%d" % (rng.randint(1400000000, 1700000000), rng.randint(1, 999))


def gen_short_id(rng):
    return str(rng.randint(1, 99999))


def gen_ts(rng):
    return str(rng.randint(1300000000, 1700000000))


def gen_phone(rng):
    return "49157" + "".join(rng.choice("0123456789") for _ in range(8))


def gen_jid(rng):
    return gen_phone(rng) + "@" + DOMAIN


def gen_gjid(rng):
    return "%s-%d@%s" % (gen_phone(rng), rng.randint(1300000000, 1700000000), GROUP_DOMAIN)


def gen_jids(rng, lo=0, hi=4):
    """lo..hi DISTINCT user jids."""
    out = []
    for _ in range(rng.randint(lo, hi)):
        j = gen_jid(rng)
        if j not in out:
            out.append(j)
    while len(out) < lo:
        j = gen_jid(rng)
        if j not in out:
            out.append(j)
    return out


def gen_flag(rng):
    return rng.choice(("0", "1"))


def bint(rng, lo, hi):
    """Integer draw biased towards the boundaries (lo, lo+1, hi), where conversions tend to break."""
    c = rng.random()
    if c < 0.2:
        return lo
    if c < 0.3:
        return min(lo + 1, hi)
    if c < 0.4:
        return hi
    return rng.randint(lo, hi)


def gen_count(rng, hi=500):
    return str(bint(rng, 0, hi))


def gen_attr_text(rng, lo=1, hi=24):
    """Free text for ATTRIBUTE values: non-empty, Latin-1 range only (wire codec is Latin-1)."""
    n = rng.randint(lo, hi)
    pool = _ASCII if rng.random() < 0.5 else _ASCII + _LATIN1_HI
    s = u"".join(rng.choice(pool) for _ in range(n))
    if rng.random() < 0.1:
        s = u"@" + s              # a name like "@home": text, not a JID (an '@' in first position)
    return str(s)


def gen_ascii(rng, lo=1, hi=16):
    return "".join(rng.choice(_ASCII[:62]) for _ in range(rng.randint(lo, hi)))


def gen_text(rng, lo=1, hi=40):
    """Free unicode text for protobuf string fields (not limited to Latin-1), non-empty."""
    n = rng.randint(lo, hi)
    r = rng.random()
    pool = _ASCII if r < 0.4 else (_ASCII + _LATIN1_HI if r < 0.7 else _ASCII + _LATIN1_HI + _WIDE)
    return u"".join(rng.choice(pool) for _ in range(n))


def gen_bytes(rng, lo=1, hi=48):
    return bytes(bytearray(rng.randint(0, 255) for _ in range(rng.randint(lo, hi))))


def gen_url(rng):
    return "https://mmg.whatsapp.net/d/f/%s.enc" % gen_ascii(rng, 8, 24)


def maybe(rng, p=0.5):
    return rng.random() < p


# --------------------------------------------------------------------------- #
# Kind
# --------------------------------------------------------------------------- #

class Kind(object):
    def __init__(self, name, direction, layer, entity_class, tag, module=None,
                 build=None, draw=None, node_of=None, entity_of=None,
                 reaction=None, reaches_top=None, iq_reply=None, variants=(),
                 solicited_by=None, app_ack=None, reaction_layer=None, forced=(),
                 raises=None, notes=None, routing_variants=()):
        assert direction in ("in", "out")
        assert module in (None, "groups", "media", "privacy", "profiles")
        self.name = name
        self.direction = direction
        self.module = module
        self.layer = layer
        self.entity_class = entity_class
        self.tag = tag
        self._build = build            # in:  fn(rng, variant, request) -> node
        self._draw = draw              # out: fn(rng) -> dict of drawn values
        self._node_of = node_of        # out: fn(values) -> expected node
        self._entity_of = entity_of    # out: fn(values) -> entity
        self.reaction = reaction
        if direction == "in":
            self.reaches_top = bool(entity_class) if reaches_top is None else reaches_top
        else:
            self.reaches_top = None
        self.iq_reply = iq_reply
        self.variants = tuple(variants)
        # shapes that no class documents (C09 does not demand a lossless conversion of them) but that a peer may send: routing only
        self.routing_variants = tuple(routing_variants)
        self.solicited_by = solicited_by
        self.app_ack = app_ack
        self.reaction_layer = reaction_layer
        self.forced = tuple(forced)
        self.raises = raises
        self.notes = notes
        if direction == "out":
            self.make_entity = self._make_entity
        else:
            self.make_entity = None

    def make_node(self, rng, variant=None, request=None):
        if variant is not None and variant not in self.variants and variant not in self.routing_variants:
            raise ValueError("kind %s has no variant %r" % (self.name, variant))
        if self.direction == "in":
            return self._build(rng, variant, request)
        return self._node_of(self._draw(rng))

    def _make_entity(self, rng):
        return self._entity_of(self._draw(rng))

    def __repr__(self):
        return "<Kind %s>" % self.name


KINDS = []


def _add(kind):
    assert all(k.name != kind.name for k in KINDS), kind.name
    KINDS.append(kind)
    return kind


def _in(name, layer, entity_class, tag, build, **kw):
    return _add(Kind(name, "in", layer, entity_class, tag, build=build, **kw))


def _out(name, layer, entity_class, tag, draw, node_of, entity_of, **kw):
    return _add(Kind(name, "out", layer, entity_class, tag, draw=draw, node_of=node_of,
                     entity_of=entity_of, **kw))


# --------------------------------------------------------------------------- #
# strict comparison
# --------------------------------------------------------------------------- #

def check_wellformed(node, path=""):
    """All attribute values str, data bytes/None, children list of nodes. Returns list of problems."""
    out = []
    here = "%s/%s" % (path, getattr(node, "tag", "?"))
    if node.__class__ is not ProtocolTreeNode:
        return ["%s: not a ProtocolTreeNode but %s" % (here, type(node).__name__)]
    if type(node.tag) is not str:
        out.append("%s: tag is %s" % (here, type(node.tag).__name__))
    for k, v in node.attributes.items():
        if type(k) is not str or type(v) is not str:
            out.append("%s: attribute %r=%r is not str" % (here, k, v))
    if node.data is not None and type(node.data) is not bytes:
        out.append("%s: data is %s" % (here, type(node.data).__name__))
    for c in node.children:
        out.extend(check_wellformed(c, here))
    return out


def node_diff(got, want, path=""):
    """Strict ordered recursive comparison.

    Returns (diffs, type_notes): diffs are real differences; type_notes are attribute values
    that are equal by value but not str (e.g. 5 vs "5"), which are tolerated."""
    diffs, notes = [], []
    here = "%s/%s" % (path, getattr(want, "tag", "?"))
    if got.__class__ is not ProtocolTreeNode:
        return ["%s: got %s instead of a node" % (here, type(got).__name__)], notes
    if got.tag != want.tag:
        diffs.append("%s: tag %r != %r" % (here, got.tag, want.tag))
    ga, wa = got.attributes, want.attributes
    for k in sorted(set(list(ga.keys()) + list(wa.keys())), key=str):
        if k not in ga:
            diffs.append("%s: attribute %s=%r lost" % (here, k, wa[k]))
        elif k not in wa:
            diffs.append("%s: attribute %s=%r added" % (here, k, ga[k]))
        elif ga[k] != wa[k] or type(ga[k]) is not type(wa[k]):
            if type(ga[k]) in (int, float) and not isinstance(ga[k], bool) and str(ga[k]) == wa[k]:
                notes.append("%s: attribute %s is %s %r, not str" % (here, k, type(ga[k]).__name__, ga[k]))
            else:
                diffs.append("%s: attribute %s %r != %r" % (here, k, ga[k], wa[k]))
    if got.data != want.data:
        diffs.append("%s: data %r != %r" % (here, got.data, want.data))
    if len(got.children) != len(want.children):
        diffs.append("%s: %d children %s != %d children %s" % (
            here, len(got.children), [getattr(c, "tag", c) for c in got.children],
            len(want.children), [c.tag for c in want.children]))
    else:
        for g, w in zip(got.children, want.children):
            d, n = node_diff(g, w, here)
            diffs.extend(d)
            notes.extend(n)
    return diffs, notes


# --------------------------------------------------------------------------- #
# protobuf payloads (built with the generated classes only, random field values)
# --------------------------------------------------------------------------- #

def _pb():
    from yowsup.layers.protocol_messages.proto import e2e_pb2
    return e2e_pb2


def draw_context_info(rng):
    """Values of a ContextInfo (quoted reply / mentions)."""
    v = {"stanza_id": gen_id(rng), "participant": gen_jid(rng)}
    if maybe(rng):
        v["quoted_conversation"] = gen_text(rng)
    if maybe(rng, 0.3):
        v["remote_jid"] = gen_gjid(rng)
    v["mentioned_jid"] = gen_jids(rng, 0, 3)
    return v


def pb_context_info(v):
    c = _pb().ContextInfo()
    c.stanza_id = v["stanza_id"]
    c.participant = v["participant"]
    if "quoted_conversation" in v:
        c.quoted_message.conversation = v["quoted_conversation"]
    if "remote_jid" in v:
        c.remote_jid = v["remote_jid"]
    for j in v["mentioned_jid"]:
        c.mentioned_jid.append(j)
    return c


def draw_downloadable(rng, mimetypes):
    return {"url": gen_url(rng), "mimetype": rng.choice(mimetypes), "file_sha256": gen_bytes(rng, 32, 32),
            "file_length": rng.randint(1, 50000000), "media_key": gen_bytes(rng, 32, 32)}


def _pb_downloadable(m, v):
    m.url = v["url"]
    m.mimetype = v["mimetype"]
    m.file_sha256 = v["file_sha256"]
    m.file_length = v["file_length"]
    m.media_key = v["media_key"]


def _opt(rng, v, key, value, p=0.6):
    if maybe(rng, p):
        v[key] = value


def draw_image(rng, variant=None):
    v = draw_downloadable(rng, ("image/jpeg", "image/png"))
    v["width"] = rng.randint(1, 4000)
    v["height"] = rng.randint(1, 4000)
    _opt(rng, v, "caption", gen_text(rng))
    _opt(rng, v, "jpeg_thumbnail", gen_bytes(rng, 1, 200))
    if maybe(rng, 0.25):
        v["context_info"] = draw_context_info(rng)
    return v


def pb_image(v):
    m = _pb().Message()
    _pb_downloadable(m.image_message, v)
    m.image_message.width = v["width"]
    m.image_message.height = v["height"]
    if "caption" in v:
        m.image_message.caption = v["caption"]
    if "jpeg_thumbnail" in v:
        m.image_message.jpeg_thumbnail = v["jpeg_thumbnail"]
    if "context_info" in v:
        m.image_message.context_info.MergeFrom(pb_context_info(v["context_info"]))
    return m


def draw_audio(rng, ptt):
    v = draw_downloadable(rng, ("audio/ogg; codecs=opus", "audio/mpeg", "audio/aac"))
    v["seconds"] = rng.randint(0, 3600)
    v["ptt"] = ptt
    return v


def pb_audio(v):
    m = _pb().Message()
    _pb_downloadable(m.audio_message, v)
    m.audio_message.seconds = v["seconds"]
    m.audio_message.ptt = v["ptt"]
    return m


def draw_video(rng, gif, full=True):
    """full=True: every field the entity copies is present (needed for the incoming round trip,
    VideoAttributes reads absent proto2 fields as their defaults and writes them back explicitly)."""
    v = draw_downloadable(rng, ("video/mp4", "video/3gpp"))
    v["width"] = rng.randint(1, 4000)
    v["height"] = rng.randint(1, 4000)
    v["seconds"] = rng.randint(0, 3600)
    p = 1.0 if full else 0.5
    _opt(rng, v, "gif_playback", gif, p)
    _opt(rng, v, "jpeg_thumbnail", gen_bytes(rng, 1, 200), p)
    _opt(rng, v, "gif_attribution", rng.choice((0, 1, 2)), p)
    _opt(rng, v, "caption", gen_text(rng), p)
    _opt(rng, v, "streaming_sidecar", gen_bytes(rng, 1, 64), p)
    return v


def pb_video(v):
    m = _pb().Message()
    _pb_downloadable(m.video_message, v)
    m.video_message.width = v["width"]
    m.video_message.height = v["height"]
    m.video_message.seconds = v["seconds"]
    for k in ("gif_playback", "jpeg_thumbnail", "gif_attribution", "caption", "streaming_sidecar"):
        if k in v:
            setattr(m.video_message, k, v[k])
    return m


def draw_document(rng):
    v = draw_downloadable(rng, ("application/pdf", "application/zip", "text/plain"))
    v["file_name"] = gen_text(rng, 1, 20) + ".pdf"
    _opt(rng, v, "title", gen_text(rng))
    _opt(rng, v, "page_count", rng.randint(1, 900))
    _opt(rng, v, "jpeg_thumbnail", gen_bytes(rng, 1, 200))
    return v


def pb_document(v):
    m = _pb().Message()
    _pb_downloadable(m.document_message, v)
    m.document_message.file_name = v["file_name"]
    for k in ("title", "page_count", "jpeg_thumbnail"):
        if k in v:
            setattr(m.document_message, k, v[k])
    return m


def draw_sticker(rng, full=True):
    v = draw_downloadable(rng, ("image/webp",))
    v["width"] = rng.randint(1, 512)
    v["height"] = rng.randint(1, 512)
    _opt(rng, v, "png_thumbnail", gen_bytes(rng, 1, 200), 1.0 if full else 0.5)
    return v


def pb_sticker(v):
    m = _pb().Message()
    _pb_downloadable(m.sticker_message, v)
    m.sticker_message.width = v["width"]
    m.sticker_message.height = v["height"]
    if "png_thumbnail" in v:
        m.sticker_message.png_thumbnail = v["png_thumbnail"]
    return m


def draw_location(rng):
    v = {"degrees_latitude": rng.uniform(-90, 90), "degrees_longitude": rng.uniform(-180, 180)}
    _opt(rng, v, "name", gen_text(rng))
    _opt(rng, v, "address", gen_text(rng))
    _opt(rng, v, "url", "https://maps.example/" + gen_ascii(rng))
    _opt(rng, v, "duration", float(rng.randint(0, 3600)), 0.3)
    _opt(rng, v, "accuracy_in_meters", rng.randint(0, 500), 0.3)
    _opt(rng, v, "speed_in_mps", float(rng.randint(0, 60)), 0.3)
    _opt(rng, v, "degrees_clockwise_from_magnetic_north", rng.randint(0, 359), 0.3)
    _opt(rng, v, "jpeg_thumbnail", gen_bytes(rng, 1, 200))
    return v


def pb_location(v):
    m = _pb().Message()
    for k, val in v.items():
        setattr(m.location_message, k, val)
    return m


def draw_contact(rng):
    name = gen_text(rng, 1, 20)
    v = {"display_name": name,
         "vcard": (u"BEGIN:VCARD\nVERSION:3.0\nFN:%s\nTEL;type=CELL:+%s\nEND:VCARD" % (name, gen_phone(rng))).encode("utf-8")}
    if maybe(rng, 0.25):
        v["context_info"] = draw_context_info(rng)
    return v


def pb_contact(v):
    m = _pb().Message()
    m.contact_message.display_name = v["display_name"]
    m.contact_message.vcard = v["vcard"]
    if "context_info" in v:
        m.contact_message.context_info.MergeFrom(pb_context_info(v["context_info"]))
    return m


def draw_extended_text(rng):
    url = "https://example.org/" + gen_ascii(rng)
    v = {"text": gen_text(rng) + " " + url}
    _opt(rng, v, "matched_text", url, 0.7)
    _opt(rng, v, "canonical_url", url, 0.7)
    _opt(rng, v, "description", gen_text(rng), 0.7)
    _opt(rng, v, "title", gen_text(rng), 0.7)
    _opt(rng, v, "jpeg_thumbnail", gen_bytes(rng, 1, 200))
    if maybe(rng, 0.3):
        v["context_info"] = draw_context_info(rng)
    return v


def pb_extended_text(v):
    m = _pb().Message()
    e = m.extended_text_message
    for k in ("text", "matched_text", "canonical_url", "description", "title", "jpeg_thumbnail"):
        if k in v:
            setattr(e, k, v[k])
    if "context_info" in v:
        e.context_info.MergeFrom(pb_context_info(v["context_info"]))
    return m


def pb_conversation(text):
    m = _pb().Message()
    m.conversation = text
    return m


# --------------------------------------------------------------------------- #
# expected reactions / application acks (hand-built)
# --------------------------------------------------------------------------- #

def _with_participant(attrs, node):
    if node["participant"]:
        attrs["participant"] = node["participant"]
    return attrs


def react_notification_ack(node):
    """<ack id= class="notification" type= to=from [participant=]/> sent by YowNotificationsProtocolLayer."""
    return [N("ack", _with_participant(
        {"id": node["id"], "class": "notification", "type": node["type"], "to": node["from"]}, node))]


def react_call_offer_receipt(node):
    offer = node.getChild("offer")
    return [N("receipt", {"id": node["id"], "to": node["from"]},
              [N("offer", {"call-id": offer["call-id"]})])]


def react_call_ack(node):
    return [N("ack", {"id": node["id"], "class": "call", "to": node["from"]})]


def react_pong(node):
    return [N("iq", {"id": node["id"], "type": "result", "xmlns": "w:p", "to": DOMAIN})]


def react_delivery_receipt(node):
    """Receipt the messages layer sends by itself for message payloads it does not support."""
    return [N("receipt", _with_participant({"id": node["id"], "to": node["from"]}, node))]


def react_read_receipt(node):
    """Receipt (type=read) the media layer sends by itself for unsupported media types."""
    return [N("receipt", _with_participant({"id": node["id"], "to": node["from"], "type": "read"}, node))]


def app_ack_message(node, read=False):
    """What MessageProtocolEntity.ack(read) must serialise to."""
    attrs = {"id": node["id"], "to": node["from"]}
    if read:
        attrs["type"] = "read"
    return N("receipt", _with_participant(attrs, node))


def app_ack_receipt(node, read=False):
    """What IncomingReceiptProtocolEntity.ack() must serialise to."""
    attrs = {"id": node["id"], "class": "receipt", "to": node["from"]}
    if node["type"]:
        attrs["type"] = node["type"]
    return N("ack", _with_participant(attrs, node))


# --------------------------------------------------------------------------- #
# incoming: messages
# --------------------------------------------------------------------------- #

L_MSG = "YowMessagesProtocolLayer"
L_MEDIA = "YowMediaProtocolLayer"
MSG_VARIANTS = ("no_offline", "group", "direct")


def _in_message_attrs(rng, mtype, variant):
    """<message t= from= offline= type= id= notify= [participant=] [retry=]>"""
    attrs = {"type": mtype, "id": gen_id(rng), "t": gen_ts(rng), "offline": gen_flag(rng)}
    group = variant == "group" or (variant != "direct" and maybe(rng, 0.3))
    if group:
        attrs["from"] = gen_gjid(rng)
        attrs["participant"] = gen_jid(rng)
    else:
        attrs["from"] = gen_jid(rng)
    if maybe(rng, 0.8):
        attrs["notify"] = gen_attr_text(rng)
    if maybe(rng, 0.15):
        attrs["retry"] = str(rng.randint(1, 5))
    if variant == "no_offline":
        del attrs["offline"]
    return attrs


def _in_text_message(pb_of):
    def build(rng, variant, request):
        attrs = _in_message_attrs(rng, "text", variant)
        return N("message", attrs, [N("proto", {}, None, pb_of(rng).SerializeToString())])
    return build


def _in_media_message(mediatype, pb_of):
    def build(rng, variant, request):
        attrs = _in_message_attrs(rng, "media", variant)
        return N("message", attrs, [N("proto", {"mediatype": mediatype}, None, pb_of(rng, variant).SerializeToString())])
    return build


_in("in.message.text", L_MSG, _p("protocol_messages", "message_text", "TextMessageProtocolEntity"), "message",
    _in_text_message(lambda rng: pb_conversation(gen_text(rng, 1, 200))),
    variants=MSG_VARIANTS, app_ack=app_ack_message)

_in("in.message.extendedtext", L_MSG,
    _p("protocol_messages", "message_extendedtext", "ExtendedTextMessageProtocolEntity"), "message",
    _in_text_message(lambda rng: pb_extended_text(draw_extended_text(rng))),
    variants=MSG_VARIANTS, app_ack=app_ack_message,
    notes="type=text, <proto> without mediatype carrying extended_text_message")


def _pb_unsupported(rng):
    m = _pb().Message()
    m.call.call_key = gen_bytes(rng, 32, 32)
    return m


_in("in.message.text.unsupported", L_MSG, None, "message", _in_text_message(_pb_unsupported),
    variants=MSG_VARIANTS, reaction=react_delivery_receipt, reaction_layer=L_MSG,
    notes="payload type the messages layer has no entity for (call): consumed, layer sends a delivery receipt itself")


def _pb_skdm_only(rng):
    m = _pb().Message()
    m.sender_key_distribution_message.group_id = gen_gjid(rng)
    m.sender_key_distribution_message.axolotl_sender_key_distribution_message = gen_bytes(rng, 40, 80)
    return m


_in("in.message.text.skdm_only", L_MSG, None, "message", _in_text_message(_pb_skdm_only),
    variants=MSG_VARIANTS,
    notes="decrypted payload carrying only a sender key distribution message: silently consumed")


_MEDIA_PE = "protocol_media"
_IMG = _p(_MEDIA_PE, "message_media_downloadable_image", "ImageDownloadableMediaMessageProtocolEntity")
_AUD = _p(_MEDIA_PE, "message_media_downloadable_audio", "AudioDownloadableMediaMessageProtocolEntity")
_VID = _p(_MEDIA_PE, "message_media_downloadable_video", "VideoDownloadableMediaMessageProtocolEntity")
_DOC = _p(_MEDIA_PE, "message_media_downloadable_document", "DocumentDownloadableMediaMessageProtocolEntity")
_STK = _p(_MEDIA_PE, "message_media_downloadable_sticker", "StickerDownloadableMediaMessageProtocolEntity")
_LOC = _p(_MEDIA_PE, "message_media_location", "LocationMediaMessageProtocolEntity")
_CON = _p(_MEDIA_PE, "message_media_contact", "ContactMediaMessageProtocolEntity")
_URL = _p(_MEDIA_PE, "message_media_extendedtext", "ExtendedTextMediaMessageProtocolEntity")


def _media(name, cls, mediatype, pb_of, extra_variants=(), **kw):
    return _in(name, L_MEDIA, cls, "message", _in_media_message(mediatype, pb_of), module="media",
               variants=MSG_VARIANTS + tuple(extra_variants), app_ack=app_ack_message, **kw)


_media("in.message.media.image", _IMG, "image", lambda rng, v: pb_image(draw_image(rng)))
_media("in.message.media.audio", _AUD, "audio", lambda rng, v: pb_audio(draw_audio(rng, False)))
_media("in.message.media.ptt", _AUD, "ptt", lambda rng, v: pb_audio(draw_audio(rng, True)))


def _pb_video_in(gif):
    def f(rng, variant):
        return pb_video(draw_video(rng, gif, full=(variant != "optional_fields_absent")))
    return f


_media("in.message.media.video", _VID, "video", _pb_video_in(False), ("optional_fields_absent",))
_media("in.message.media.gif", _VID, "gif", _pb_video_in(True), ("optional_fields_absent",))
_media("in.message.media.document", _DOC, "document", lambda rng, v: pb_document(draw_document(rng)))
_media("in.message.media.sticker", _STK, "sticker",
       lambda rng, v: pb_sticker(draw_sticker(rng, full=(v != "optional_fields_absent"))),
       ("optional_fields_absent",))


def _pb_location_in(rng, variant):
    v = draw_location(rng)
    if variant == "with_skdm":
        v["axolotl_sender_key_distribution_message"] = gen_bytes(rng, 40, 80)
    return pb_location(v)


_media("in.message.media.location", _LOC, "location", _pb_location_in, ("with_skdm",))
_media("in.message.media.contact", _CON, "contact", lambda rng, v: pb_contact(draw_contact(rng)))
_media("in.message.media.url", _URL, "url", lambda rng, v: pb_extended_text(draw_extended_text(rng)))

_in("in.message.media.unknown", L_MEDIA, None, "message",
    _in_media_message("livelocation", lambda rng, v: pb_location(draw_location(rng))), module="media",
    variants=MSG_VARIANTS, reaction=react_read_receipt, reaction_layer=L_MEDIA,
    notes="mediatype without entity class: consumed, media layer sends a read receipt itself "
          "(so here the reaction DOES depend on the optional media module)")


def _pb_contacts_array(rng, v):
    m = _pb().Message()
    m.contacts_array_message.display_name = gen_text(rng, 1, 20)
    c = m.contacts_array_message.contacts.add()
    c.display_name = gen_text(rng, 1, 12)
    c.vcard = b"BEGIN:VCARD\nVERSION:3.0\nFN:x\nEND:VCARD"
    return m


_in("in.message.media.unknown_payload", L_MEDIA, None, "message",
    _in_media_message("contact_array", _pb_contacts_array), module="media",
    variants=MSG_VARIANTS, reaction=react_read_receipt, reaction_layer=L_MEDIA,
    notes="mediatype without entity class whose payload is none of the payloads the library knows either: consumed, the media layer "
          "sends a read receipt itself")


# --------------------------------------------------------------------------- #
# incoming: receipts, acks, presence, chatstate
# --------------------------------------------------------------------------- #

L_RCPT = "YowReceiptProtocolLayer"
_RCPT_IN = _p("protocol_receipts", "receipt_incoming", "IncomingReceiptProtocolEntity")


def _in_receipt(rtype, group=False, items=False):
    def build(rng, variant, request):
        attrs = {"id": gen_id(rng), "t": gen_ts(rng)}
        if group:
            attrs["from"] = gen_gjid(rng)
            attrs["participant"] = gen_jid(rng)
        else:
            attrs["from"] = gen_jid(rng)
        if rtype:
            attrs["type"] = rtype
        if maybe(rng, 0.6):
            attrs["offline"] = gen_flag(rng)
        children = []
        if items:
            children.append(N("list", {}, [N("item", {"id": gen_id(rng)}) for _ in range(rng.randint(0, 5))]))
        return N("receipt", attrs, children)
    return build


for _n, _t, _g, _i in (("delivery", None, False, False), ("read", "read", False, False),
                       ("played", "played", False, False), ("delivery.participant", None, True, False),
                       ("read.participant", "read", True, False), ("read.list", "read", False, True),
                       ("read.list.participant", "read", True, True)):
    _in("in.receipt." + _n, L_RCPT, _RCPT_IN, "receipt", _in_receipt(_t, _g, _i), app_ack=app_ack_receipt)

L_ACK = "YowAckProtocolLayer"
_ACK_IN = _p("protocol_acks", "ack_incoming", "IncomingAckProtocolEntity")


def _in_ack(cls_):
    def build(rng, variant, request):
        attrs = {"id": gen_id(rng), "class": cls_, "from": gen_jid(rng), "t": gen_ts(rng)}
        if variant == "no_t":
            del attrs["t"]
        return N("ack", attrs)
    return build


for _c in ("message", "receipt", "notification"):
    _in("in.ack." + _c, L_ACK, _ACK_IN, "ack", _in_ack(_c), variants=("no_t",))

L_PRES = "YowPresenceProtocolLayer"
_PRES = _p("protocol_presence", "presence", "PresenceProtocolEntity")


def _in_presence_available(rng, variant, request):
    return N("presence", {"from": gen_jid(rng)})


def _in_presence_unavailable(rng, variant, request):
    attrs = {"type": "unavailable", "from": gen_jid(rng)}
    if maybe(rng, 0.7):
        attrs["last"] = rng.choice(("deny", gen_ts(rng)))
    return N("presence", attrs)


_in("in.presence.available", L_PRES, _PRES, "presence", _in_presence_available)
_in("in.presence.unavailable", L_PRES, _PRES, "presence", _in_presence_unavailable)

L_CHAT = "YowChatstateProtocolLayer"
_CHAT_IN = _p("protocol_chatstate", "chatstate_incoming", "IncomingChatstateProtocolEntity")


def _in_chatstate(state):
    def build(rng, variant, request):
        return N("chatstate", {"from": gen_jid(rng)}, [N(state)])
    return build


_in("in.chatstate.composing", L_CHAT, _CHAT_IN, "chatstate", _in_chatstate("composing"))
_in("in.chatstate.paused", L_CHAT, _CHAT_IN, "chatstate", _in_chatstate("paused"))


# --------------------------------------------------------------------------- #
# incoming: notifications
# --------------------------------------------------------------------------- #

L_NOTIF = "YowNotificationsProtocolLayer"
L_CONTACTS = "YowContactsIqProtocolLayer"
L_GROUPS = "YowGroupsProtocolLayer"
NOTIF_VARIANTS = ("no_offline", "no_notify", "with_participant")
GP2_VARIANTS = ("no_offline", "no_notify")


def _notif_attrs(rng, ntype, variant, from_jid=None, gp2=False):
    """<notification offline= id= notify= type= t= from= [participant=]>"""
    attrs = {"id": gen_short_id(rng) if maybe(rng) else gen_id(rng), "type": ntype, "t": gen_ts(rng),
             "from": from_jid or gen_jid(rng), "offline": gen_flag(rng), "notify": gen_attr_text(rng)}
    if gp2 or variant == "with_participant":
        attrs["participant"] = gen_jid(rng)
    if variant == "no_offline":
        del attrs["offline"]
    if variant == "no_notify":
        del attrs["notify"]
    return attrs


def _in_notif_picture_set(rng, variant, request):
    jid = gen_gjid(rng) if maybe(rng, 0.3) else gen_jid(rng)
    return N("notification", _notif_attrs(rng, "picture", variant, jid),
             [N("set", {"jid": jid, "id": gen_ts(rng)})])


def _in_notif_picture_delete(rng, variant, request):
    jid = gen_gjid(rng) if maybe(rng, 0.3) else gen_jid(rng)
    return N("notification", _notif_attrs(rng, "picture", variant, jid), [N("delete", {"jid": jid})])


def _in_notif_picture_other(rng, variant, request):
    jid = gen_jid(rng)
    return N("notification", _notif_attrs(rng, "picture", variant, jid), [N("request", {"jid": jid})])


def _in_notif_status(rng, variant, request):
    return N("notification", _notif_attrs(rng, "status", variant), [N("set", {}, None, gen_bytes(rng, 1, 139))])


_NPE = "protocol_notifications"
_in("in.notification.picture.set", L_NOTIF, _p(_NPE, "notification_picture_set", "SetPictureNotificationProtocolEntity"),
    "notification", _in_notif_picture_set, variants=NOTIF_VARIANTS,
    reaction=react_notification_ack, reaction_layer=L_NOTIF)
_in("in.notification.picture.delete", L_NOTIF,
    _p(_NPE, "notification_picture_delete", "DeletePictureNotificationProtocolEntity"),
    "notification", _in_notif_picture_delete, variants=NOTIF_VARIANTS,
    reaction=react_notification_ack, reaction_layer=L_NOTIF)
_in("in.notification.picture.other", L_NOTIF, None, "notification", _in_notif_picture_other, variants=NOTIF_VARIANTS,
    reaction=react_notification_ack, reaction_layer=L_NOTIF, raises="ValueError",
    notes="picture notification with neither <set> nor <delete>; every notification has to be acked, "
          "but the layer raises ValueError (raiseErrorForNode) before it reaches the ack")
_in("in.notification.status", L_NOTIF, _p(_NPE, "notification_status", "StatusNotificationProtocolEntity"),
    "notification", _in_notif_status, variants=NOTIF_VARIANTS,
    reaction=react_notification_ack, reaction_layer=L_NOTIF)


def _in_notif_contact(child):
    def build(rng, variant, request):
        return N("notification", _notif_attrs(rng, "contacts", variant), [N(child, {"jid": gen_jid(rng)})])
    return build


def _in_notif_contacts_sync(rng, variant, request):
    return N("notification", _notif_attrs(rng, "contacts", variant), [N("sync", {"after": gen_ts(rng)})])


_CPE = "protocol_contacts"
for _c, _m, _cls in (("add", "notification_contact_add", "AddContactNotificationProtocolEntity"),
                     ("remove", "notification_contact_remove", "RemoveContactNotificationProtocolEntity"),
                     ("update", "notification_contact_update", "UpdateContactNotificationProtocolEntity")):
    _in("in.notification.contacts." + _c, L_CONTACTS, _p(_CPE, _m, _cls), "notification", _in_notif_contact(_c),
        variants=NOTIF_VARIANTS, reaction=react_notification_ack, reaction_layer=L_NOTIF)
_in("in.notification.contacts.sync", L_CONTACTS,
    _p(_CPE, "notificiation_contacts_sync", "ContactsSyncNotificationProtocolEntity"), "notification",
    _in_notif_contacts_sync, variants=NOTIF_VARIANTS, reaction=react_notification_ack, reaction_layer=L_NOTIF,
    notes="the class docstring documents this notification WITHOUT notify: that is variant no_notify")


def _group_children(rng, types):
    """<participant jid= [type=]/> list with distinct jids."""
    out = []
    for j in gen_jids(rng, 1, 5):
        a = {"jid": j}
        t = rng.choice(types)
        if t:
            a["type"] = t
        out.append(N("participant", a))
    return out


def _in_notif_gp2_create(rng, variant, request):
    gjid = gen_gjid(rng)
    creator = gen_jid(rng)
    group = N("group", {"id": gjid.split("@")[0], "creator": creator, "creation": gen_ts(rng),
                        "subject": gen_attr_text(rng), "s_t": gen_ts(rng), "s_o": creator},
              _group_children(rng, (None, None, "admin", "superadmin")))
    create = N("create", {"type": "new", "key": "%s-%s@temp" % (creator.split("@")[0], gen_ascii(rng, 8, 8))}, [group])
    return N("notification", _notif_attrs(rng, "w:gp2", variant, gjid, gp2=True), [create])


def _in_notif_gp2_add(rng, variant, request):
    return N("notification", _notif_attrs(rng, "w:gp2", variant, gen_gjid(rng), gp2=True),
             [N("add", {}, [N("participant", {"jid": j}) for j in gen_jids(rng, 0, 4)])])


def _in_notif_gp2_remove(rng, variant, request):
    return N("notification", _notif_attrs(rng, "w:gp2", variant, gen_gjid(rng), gp2=True),
             [N("remove", {"subject": gen_attr_text(rng)}, [N("participant", {"jid": j}) for j in gen_jids(rng, 0, 4)])])


def _in_notif_gp2_subject(rng, variant, request):
    return N("notification", _notif_attrs(rng, "w:gp2", variant, gen_gjid(rng), gp2=True),
             [N("subject", {"s_t": gen_ts(rng), "s_o": gen_jid(rng), "subject": gen_attr_text(rng)})])


_GPE = "protocol_groups"
for _c, _b, _m, _cls in (
        ("create", _in_notif_gp2_create, "notification_groups_create", "CreateGroupsNotificationProtocolEntity"),
        ("add", _in_notif_gp2_add, "notification_groups_add", "AddGroupsNotificationProtocolEntity"),
        ("remove", _in_notif_gp2_remove, "notification_groups_remove", "RemoveGroupsNotificationProtocolEntity"),
        ("subject", _in_notif_gp2_subject, "notification_groups_subject", "SubjectGroupsNotificationProtocolEntity")):
    _in("in.notification.w:gp2." + _c, L_GROUPS, _p(_GPE, _m, _cls), "notification", _b, module="groups",
        variants=GP2_VARIANTS, reaction=react_notification_ack, reaction_layer=L_NOTIF,
        notes="ack comes from the basic notifications layer, also when the groups module is absent")


def _in_notif_unknown(ntype, child):
    def build(rng, variant, request):
        return N("notification", _notif_attrs(rng, ntype, variant), [N(child, {"value": gen_ascii(rng)})])
    return build


_in("in.notification.unknown.server_sync", L_NOTIF, None, "notification", _in_notif_unknown("server_sync", "collection"),
    variants=NOTIF_VARIANTS, reaction=react_notification_ack, reaction_layer=L_NOTIF)
_in("in.notification.unknown.web", L_NOTIF, None, "notification", _in_notif_unknown("web", "action"),
    variants=NOTIF_VARIANTS, reaction=react_notification_ack, reaction_layer=L_NOTIF)
_in("in.notification.unknown.subject", L_NOTIF, None, "notification", _in_notif_unknown("subject", "body"),
    variants=NOTIF_VARIANTS, reaction=react_notification_ack, reaction_layer=L_NOTIF,
    notes="type the notifications layer delegates to 'the groups layer', which does not claim it")


# --------------------------------------------------------------------------- #
# incoming: calls
# --------------------------------------------------------------------------- #

L_CALL = "YowCallsProtocolLayer"
_CALL = _p("protocol_calls", "call", "CallProtocolEntity")


def _in_call(child):
    def build(rng, variant, request):
        attrs = {"id": gen_id(rng), "from": gen_jid(rng), "t": gen_ts(rng), "offline": gen_flag(rng),
                 "notify": gen_attr_text(rng)}
        if maybe(rng, 0.4):
            attrs["retry"] = str(rng.randint(0, 5))
        if maybe(rng, 0.4):
            attrs["e"] = str(rng.randint(0, 9))
        if variant == "no_offline":
            del attrs["offline"]
        children = []
        if child:
            children.append(N(child, {"call-id": gen_ascii(rng, 16, 32)}))
        elif variant == "unknown_child":
            children.append(N("relayelection", {"call-id": gen_ascii(rng, 16, 32)}))
        return N("call", attrs, children)
    return build


_in("in.call.offer", L_CALL, _CALL, "call", _in_call("offer"), variants=("no_offline",),
    reaction=react_call_offer_receipt, reaction_layer=L_CALL)
for _c in ("terminate", "transport", "relaylatency", "reject"):
    _in("in.call." + _c, L_CALL, _CALL, "call", _in_call(_c), variants=("no_offline",),
        reaction=react_call_ack, reaction_layer=L_CALL)
_in("in.call.other", L_CALL, _CALL, "call", _in_call(None), variants=("no_offline", "unknown_child"),
    reaction=react_call_ack, reaction_layer=L_CALL,
    notes="bare <call> as in the class docstring; variant unknown_child adds a child the entity has no type for")


# --------------------------------------------------------------------------- #
# incoming: ib
# --------------------------------------------------------------------------- #

L_IB = "YowIbProtocolLayer"
_IBPE = "protocol_ib"
IB_VARIANTS = ("with_from",)


def _ib(rng, variant, children):
    attrs = {}
    if variant == "with_from":
        attrs["from"] = DOMAIN
    return N("ib", attrs, children)


def _ib_extra(rng, variant):
    # a second child next to the supported one: the layer decides by the first child it knows, in a fixed order
    if variant == "with_ignored_child":
        return [N(rng.choice(("edge_routing", "attestation", "fbip")), {}, None, gen_bytes(rng, 1, 16))]
    return []


def _in_ib_dirty(rng, variant, request):
    return _ib(rng, variant, [N("dirty", {"type": rng.choice(("groups", "account", gen_ascii(rng))),
                                          "timestamp": gen_ts(rng)})] + _ib_extra(rng, variant))


def _in_ib_offline(rng, variant, request):
    return _ib(rng, variant, [N("offline", {"count": gen_count(rng)})] + _ib_extra(rng, variant))


def _in_ib_account(rng, variant, request):
    return _ib(rng, variant, [N("account", {"status": "active", "kind": rng.choice(("paid", "free")),
                                            "creation": gen_ts(rng), "expiration": gen_ts(rng)})])


def _in_ib_ignored(child):
    def build(rng, variant, request):
        return _ib(rng, variant, [N(child, {}, None, gen_bytes(rng, 1, 16))])
    return build


_in("in.ib.dirty", L_IB, _p(_IBPE, "dirty_ib", "DirtyIbProtocolEntity"), "ib", _in_ib_dirty, variants=IB_VARIANTS,
    routing_variants=("with_ignored_child",))
_in("in.ib.offline", L_IB, _p(_IBPE, "offline_ib", "OfflineIbProtocolEntity"), "ib", _in_ib_offline,
    variants=IB_VARIANTS, routing_variants=("with_ignored_child",),
    notes="the class docstring documents from=s.whatsapp.net: that is variant with_from")
_in("in.ib.account", L_IB, _p(_IBPE, "account_ib", "AccountIbProtocolEntity"), "ib", _in_ib_account,
    variants=IB_VARIANTS)
for _c in ("edge_routing", "attestation", "fbip"):
    _in("in.ib." + _c, L_IB, None, "ib", _in_ib_ignored(_c), variants=IB_VARIANTS, notes="explicitly ignored by the layer")
_in("in.ib.unknown", L_IB, None, "ib", _in_ib_ignored("downgrade_webclient"), variants=IB_VARIANTS,
    notes="unsupported ib child: logged and dropped")


# --------------------------------------------------------------------------- #
# incoming: auth stanzas
# --------------------------------------------------------------------------- #

L_AUTH = "YowAuthenticationProtocolLayer"


def _in_success(rng, variant, request):
    return N("success", {"creation": gen_ts(rng), "props": str(rng.randint(1, 40)), "t": gen_ts(rng),
                         "location": rng.choice(("frc", "atn", "prn", "cln"))})


def _in_failure(rng, variant, request):
    return N("failure", {"reason": rng.choice(("401", "403", "405", "not-authorized"))})


def _in_stream_features(rng, variant, request):
    tags = [t for t in ("readreceipts", "groups_v2", "privacy", "presence") if maybe(rng)]
    return N("stream:features", {}, [N(t) for t in tags])


def _in_stream_error(etype):
    def build(rng, variant, request):
        children = [N(etype)]
        if etype == "conflict":
            children.append(N("text", {}, None, b"Replaced by new connection"))
        return N("stream:error", {}, children)
    return build


_in("in.success", L_AUTH, _p("auth", "success", "SuccessProtocolEntity"), "success", _in_success,
    notes="side effect: EVENT_AUTHED is broadcast (the iq layer starts its ping thread unless pinginterval is 0)")
_in("in.failure", L_AUTH, _p("auth", "failure", "FailureProtocolEntity"), "failure", _in_failure,
    notes="side effect: a disconnect event is broadcast")
_in("in.stream:features", L_AUTH, _p("auth", "stream_features", "StreamFeaturesProtocolEntity"), "stream:features",
    _in_stream_features)
for _e in ("conflict", "ack", "xml-not-well-formed"):
    _in("in.stream:error." + _e, L_AUTH, _p("auth", "stream_error", "StreamErrorProtocolEntity"), "stream:error",
        _in_stream_error(_e))


# --------------------------------------------------------------------------- #
# incoming: iq get ping (server -> client)
# --------------------------------------------------------------------------- #

L_IQ = "YowIqProtocolLayer"


def _in_iq_ping(rng, variant, request):
    attrs = {"type": "get", "xmlns": "urn:xmpp:ping", "from": DOMAIN, "id": "%s-ping" % gen_ts(rng)}
    if variant == "addressed":
        attrs["to"] = "%s@%s" % (gen_phone(rng), DOMAIN)        # the server may address the ping: from AND to
    elif variant == "untyped":
        del attrs["type"]                                          # a ping is recognised by its namespace
    elif variant == "t":
        attrs["t"] = gen_ts(rng)
    elif variant == "short_id":
        attrs["id"] = "" if rng.random() < 0.7 else "0"            # whatever the id is - even empty - the pong echoes it
    return N("iq", attrs)


_in("in.iq.get.ping", L_IQ, None, "iq", _in_iq_ping, reaction=react_pong, reaction_layer=L_IQ, variants=("addressed", "untyped", "t", "short_id"),
    notes="consumed; answered with <iq type=result xmlns=w:p to=s.whatsapp.net id=same>")


# --------------------------------------------------------------------------- #
# iq results / errors (server -> client).  Builders take (rng, request_entity or None, variant)
# --------------------------------------------------------------------------- #

def _rid(rng, req):
    return req.getId() if req is not None else gen_short_id(rng)


def _rto(rng, req, gen):
    """The jid the request was addressed to (the reply comes from it)."""
    if req is not None and req.getTo():
        return req.getTo()
    return gen(rng)


def res_plain(from_gen):
    """<iq type="result" id= from=/>"""
    def build(rng, req=None, variant=None):
        return N("iq", {"type": "result", "id": _rid(rng, req), "from": _rto(rng, req, from_gen)})
    return build


def _const(value):
    return lambda rng: value


def res_error(rng, req=None, variant=None):
    """<iq type="error" id= from=><error code= text= [backoff=]/></iq>"""
    code, text = rng.choice((("400", "bad-request"), ("401", "not-authorized"), ("403", "forbidden"),
                             ("404", "item-not-found"), ("406", "not-acceptable"), ("500", "internal-server-error")))
    err = {"code": code, "text": text}
    if maybe(rng, 0.3):
        err["backoff"] = str(rng.randint(1, 7200))
    return N("iq", {"type": "error", "id": _rid(rng, req), "from": _rto(rng, req, _const(DOMAIN))}, [N("error", err)])


def res_lastseen(rng, req=None, variant=None):
    return N("iq", {"type": "result", "id": _rid(rng, req), "from": _rto(rng, req, gen_jid)},
             [N("query", {"seconds": str(rng.randint(0, 10000000))})])


def res_picture_get(rng, req=None, variant=None):
    ptype = "preview" if (req.isPreview() if req is not None and hasattr(req, "isPreview") else maybe(rng)) else "image"
    return N("iq", {"type": "result", "id": _rid(rng, req), "from": _rto(rng, req, gen_jid)},
             [N("picture", {"type": ptype, "id": gen_ts(rng)}, None, gen_bytes(rng, 1, 300))])


def res_picture_set(rng, req=None, variant=None):
    pid = req.getPictureId() if req is not None and hasattr(req, "getPictureId") else gen_ts(rng)
    return N("iq", {"type": "result", "id": _rid(rng, req), "from": _rto(rng, req, gen_jid)},
             [N("picture", {"id": pid})])


def res_statuses(rng, req=None, variant=None):
    jids = list(req.jids) if req is not None and hasattr(req, "jids") else gen_jids(rng, 0, 4)
    users = [N("user", {"jid": j, "t": gen_ts(rng)}, None, gen_bytes(rng, 1, 139)) for j in jids]
    return N("iq", {"type": "result", "id": _rid(rng, req), "from": DOMAIN}, [N("status", {}, users)])


def res_privacy(rng, req=None, variant=None):
    cats = [N("category", {"name": n, "value": rng.choice(("all", "contacts", "none"))})
            for n in ("last", "status", "profile")]
    return N("iq", {"type": "result", "id": _rid(rng, req), "from": gen_jid(rng)}, [N("privacy", {}, cats)])


def res_groups_create(rng, req=None, variant=None):
    return N("iq", {"type": "result", "id": _rid(rng, req), "from": GROUP_DOMAIN},
             [N("group", {"id": gen_gjid(rng).split("@")[0]})])


def _group_node(rng, gid):
    return N("group", {"id": gid, "creator": gen_jid(rng), "creation": gen_ts(rng),
                       "subject": gen_attr_text(rng), "s_t": gen_ts(rng), "s_o": gen_jid(rng)},
             _group_children(rng, (None, None, "admin", "superadmin")))


def res_groups_info(rng, req=None, variant=None):
    gjid = _rto(rng, req, gen_gjid)
    return N("iq", {"type": "result", "id": _rid(rng, req), "from": gjid}, [_group_node(rng, gjid.split("@")[0])])


def res_groups_list(rng, req=None, variant=None):
    groups = [_group_node(rng, gen_gjid(rng).split("@")[0]) for _ in range(rng.randint(0, 3))]
    return N("iq", {"type": "result", "id": _rid(rng, req), "from": GROUP_DOMAIN}, [N("groups", {}, groups)])


def res_groups_leave(rng, req=None, variant=None):
    gid = req.groupList[0] if req is not None and getattr(req, "groupList", None) else gen_gjid(rng)
    return N("iq", {"type": "result", "id": _rid(rng, req), "from": GROUP_DOMAIN},
             [N("leave", {}, [N("group", {"id": gid})])])


def res_groups_participants(rng, req=None, variant=None):
    return N("iq", {"type": "result", "id": _rid(rng, req), "from": _rto(rng, req, gen_gjid)},
             [N("participant", {"jid": j}) for j in gen_jids(rng, 0, 5)])


def res_groups_change(action):
    """<iq type=result from=group id=><add|remove type="success" participant=/>...</iq>"""
    def build(rng, req=None, variant=None):
        jids = list(req.participantList) if req is not None and hasattr(req, "participantList") else gen_jids(rng, 0, 4)
        children = [N(action, {"type": "success", "participant": j}) for j in jids]
        if variant == "with_failed_participant":
            children.append(N(action, {"type": "fail", "error": "401", "participant": gen_jid(rng)}))
        return N("iq", {"type": "result", "id": _rid(rng, req), "from": _rto(rng, req, gen_gjid)}, children)
    return build


def res_sync(rng, req=None, variant=None):
    """Children in the order the entity writes them: <out>, <in>, <invalid> (docstring lists in, out, invalid)."""
    if req is not None and hasattr(req, "numbers"):
        numbers = list(req.numbers)
        sid, index = req.sid, str(req.index)
    else:
        numbers = ["+" + gen_phone(rng) for _ in range(rng.randint(0, 5))]
        sid, index = str((rng.randint(1400000000, 1700000000) + 11644477200) * 10000000), "0"
    numbers = list(dict.fromkeys(numbers))
    ins, outs, invalid = [], [], []
    for n in numbers:
        r = rng.random()
        (ins if r < 0.5 else outs if r < 0.85 else invalid).append(n)
    sync = {"sid": sid, "index": index, "last": "false" if variant == "last_false" else "true",
            "version": str(rng.randint(10 ** 15, 10 ** 16))}
    if maybe(rng):
        sync["wait"] = str(bint(rng, 0, 400000))
    children = []

    def user(n):
        return N("user", {"jid": n.lstrip("+") + "@" + DOMAIN}, None, n.encode("ascii"))
    if outs:
        children.append(N("out", {}, [user(n) for n in outs]))
    if ins:
        children.append(N("in", {}, [user(n) for n in ins]))
    if invalid:
        children.append(N("invalid", {}, [N("user", {}, None, n.encode("ascii")) for n in invalid]))
    return N("iq", {"type": "result", "id": _rid(rng, req), "from": gen_jid(rng)}, [N("sync", sync, children)])


def res_upload(rng, req=None, variant=None):
    media = {"url": "https://mmg.whatsapp.net/u/f/" + gen_ascii(rng, 16, 32)}
    if maybe(rng):
        media["ip"] = ".".join(str(rng.randint(1, 254)) for _ in range(4))
    if maybe(rng, 0.3):
        media["resume"] = str(rng.randint(1, 100000))
    return N("iq", {"type": "result", "id": _rid(rng, req), "from": DOMAIN}, [N("encr_media", media)])


def res_upload_duplicate(rng, req=None, variant=None):
    return N("iq", {"type": "result", "id": _rid(rng, req), "from": DOMAIN}, [N("duplicate", {"url": gen_url(rng)})])


_IQ_RESULT = _p("protocol_iq", "iq_result", "ResultIqProtocolEntity")
_IQ_ERROR = _p("protocol_iq", "iq_error", "ErrorIqProtocolEntity")
L_PROFILES = "YowProfilesProtocolLayer"
L_PRIVACY = "YowPrivacyProtocolLayer"


def _reply(result, result_cls, holder, has_err, error=res_error):
    return {"result": lambda rng, req, _f=result: _f(rng, req),
            "result_entity_class": result_cls,
            "error": lambda rng, req, _f=error: _f(rng, req),
            "holder": holder, "holder_has_error_cb": has_err}


def _in_result(name, layer, cls, builder, solicited_by, module=None, variants=(), **kw):
    return _in(name, layer, cls, "iq", lambda rng, variant, request, _b=builder: _b(rng, request, variant),
               module=module, solicited_by=solicited_by, variants=variants, **kw)


_RES_LASTSEEN = _p("protocol_presence", "iq_lastseen_result", "ResultLastseenIqProtocolEntity")
_RES_PICTURE = _p("protocol_profiles", "iq_picture_get_result", "ResultGetPictureIqProtocolEntity")
_RES_STATUSES = _p("protocol_profiles", "iq_statuses_result", "ResultStatusesIqProtocolEntity")
_RES_PRIVACY = _p("protocol_profiles", "iq_privacy_result", "ResultPrivacyIqProtocolEntity")
_RES_G_CREATE = _p(_GPE, "iq_groups_create_success", "SuccessCreateGroupsIqProtocolEntity")
_RES_G_INFO = _p(_GPE, "iq_result_groups_info", "InfoGroupsResultIqProtocolEntity")
_RES_G_LEAVE = _p(_GPE, "iq_groups_leave_success", "SuccessLeaveGroupsIqProtocolEntity")
_RES_G_LIST = _p(_GPE, "iq_result_groups_list", "ListGroupsResultIqProtocolEntity")
_RES_G_PARTS = _p(_GPE, "iq_result_participants_list", "ListParticipantsResultIqProtocolEntity")
_RES_G_ADD = _p(_GPE, "iq_groups_participants_add_success", "SuccessAddParticipantsIqProtocolEntity")
_RES_G_REMOVE = _p(_GPE, "iq_groups_participants_remove_success", "SuccessRemoveParticipantsIqProtocolEntity")
_ERR_G_ADD = _p(_GPE, "iq_groups_participants_add_failure", "FailureAddParticipantsIqProtocolEntity")
_RES_SYNC = _p(_CPE, "iq_sync_result", "ResultSyncIqProtocolEntity")
_RES_UPLOAD = _p(_MEDIA_PE, "iq_requestupload_result", "ResultRequestUploadIqProtocolEntity")

_in_result("in.iq.result.ping", L_IQ, _IQ_RESULT, res_plain(_const(DOMAIN)), "out.iq.ping")
_in_result("in.iq.result.lastseen", L_PRES, _RES_LASTSEEN, res_lastseen, "out.iq.lastseen")
_in_result("in.iq.result.sync", L_CONTACTS, _RES_SYNC, res_sync, None, variants=("last_false",),
           notes="not correlated through iqRegistry: the contacts layer claims every iq result with a <sync> child")
_in_result("in.iq.result.picture.get", L_PROFILES, _RES_PICTURE, res_picture_get, "out.iq.picture.get", "profiles")
_in_result("in.iq.result.picture.set", L_PROFILES, _RES_PICTURE, res_picture_set, "out.iq.picture.set", "profiles")
_in_result("in.iq.result.picture.delete", L_PROFILES, _IQ_RESULT, res_plain(gen_jid), "out.iq.picture.delete", "profiles")
_in_result("in.iq.result.statuses", L_PROFILES, _RES_STATUSES, res_statuses, "out.iq.statuses.get", "profiles")
_in_result("in.iq.result.status.set", L_PROFILES, _IQ_RESULT, res_plain(_const(DOMAIN)), "out.iq.status.set", "profiles")
_in_result("in.iq.result.privacy", L_PROFILES, _RES_PRIVACY, res_privacy, "out.iq.privacy.get", "profiles",
           notes="also the reply to out.iq.privacy.set")
_in_result("in.iq.result.groups.create", L_GROUPS, _RES_G_CREATE, res_groups_create, "out.iq.groups.create", "groups")
_in_result("in.iq.result.groups.info", L_GROUPS, _RES_G_INFO, res_groups_info, "out.iq.groups.info", "groups")
_in_result("in.iq.result.groups.leave", L_GROUPS, _RES_G_LEAVE, res_groups_leave, "out.iq.groups.leave", "groups")
_in_result("in.iq.result.groups.list", L_GROUPS, _RES_G_LIST, res_groups_list, "out.iq.groups.list", "groups")
_in_result("in.iq.result.groups.subject", L_GROUPS, _IQ_RESULT, res_plain(gen_gjid), "out.iq.groups.subject", "groups")
_in_result("in.iq.result.groups.participants", L_GROUPS, _RES_G_PARTS, res_groups_participants,
           "out.iq.groups.participants", "groups")
_in_result("in.iq.result.groups.add", L_GROUPS, _RES_G_ADD, res_groups_change("add"), "out.iq.groups.add", "groups",
           variants=("with_failed_participant",))
_in_result("in.iq.result.groups.remove", L_GROUPS, _RES_G_REMOVE, res_groups_change("remove"), "out.iq.groups.remove",
           "groups", variants=("with_failed_participant",))
_in_result("in.iq.result.groups.promote", L_GROUPS, _IQ_RESULT, res_plain(gen_gjid), "out.iq.groups.promote", "groups")
_in_result("in.iq.result.groups.demote", L_GROUPS, _IQ_RESULT, res_plain(gen_gjid), "out.iq.groups.demote", "groups")
_in_result("in.iq.result.media.upload", L_MEDIA, _RES_UPLOAD, res_upload, "out.iq.media.requestupload", "media")
_in_result("in.iq.result.media.upload.duplicate", L_MEDIA, _RES_UPLOAD, res_upload_duplicate,
           "out.iq.media.requestupload", "media")
_in_result("in.iq.error", L_PRES, _IQ_ERROR, res_error, "out.iq.lastseen",
           notes="generic iq error; reaches the top only through the error callback of the layer holding the request "
                 "(see iq_reply[...]['holder_has_error_cb'] of the out kinds)")
_in_result("in.iq.error.groups.add", L_GROUPS, _ERR_G_ADD, res_error, "out.iq.groups.add", "groups")


# --------------------------------------------------------------------------- #
# outgoing: messages
# --------------------------------------------------------------------------- #

_ATTR = "yowsup.layers.protocol_messages.protocolentities.attributes."


def _A(mod, cls):
    return load_class(_ATTR + mod + "." + cls)


def _draw_out_meta(rng):
    v = {"id": gen_id(rng)}
    if maybe(rng, 0.3):
        v["to"] = gen_gjid(rng)
    else:
        v["to"] = gen_jid(rng)
    return v


def _meta_of(v):
    return _A("attributes_message_meta", "MessageMetaAttributes")(id=v["id"], recipient=v["to"])


def _out_message_node(v, mtype, pb, mediatype=None):
    """<message type= id= to=><proto [mediatype=]>bytes</proto></message>"""
    pattrs = {"mediatype": mediatype} if mediatype else {}
    return N("message", {"type": mtype, "id": v["id"], "to": v["to"]},
             [N("proto", pattrs, None, pb.SerializeToString())])


def _ctx_attrs(v):
    if v is None:
        return None
    quoted = None
    if "quoted_conversation" in v:
        quoted = _A("attributes_message", "MessageAttributes")(conversation=v["quoted_conversation"])
    return _A("attributes_context_info", "ContextInfoAttributes")(
        stanza_id=v["stanza_id"], participant=v["participant"], quoted_message=quoted,
        remote_jid=v.get("remote_jid"), mentioned_jid=list(v["mentioned_jid"]))


def _dl_attrs(v):
    return _A("attributes_downloadablemedia", "DownloadableMediaMessageAttributes")(
        v["mimetype"], v["file_length"], v["file_sha256"], v["url"], v["media_key"], _ctx_attrs(v.get("context_info")))


def _draw_text(rng):
    v = _draw_out_meta(rng)
    v["body"] = gen_text(rng, 1, 200)
    return v


_TEXT = _p("protocol_messages", "message_text", "TextMessageProtocolEntity")
_out("out.message.text", L_MSG, _TEXT, "message", _draw_text,
     lambda v: _out_message_node(v, "text", pb_conversation(v["body"])),
     lambda v: load_class(_TEXT)(v["body"], _meta_of(v)))


def _draw_text_directed(rng):
    v = {"id": gen_id(rng), "to": gen_gjid(rng), "participant": gen_jid(rng), "body": gen_text(rng, 1, 200)}
    return v


_out("out.message.text.directed", L_MSG, _TEXT, "message", _draw_text_directed,
     lambda v: N("message", {"type": "text", "id": v["id"], "to": v["to"], "participant": v["participant"]},
                 [N("proto", {}, None, pb_conversation(v["body"]).SerializeToString())]),
     lambda v: load_class(_TEXT)(v["body"], _A("attributes_message_meta", "MessageMetaAttributes")(id=v["id"], recipient=v["to"], participant=v["participant"])),
     notes="a group message addressed to one participant (what the send layer builds when it re-sends after a retry receipt)")


def _draw_broadcast(rng):
    v = {"id": gen_id(rng), "to": "%d@broadcast" % rng.randint(1400000000000, 1700000000000),
         "body": gen_text(rng, 1, 200), "jids": gen_jids(rng, 1, 4)}
    return v


def _broadcast_node(v):
    node = _out_message_node(v, "text", pb_conversation(v["body"]))
    node.addChild(N("broadcast", {}, [N("to", {"jid": j}) for j in v["jids"]]))
    return node


def _broadcast_entity(v):
    e = load_class(_p("protocol_messages", "message_text_broadcast", "BroadcastTextMessage"))(v["jids"], v["body"])
    e._id = v["id"]     # constructor: id from the global counter + clock
    e.to = v["to"]      # constructor: "<now in ms>@broadcast"
    return e


_out("out.message.text.broadcast", L_MSG, _p("protocol_messages", "message_text_broadcast", "BroadcastTextMessage"),
     "message", _draw_broadcast, _broadcast_node, _broadcast_entity, forced=("_id", "to"))


def _with_meta(draw):
    def f(rng):
        v = _draw_out_meta(rng)
        v["m"] = draw(rng)
        return v
    return f


def _ext_attrs(m):
    return _A("attributes_extendedtext", "ExtendedTextAttributes")(
        m["text"], m.get("matched_text"), m.get("canonical_url"), m.get("description"), m.get("title"),
        m.get("jpeg_thumbnail"), _ctx_attrs(m.get("context_info")))


_EXT = _p("protocol_messages", "message_extendedtext", "ExtendedTextMessageProtocolEntity")
_out("out.message.extendedtext", L_MSG, _EXT, "message", _with_meta(draw_extended_text),
     lambda v: _out_message_node(v, "text", pb_extended_text(v["m"])),
     lambda v: load_class(_EXT)(_ext_attrs(v["m"]), _meta_of(v)))


def _out_media(name, cls, mediatype, draw, pb_of, attrs_of):
    return _out(name, L_MEDIA, cls, "message", _with_meta(draw),
                lambda v: _out_message_node(v, "media", pb_of(v["m"]), mediatype),
                lambda v: load_class(cls)(attrs_of(v["m"]), _meta_of(v)), module="media")


_out_media("out.message.media.image", _IMG, "image", draw_image, pb_image,
           lambda m: _A("attributes_image", "ImageAttributes")(
               _dl_attrs(m), m["width"], m["height"], m.get("caption"), m.get("jpeg_thumbnail")))
_out_media("out.message.media.audio", _AUD, "audio", lambda rng: draw_audio(rng, maybe(rng)), pb_audio,
           lambda m: _A("attributes_audio", "AudioAttributes")(_dl_attrs(m), m["seconds"], m["ptt"]))
_out_media("out.message.media.video", _VID, "video", lambda rng: draw_video(rng, maybe(rng), full=False), pb_video,
           lambda m: _A("attributes_video", "VideoAttributes")(
               _dl_attrs(m), m["width"], m["height"], m["seconds"], m.get("gif_playback"), m.get("jpeg_thumbnail"),
               m.get("gif_attribution"), m.get("caption"), m.get("streaming_sidecar")))
_out_media("out.message.media.document", _DOC, "document", draw_document, pb_document,
           lambda m: _A("attributes_document", "DocumentAttributes")(
               _dl_attrs(m), m["file_name"], m["file_length"], m.get("title"), m.get("page_count"),
               m.get("jpeg_thumbnail")))
_out_media("out.message.media.sticker", _STK, "sticker", lambda rng: draw_sticker(rng, full=False), pb_sticker,
           lambda m: _A("attributes_sticker", "StickerAttributes")(
               _dl_attrs(m), m["width"], m["height"], m.get("png_thumbnail")))
_out_media("out.message.media.location", _LOC, "location", draw_location, pb_location,
           lambda m: _A("attributes_location", "LocationAttributes")(
               m["degrees_latitude"], m["degrees_longitude"], m.get("name"), m.get("address"), m.get("url"),
               m.get("duration"), m.get("accuracy_in_meters"), m.get("speed_in_mps"),
               m.get("degrees_clockwise_from_magnetic_north"), None, m.get("jpeg_thumbnail")))
_out_media("out.message.media.contact", _CON, "contact", draw_contact, pb_contact,
           lambda m: _A("attributes_contact", "ContactAttributes")(
               m["display_name"], m["vcard"], _ctx_attrs(m.get("context_info"))))
_out_media("out.message.media.url", _URL, "url", draw_extended_text, pb_extended_text, _ext_attrs)


# --------------------------------------------------------------------------- #
# outgoing: receipts, acks, presence, chatstate, call, notification
# --------------------------------------------------------------------------- #

_RCPT_OUT = _p("protocol_receipts", "receipt_outgoing", "OutgoingReceiptProtocolEntity")


def _draw_receipt(read=False, group=False, multi=False, call=False):
    def draw(rng):
        v = {"read": read, "to": gen_gjid(rng) if group else gen_jid(rng)}
        v["participant"] = gen_jid(rng) if group else None
        if multi:
            v["ids"] = [gen_id(rng) for _ in range(rng.randint(2, 5))]
            v["id"] = gen_id(rng)
        else:
            v["id"] = gen_id(rng)
            v["ids"] = [v["id"]]
        v["callId"] = gen_ascii(rng, 16, 32) if call else None
        return v
    return draw


def _receipt_node(v):
    attrs = {"id": v["id"], "to": v["to"]}
    if v["read"]:
        attrs["type"] = "read"
    if v["participant"]:
        attrs["participant"] = v["participant"]
    children = []
    if v["callId"]:
        children.append(N("offer", {"call-id": v["callId"]}))
    if len(v["ids"]) > 1:
        children.append(N("list", {}, [N("item", {"id": i}) for i in v["ids"]]))
    return N("receipt", attrs, children)


def _receipt_entity(v):
    cls = load_class(_RCPT_OUT)
    if len(v["ids"]) > 1:
        e = cls(list(v["ids"]), v["to"], v["read"], v["participant"], v["callId"])
        e._id = v["id"]   # constructor: id from the global counter + clock when several message ids are given
        return e
    return cls(v["id"], v["to"], v["read"], v["participant"], v["callId"])


_out("out.receipt.delivery", L_RCPT, _RCPT_OUT, "receipt", _draw_receipt(), _receipt_node, _receipt_entity)
_out("out.receipt.read", L_RCPT, _RCPT_OUT, "receipt", _draw_receipt(read=True), _receipt_node, _receipt_entity)
_out("out.receipt.read.participant", L_RCPT, _RCPT_OUT, "receipt", _draw_receipt(read=True, group=True),
     _receipt_node, _receipt_entity)
_out("out.receipt.read.list", L_RCPT, _RCPT_OUT, "receipt", _draw_receipt(read=True, multi=True),
     _receipt_node, _receipt_entity, forced=("_id",))
_out("out.receipt.call", L_RCPT, _RCPT_OUT, "receipt", _draw_receipt(call=True), _receipt_node, _receipt_entity)

_ACK_OUT = _p("protocol_acks", "ack_outgoing", "OutgoingAckProtocolEntity")


def _draw_ack(rng):
    cls_ = rng.choice(("receipt", "notification", "message", "call"))
    v = {"id": gen_id(rng), "class": cls_, "type": None, "participant": None}
    if cls_ == "receipt":
        v["type"] = rng.choice((None, "read", "played"))
    elif cls_ == "notification":
        v["type"] = rng.choice(("picture", "status", "contacts", "w:gp2"))
    if maybe(rng, 0.3):
        v["to"] = gen_gjid(rng)
        v["participant"] = gen_jid(rng)
    else:
        v["to"] = gen_jid(rng)
    return v


def _ack_node(v):
    attrs = {"id": v["id"], "class": v["class"], "to": v["to"]}
    if v["type"]:
        attrs["type"] = v["type"]
    if v["participant"]:
        attrs["participant"] = v["participant"]
    return N("ack", attrs)


_out("out.ack", L_ACK, _ACK_OUT, "ack", _draw_ack, _ack_node,
     lambda v: load_class(_ACK_OUT)(v["id"], v["class"], v["type"], v["to"], v["participant"]))

_PPE = "protocol_presence"
_out("out.presence.available", L_PRES, _p(_PPE, "presence_available", "AvailablePresenceProtocolEntity"), "presence",
     lambda rng: {}, lambda v: N("presence", {"type": "available"}),
     lambda v: load_class(_p(_PPE, "presence_available", "AvailablePresenceProtocolEntity"))())
_out("out.presence.unavailable", L_PRES, _p(_PPE, "presence_unavailable", "UnavailablePresenceProtocolEntity"),
     "presence", lambda rng: {}, lambda v: N("presence", {"type": "unavailable"}),
     lambda v: load_class(_p(_PPE, "presence_unavailable", "UnavailablePresenceProtocolEntity"))())
_out("out.presence.name", L_PRES, _PRES, "presence", lambda rng: {"name": gen_attr_text(rng)},
     lambda v: N("presence", {"name": v["name"]}), lambda v: load_class(_PRES)(name=v["name"]),
     notes="<presence name=pushname/> used to publish the push name")
for _n, _m, _c in (("subscribe", "presence_subscribe", "SubscribePresenceProtocolEntity"),
                   ("unsubscribe", "presence_unsubscribe", "UnsubscribePresenceProtocolEntity")):
    _out("out.presence." + _n, L_PRES, _p(_PPE, _m, _c), "presence", lambda rng: {"jid": gen_jid(rng)},
         lambda v, _n=_n: N("presence", {"type": _n, "to": v["jid"]}),
         lambda v, _m=_m, _c=_c: load_class(_p(_PPE, _m, _c))(v["jid"]))

_CHAT_OUT = _p("protocol_chatstate", "chatstate_outgoing", "OutgoingChatstateProtocolEntity")
for _s in ("composing", "paused"):
    _out("out.chatstate." + _s, L_CHAT, _CHAT_OUT, "chatstate",
         lambda rng: {"to": gen_gjid(rng) if maybe(rng, 0.3) else gen_jid(rng)},
         lambda v, _s=_s: N("chatstate", {"to": v["to"]}, [N(_s)]),
         lambda v, _s=_s: load_class(_CHAT_OUT)(_s, v["to"]))


def _draw_call(rng):
    return {"id": gen_id(rng), "type": rng.choice(("offer", "terminate", "reject", "transport", "relaylatency")),
            "t": gen_ts(rng), "to": gen_jid(rng), "callId": gen_ascii(rng, 16, 32)}


_out("out.call", L_CALL, _CALL, "call", _draw_call,
     lambda v: N("call", {"id": v["id"], "t": v["t"], "offline": "0", "to": v["to"]},
                 [N(v["type"], {"call-id": v["callId"]})]),
     lambda v: load_class(_CALL)(v["id"], v["type"], v["t"], callId=v["callId"], _to=v["to"]),
     notes="the entity always writes offline= and t=, also on outgoing calls")

_NOTIF = _p(_NPE, "notification", "NotificationProtocolEntity")


def _draw_notification(rng):
    return {"type": rng.choice(("picture", "status", "contacts")), "id": gen_id(rng), "from": gen_jid(rng),
            "t": gen_ts(rng), "notify": gen_attr_text(rng), "offline": gen_flag(rng)}


_out("out.notification", L_NOTIF, _NOTIF, "notification", _draw_notification,
     lambda v: N("notification", {"type": v["type"], "id": v["id"], "from": v["from"], "t": v["t"],
                                  "notify": v["notify"], "offline": v["offline"]}),
     lambda v: load_class(_NOTIF)(v["type"], v["id"], v["from"], v["t"], v["notify"], v["offline"]),
     notes="the notifications layer forwards any entity with tag notification downwards")


# --------------------------------------------------------------------------- #
# outgoing: iq requests
# --------------------------------------------------------------------------- #

def _force_id(entity, _id):
    """For constructors without an id parameter (id comes from a process-global counter)."""
    entity._id = _id
    return entity


def _iq_node(v, itype, xmlns=None, to=None, children=None):
    attrs = {"id": v["id"], "type": itype}
    if xmlns:
        attrs["xmlns"] = xmlns
    if to:
        attrs["to"] = to
    return N("iq", attrs, children)


def _draw_id(rng):
    return {"id": gen_short_id(rng)}


_IQPE = "protocol_iq"
_PING = _p(_IQPE, "iq_ping", "PingIqProtocolEntity")
_out("out.iq.ping", L_IQ, _PING, "iq", _draw_id,
     lambda v: _iq_node(v, "get", "w:p", DOMAIN),
     lambda v: load_class(_PING)(to=DOMAIN, _id=v["id"]),
     iq_reply=_reply(res_plain(_const(DOMAIN)), _IQ_RESULT, L_IQ, False))

_PUSH = _p(_IQPE, "iq_push", "PushIqProtocolEntity")
_out("out.iq.push", L_IQ, _PUSH, "iq", _draw_id,
     lambda v: _iq_node(v, "get", "urn:xmpp:whatsapp:push", None, [N("config")]),
     lambda v: _force_id(load_class(_PUSH)(), v["id"]), forced=("_id",))

_PROPS = _p(_IQPE, "iq_props", "PropsIqProtocolEntity")
_out("out.iq.props", L_IQ, _PROPS, "iq", _draw_id,
     lambda v: _iq_node(v, "get", "w", None, [N("props")]),
     lambda v: _force_id(load_class(_PROPS)(), v["id"]), forced=("_id",))

_CRYPTO = _p(_IQPE, "iq_crypto", "CryptoIqProtocolEntity")
_GOOGLE = bytes(bytearray.fromhex("fe5cf90c511fb899781bbed754577098e460d048312c8b36c11c91ca4b49ca34"))
_out("out.iq.crypto", L_IQ, _CRYPTO, "iq", _draw_id,
     lambda v: _iq_node(v, "get", "urn:xmpp:whatsapp:account", None,
                        [N("crypto", {"action": "create"}, [N("google", {}, None, _GOOGLE)])]),
     lambda v: _force_id(load_class(_CRYPTO)(), v["id"]), forced=("_id",))

_CLEAN = _p(_IBPE, "clean_iq", "CleanIqProtocolEntity")
_out("out.iq.clean", L_IB, _CLEAN, "iq",
     lambda rng: {"id": gen_short_id(rng), "type": rng.choice(("groups", "account"))},
     lambda v: _iq_node(v, "set", "urn:xmpp:whatsapp:dirty", DOMAIN, [N("clean", {"type": v["type"]})]),
     lambda v: load_class(_CLEAN)(v["type"], DOMAIN, _id=v["id"]))

_LASTSEEN = _p(_PPE, "iq_lastseen", "LastseenIqProtocolEntity")
_out("out.iq.lastseen", L_PRES, _LASTSEEN, "iq", lambda rng: {"id": gen_short_id(rng), "jid": gen_jid(rng)},
     lambda v: _iq_node(v, "get", "jabber:iq:last", v["jid"], [N("query")]),
     lambda v: load_class(_LASTSEEN)(v["jid"], _id=v["id"]),
     iq_reply=_reply(res_lastseen, _RES_LASTSEEN, L_PRES, True))


def _draw_sync(rng):
    return {"id": gen_short_id(rng), "numbers": list(dict.fromkeys("+" + gen_phone(rng) for _ in range(rng.randint(0, 5)))),
            "mode": rng.choice(("full", "delta")), "context": rng.choice(("registration", "interactive")),
            "sid": str((rng.randint(1400000000, 1700000000) + 11644477200) * 10000000),
            "index": rng.randint(0, 3), "last": maybe(rng, 0.7)}


_SYNC_GET = _p(_CPE, "iq_sync_get", "GetSyncIqProtocolEntity")
_out("out.iq.sync.get", L_CONTACTS, _SYNC_GET, "iq", _draw_sync,
     lambda v: _iq_node(v, "get", "urn:xmpp:whatsapp:sync", None, [
         N("sync", {"sid": v["sid"], "index": str(v["index"]), "last": "true" if v["last"] else "false",
                    "mode": v["mode"], "context": v["context"]},
           [N("user", {}, None, n.encode("ascii")) for n in v["numbers"]])]),
     lambda v: _force_id(load_class(_SYNC_GET)(list(v["numbers"]), v["mode"], v["context"], v["sid"], v["index"],
                                               v["last"]), v["id"]),
     forced=("_id",), iq_reply=_reply(res_sync, _RES_SYNC, None, False))

_PRIVLIST = _p("protocol_privacy", "privacylist_iq", "PrivacyListIqProtocolEntity")
_out("out.iq.privacylist", L_PRIVACY, _PRIVLIST, "iq",
     lambda rng: {"id": gen_short_id(rng), "name": rng.choice(("default", gen_ascii(rng)))},
     lambda v: _iq_node(v, "get", "jabber:iq:privacy", None, [N("query", {}, [N("list", {"name": v["name"]})])]),
     lambda v: _force_id(load_class(_PRIVLIST)(v["name"]), v["id"]), module="privacy", forced=("_id",))

_PFPE = "protocol_profiles"
_PIC_XMLNS = "w:profile:picture"
_PIC_GET = _p(_PFPE, "iq_picture_get", "GetPictureIqProtocolEntity")
_out("out.iq.picture.get", L_PROFILES, _PIC_GET, "iq",
     lambda rng: {"id": gen_short_id(rng), "jid": gen_gjid(rng) if maybe(rng, 0.3) else gen_jid(rng), "preview": maybe(rng)},
     lambda v: _iq_node(v, "get", _PIC_XMLNS, v["jid"], [N("picture", {"type": "preview" if v["preview"] else "image"})]),
     lambda v: load_class(_PIC_GET)(v["jid"], v["preview"], _id=v["id"]), module="profiles",
     iq_reply=_reply(res_picture_get, _RES_PICTURE, L_PROFILES, True))

_PIC_SET = _p(_PFPE, "iq_picture_set", "SetPictureIqProtocolEntity")
_out("out.iq.picture.set", L_PROFILES, _PIC_SET, "iq",
     lambda rng: {"id": gen_short_id(rng), "jid": gen_gjid(rng) if maybe(rng, 0.3) else gen_jid(rng),
                  "preview": gen_bytes(rng, 1, 200), "picture": gen_bytes(rng, 1, 600), "pid": gen_ts(rng)},
     lambda v: _iq_node(v, "set", _PIC_XMLNS, v["jid"], [N("picture", {"type": "image", "id": v["pid"]}, None, v["picture"]),
                                                         N("picture", {"type": "preview"}, None, v["preview"])]),
     lambda v: load_class(_PIC_SET)(v["jid"], v["preview"], v["picture"], v["pid"], _id=v["id"]), module="profiles",
     iq_reply=_reply(res_picture_set, _RES_PICTURE, L_PROFILES, True))

_PIC = _p(_PFPE, "iq_picture", "PictureIqProtocolEntity")


def _picture_delete_entity(v):
    cls = load_class(_PIC)
    try:
        return cls(v["jid"], v["id"], "delete")      # the public constructor; asserts on type "delete"
    except AssertionError:
        e = cls(v["jid"], v["id"], "get")
        e._type = "delete"
        return e


_out("out.iq.picture.delete", L_PROFILES, _PIC, "iq", lambda rng: {"id": gen_short_id(rng), "jid": gen_jid(rng)},
     lambda v: _iq_node(v, "delete", _PIC_XMLNS, v["jid"]), _picture_delete_entity, module="profiles",
     forced=("_type",), iq_reply=_reply(res_plain(gen_jid), _IQ_RESULT, L_PROFILES, True),
     notes="the profiles layer has a branch for iq type 'delete', but IqProtocolEntity refuses that type")

_PIC_LIST = _p(_PFPE, "iq_pictures_list", "ListPicturesIqProtocolEntity")
_out("out.iq.picture.list", L_PROFILES, _PIC_LIST, "iq",
     lambda rng: {"id": gen_short_id(rng), "self": gen_jid(rng), "jids": gen_jids(rng, 1, 4)},
     lambda v: _iq_node(v, "get", _PIC_XMLNS, v["self"], [N("list", {}, [N("user", {"jid": j}) for j in v["jids"]])]),
     lambda v: _force_id(load_class(_PIC_LIST)(v["self"], list(v["jids"])), v["id"]), module="profiles",
     forced=("_id",), notes="registered by the profiles layer with the get-picture callbacks; no result shape documented")

_PRIV_GET = _p(_PFPE, "iq_privacy_get", "GetPrivacyIqProtocolEntity")
_out("out.iq.privacy.get", L_PROFILES, _PRIV_GET, "iq", _draw_id,
     lambda v: _iq_node(v, "get", "privacy", None, [N("privacy")]),
     lambda v: _force_id(load_class(_PRIV_GET)(), v["id"]), module="profiles", forced=("_id",),
     iq_reply=_reply(res_privacy, _RES_PRIVACY, L_PROFILES, True))

_PRIV_SET = _p(_PFPE, "iq_privacy_set", "SetPrivacyIqProtocolEntity")
_PRIV_NAMES = ("status", "profile", "last")


def _draw_privacy_set(rng):
    names = [n for n in _PRIV_NAMES if maybe(rng)] or list(_PRIV_NAMES)
    return {"id": gen_short_id(rng), "value": rng.choice(("all", "contacts", "none")), "names": names}


_out("out.iq.privacy.set", L_PROFILES, _PRIV_SET, "iq", _draw_privacy_set,
     lambda v: _iq_node(v, "set", "privacy", None,
                        [N("privacy", {}, [N("category", {"name": n, "value": v["value"]}) for n in v["names"]])]),
     lambda v: _force_id(load_class(_PRIV_SET)(v["value"], list(v["names"])), v["id"]), module="profiles",
     forced=("_id",), iq_reply=_reply(res_privacy, _RES_PRIVACY, L_PROFILES, True))

_ST_GET = _p(_PFPE, "iq_statuses_get", "GetStatusesIqProtocolEntity")
_out("out.iq.statuses.get", L_PROFILES, _ST_GET, "iq", lambda rng: {"id": gen_short_id(rng), "jids": gen_jids(rng, 0, 4)},
     lambda v: _iq_node(v, "get", "status", DOMAIN, [N("status", {}, [N("user", {"jid": j}) for j in v["jids"]])]),
     lambda v: load_class(_ST_GET)(list(v["jids"]), _id=v["id"]), module="profiles",
     iq_reply=_reply(res_statuses, _RES_STATUSES, L_PROFILES, True))

_ST_SET = _p(_PFPE, "iq_status_set", "SetStatusIqProtocolEntity")
_out("out.iq.status.set", L_PROFILES, _ST_SET, "iq", lambda rng: {"id": gen_short_id(rng), "text": gen_bytes(rng, 1, 139)},
     lambda v: _iq_node(v, "set", "status", DOMAIN, [N("status", {}, None, v["text"])]),
     lambda v: load_class(_ST_SET)(v["text"], _id=v["id"]), module="profiles",
     iq_reply=_reply(res_plain(_const(DOMAIN)), _IQ_RESULT, L_PROFILES, True))

_UNREG = _p(_PFPE, "iq_unregister", "UnregisterIqProtocolEntity")
_out("out.iq.unregister", L_PROFILES, _UNREG, "iq", _draw_id,
     lambda v: _iq_node(v, "get", None, DOMAIN, [N("remove", {"xmlns": "urn:xmpp:whatsapp:account"})]),
     lambda v: _force_id(load_class(_UNREG)(), v["id"]), module="profiles", forced=("_id",),
     notes="account removal request defined in protocol_profiles (used by the cli demo). The iq itself carries no "
           "xmlns, and no layer's sendIq accepts it")

# --- groups (w:g2) ---------------------------------------------------------

_G2 = "w:g2"


def _out_group(name, mod, cls, draw, node_of, entity_of, result, result_cls, has_err, error=res_error, **kw):
    path = _p(_GPE, mod, cls)
    return _out(name, L_GROUPS, path, "iq", draw, node_of, lambda v, _p_=path: entity_of(load_class(_p_), v),
                module="groups", iq_reply=_reply(result, result_cls, L_GROUPS, has_err, error), **kw)


def _participants_nodes(jids):
    return [N("participant", {"jid": j}) for j in jids]


_out_group("out.iq.groups.create", "iq_groups_create", "CreateGroupsIqProtocolEntity",
           lambda rng: {"id": gen_short_id(rng), "subject": gen_attr_text(rng), "jids": gen_jids(rng, 0, 4)},
           lambda v: _iq_node(v, "set", _G2, GROUP_DOMAIN, [N("create", {"subject": v["subject"]}, _participants_nodes(v["jids"]))]),
           lambda cls, v: cls(v["subject"], _id=v["id"], participants=list(v["jids"])),
           res_groups_create, _RES_G_CREATE, True)
_out_group("out.iq.groups.info", "iq_groups_info", "InfoGroupsIqProtocolEntity",
           lambda rng: {"id": gen_short_id(rng), "gjid": gen_gjid(rng)},
           lambda v: _iq_node(v, "get", _G2, v["gjid"], [N("query", {"request": "interactive"})]),
           lambda cls, v: cls(v["gjid"], _id=v["id"]), res_groups_info, _RES_G_INFO, True)
_out_group("out.iq.groups.leave", "iq_groups_leave", "LeaveGroupsIqProtocolEntity",
           lambda rng: {"id": gen_short_id(rng), "gjids": [gen_gjid(rng) for _ in range(rng.randint(1, 3))]},
           lambda v: _iq_node(v, "set", _G2, GROUP_DOMAIN, [N("leave", {"action": "delete"}, [N("group", {"id": g}) for g in v["gjids"]])]),
           lambda cls, v: _force_id(cls(list(v["gjids"])), v["id"]), res_groups_leave, _RES_G_LEAVE, True,
           forced=("_id",))
_out_group("out.iq.groups.list", "iq_groups_list", "ListGroupsIqProtocolEntity",
           lambda rng: {"id": gen_short_id(rng), "gtype": rng.choice(("participating", "owning"))},
           lambda v: _iq_node(v, "get", _G2, GROUP_DOMAIN, [N(v["gtype"])]),
           lambda cls, v: cls(v["gtype"], _id=v["id"]), res_groups_list, _RES_G_LIST, False)
_out_group("out.iq.groups.subject", "iq_groups_subject", "SubjectGroupsIqProtocolEntity",
           lambda rng: {"id": gen_short_id(rng), "gjid": gen_gjid(rng), "subject": gen_text(rng, 1, 25).encode("utf-8")},
           lambda v: _iq_node(v, "set", _G2, v["gjid"], [N("subject", {}, None, v["subject"])]),
           lambda cls, v: cls(v["gjid"], v["subject"], _id=v["id"]), res_plain(gen_gjid), _IQ_RESULT, True)


def _draw_participants(modes):
    def draw(rng):
        return {"id": gen_short_id(rng), "gjid": gen_gjid(rng), "jids": gen_jids(rng, 1, 4), "mode": rng.choice(modes)}
    return draw


def _participants_node(v):
    return _iq_node(v, "set", _G2, v["gjid"], [N(v["mode"], {}, _participants_nodes(v["jids"]))])


_out_group("out.iq.groups.participants", "iq_groups_participants", "ParticipantsGroupsIqProtocolEntity",
           _draw_participants(("add", "promote", "remove", "demote")), _participants_node,
           lambda cls, v: cls(v["gjid"], list(v["jids"]), v["mode"], _id=v["id"]),
           res_groups_participants, _RES_G_PARTS, False,
           notes="class docstring documents <iq type=get><list/></iq> (participant listing) and the layer wires it to "
                 "the participant-list result, but the constructor can only build the set/<mode> form")
_out_group("out.iq.groups.add", "iq_groups_participants_add", "AddParticipantsIqProtocolEntity",
           _draw_participants(("add",)), _participants_node,
           lambda cls, v: cls(v["gjid"], list(v["jids"]), _id=v["id"]), res_groups_change("add"), _RES_G_ADD, True)
_out_group("out.iq.groups.remove", "iq_groups_participants_remove", "RemoveParticipantsIqProtocolEntity",
           _draw_participants(("remove",)), _participants_node,
           lambda cls, v: cls(v["gjid"], list(v["jids"]), _id=v["id"]), res_groups_change("remove"), _RES_G_REMOVE, True)
_out_group("out.iq.groups.promote", "iq_groups_participants_promote", "PromoteParticipantsIqProtocolEntity",
           _draw_participants(("promote",)), _participants_node,
           lambda cls, v: cls(v["gjid"], list(v["jids"]), _id=v["id"]), res_plain(gen_gjid), _IQ_RESULT, True)
_out_group("out.iq.groups.demote", "iq_groups_participants_demote", "DemoteParticipantsIqProtocolEntity",
           _draw_participants(("demote",)), _participants_node,
           lambda cls, v: cls(v["gjid"], list(v["jids"]), _id=v["id"]), res_plain(gen_gjid), _IQ_RESULT, True)
BY_NAME_TMP = dict((k.name, k) for k in KINDS)
BY_NAME_TMP["out.iq.groups.add"].iq_reply["error_entity_class"] = _ERR_G_ADD

# --- media upload ------------------------------------------------------------

_UPLOAD = _p(_MEDIA_PE, "iq_requestupload", "RequestUploadIqProtocolEntity")


def _draw_upload(rng):
    import base64
    v = {"id": gen_short_id(rng), "type": rng.choice(("image", "video", "audio", "document")),
         "hash": base64.b64encode(gen_bytes(rng, 32, 32)).decode("ascii"), "size": rng.randint(1, 50000000)}
    v["orighash"] = base64.b64encode(gen_bytes(rng, 32, 32)).decode("ascii") if maybe(rng, 0.4) else None
    return v


def _upload_node(v):
    attrs = {"hash": v["hash"], "type": v["type"], "size": str(v["size"])}
    if v["orighash"]:
        attrs["orighash"] = v["orighash"]
    return _iq_node(v, "set", "w:m", DOMAIN, [N("encr_media", attrs)])


_out("out.iq.media.requestupload", L_MEDIA, _UPLOAD, "iq", _draw_upload, _upload_node,
     lambda v: _force_id(load_class(_UPLOAD)(v["type"], v["hash"], v["size"], v["orighash"]), v["id"]),
     module="media", forced=("_id",), iq_reply=_reply(res_upload, _RES_UPLOAD, L_MEDIA, True),
     notes="child tag is encr_media in the code, the class docstring still says <media>")

del BY_NAME_TMP
for _k in KINDS:
    if _k.iq_reply is not None:
        _k.iq_reply.setdefault("error_entity_class", _IQ_ERROR)

BY_NAME = dict((k.name, k) for k in KINDS)


# --------------------------------------------------------------------------- #
# kinds deliberately not covered here
# --------------------------------------------------------------------------- #

SKIPPED = [
    ("in.message.enc.pkmsg", "<message><enc type=pkmsg> needs axolotl session/prekey state; decrypted by AxolotlReceivelayer below the protocol layers"),
    ("in.message.enc.msg", "<enc type=msg> needs an established axolotl session"),
    ("in.message.enc.skmsg", "<enc type=skmsg> needs sender-key state of the group"),
    ("out.message.enc", "outgoing messages are turned into <enc> stanzas by AxolotlSendLayer; needs session state and key fetches"),
    ("in.notification.encrypt", "prekey count / identity change notifications are claimed by AxolotlControlLayer and need key stores"),
    ("in.receipt.retry", "retry receipts (<receipt type=retry><registration/>) are handled by the axolotl send layer against session state"),
    ("out.iq.encrypt.keys.get", "GetKeysIqProtocolEntity (xmlns encrypt) is issued by the axolotl layers, result carries prekey bundles"),
    ("in.iq.result.encrypt.keys", "ResultGetKeysIqProtocolEntity: prekey bundles, needs curve keys"),
    ("out.iq.encrypt.keys.set", "SetKeysIqProtocolEntity: uploads identity/signed prekey/prekeys generated from the key store"),
    ("in.stream:features/challenge/response/auth", "legacy WAUTH stanzas (auth, challenge, response entities exist but no layer sends or claims them; login is the noise handshake)"),
]


# --------------------------------------------------------------------------- #
# self check
# --------------------------------------------------------------------------- #

def _short(exc):
    s = "%s: %s" % (type(exc).__name__, exc)
    return s if len(s) < 240 else s[:240] + "..."


def _roundtrip(cls, node):
    """Returns (problems, type_notes, entity or None)."""
    try:
        e = cls.fromProtocolTreeNode(node)
    except Exception as exc:   # noqa
        return ["fromProtocolTreeNode raised " + _short(exc)], [], None
    if e is None:
        return ["fromProtocolTreeNode returned None"], [], None
    try:
        back = e.toProtocolTreeNode()
    except Exception as exc:   # noqa
        return ["toProtocolTreeNode raised " + _short(exc)], [], e
    if back is None:
        return ["toProtocolTreeNode returned None"], [], e
    diffs, notes = node_diff(back, node)
    if not diffs and not notes and not (back == node):
        diffs.append("ProtocolTreeNode.__eq__ is False although the strict comparison finds no difference")
    return diffs, notes, e


def check_kind(kind, seed, variant=None):
    """Run every self check of one kind for one seed. Returns a list of
    {"kind","variant","seed","check","what"} records (empty list: all fine).

    checks: wellformed  the catalogue's own nodes are well typed (a catalogue bug if it fails)
            roundtrip   in: fromProtocolTreeNode(node).toProtocolTreeNode() == node
            types       same, equal by value but a non-str attribute value was produced
            class       in: fromProtocolTreeNode gives an instance of entity_class
            app_ack     in: entity.ack() serialises to app_ack(node)
            serialise   out: make_entity(s).toProtocolTreeNode() == make_node(s)
            out-parse   out: fromProtocolTreeNode(make_node(s)).toProtocolTreeNode() == make_node(s)
            reply       out: iq_reply result/error stanzas carry the request id and parse with the named classes
    """
    recs = []

    def rec(check, what):
        recs.append({"kind": kind.name, "variant": variant, "seed": seed, "check": check, "what": what})

    node = kind.make_node(random.Random(seed), variant=variant) if kind.direction == "in" \
        else kind.make_node(random.Random(seed))
    for p in check_wellformed(node):
        rec("wellformed", p)
    if node.tag != kind.tag:
        rec("wellformed", "tag %r, kind says %r" % (node.tag, kind.tag))
    cls = load_class(kind.entity_class) if kind.entity_class else None

    if kind.direction == "in":
        if kind.reaction:
            for r in kind.reaction(node):
                for p in check_wellformed(r):
                    rec("wellformed", "reaction: " + p)
        if cls is not None:
            diffs, notes, e = _roundtrip(cls, node)
            if diffs:
                rec("roundtrip", "; ".join(diffs))
            if notes:
                rec("types", "; ".join(notes))
            if e is not None and not isinstance(e, cls):
                rec("class", "fromProtocolTreeNode gives %s, not an instance of %s" % (type(e).__name__, cls.__name__))
            if e is not None and kind.app_ack:
                for read in ((False, True) if node.tag == "message" else (False,)):
                    want = kind.app_ack(node, read)
                    try:
                        got = e.ack(read).toProtocolTreeNode() if node.tag == "message" else e.ack().toProtocolTreeNode()
                        d, n = node_diff(got, want)
                    except Exception as exc:   # noqa
                        d = ["ack() raised " + _short(exc)]
                    if d:
                        rec("app_ack", "; ".join(d))
        return recs

    # out
    try:
        e = kind.make_entity(random.Random(seed))
    except Exception as exc:   # noqa
        rec("serialise", "public constructor raised " + _short(exc))
        return recs
    try:
        got = e.toProtocolTreeNode()
        diffs, notes = node_diff(got, node)
    except Exception as exc:   # noqa
        diffs, notes = ["toProtocolTreeNode raised " + _short(exc)], []
    if diffs:
        rec("serialise", "; ".join(diffs))
    if notes:
        rec("types", "; ".join(notes))
    if "_type" in kind.forced:
        rec("serialise", "public constructor rejects the value, field had to be forced: " + ",".join(kind.forced))
    if e.getTag() != kind.tag:
        rec("serialise", "entity tag %r, kind says %r" % (e.getTag(), kind.tag))
    if hasattr(cls, "fromProtocolTreeNode"):
        diffs, notes, _ = _roundtrip(cls, node)
        if diffs:
            rec("out-parse", "; ".join(diffs))
    if kind.iq_reply:
        rep = kind.iq_reply
        for which, clsname in (("result", rep["result_entity_class"]), ("error", rep["error_entity_class"])):
            rn = rep[which](random.Random(seed), e)
            for p in check_wellformed(rn):
                rec("wellformed", "%s reply: %s" % (which, p))
            if rn["id"] != e.getId() or rn["type"] != which:
                rec("wellformed", "%s reply has id %r type %r for request id %r" % (which, rn["id"], rn["type"], e.getId()))
            rcls = load_class(clsname)
            try:
                re_ = rcls.fromProtocolTreeNode(rn)
                if re_ is None:
                    raise ValueError("returned None")
            except Exception as exc:   # noqa
                rec("reply", "%s reply not parseable by %s: %s" % (which, rcls.__name__, _short(exc)))
    return recs


def _dev_key(r):
    return (r["kind"], r.get("variant"), r["check"])


def selftest(seeds=50):
    """Run check_kind over all kinds/variants/seeds on the yowsup in sys.path.

    Returns {"kinds": n, "checked": n, "failures": [...], "known": [...], "known_not_reproduced": [...]}.
    failures: records NOT covered by KNOWN_DEVIATIONS (a wrong builder, or a change in yowsup);
    known: one record per KNOWN_DEVIATIONS entry that reproduced (first failing seed, number of failing seeds);
    known_not_reproduced: KNOWN_DEVIATIONS entries that did not fail on any seed (yowsup got fixed?)."""
    known = dict((_dev_key(d), d) for d in KNOWN_DEVIATIONS if d["check"] != "routing")
    hits = {}
    failures = []
    seen_fail = set()
    checked = 0
    for kind in KINDS:
        for variant in (None,) + (kind.variants if kind.direction == "in" else ()):
            for seed in range(seeds):
                checked += 1
                try:
                    recs = check_kind(kind, seed, variant)
                except Exception as exc:   # noqa
                    recs = [{"kind": kind.name, "variant": variant, "seed": seed, "check": "wellformed",
                             "what": "catalogue builder raised " + _short(exc)}]
                for r in recs:
                    k = _dev_key(r)
                    if k in known:
                        h = hits.setdefault(k, {"kind": r["kind"], "variant": r["variant"], "check": r["check"],
                                                "seed": r["seed"], "what": r["what"], "failing_seeds": 0})
                        h["failing_seeds"] += 1
                    elif k not in seen_fail:
                        seen_fail.add(k)
                        failures.append(r)
    return {"kinds": len(KINDS), "checked": checked, "failures": failures,
            "known": [hits[k] for k in known if k in hits],
            "known_not_reproduced": [known[k] for k in known if k not in hits]}




def _main():
    import sys
    seeds = int(sys.argv[1]) if len(sys.argv) > 1 else 50
    res = selftest(seeds)
    n_in = sum(1 for k in KINDS if k.direction == "in")
    print("kinds: %d (in %d, out %d), skipped %d, checks run: %d" % (
        res["kinds"], n_in, res["kinds"] - n_in, len(SKIPPED), res["checked"]))
    print("known deviations: %d listed, %d reproduced, %d not reproduced" % (
        len(KNOWN_DEVIATIONS), len(res["known"]), len(res["known_not_reproduced"])))
    for d in res["known_not_reproduced"]:
        print("  NOT REPRODUCED %s [%s] %s" % (d["kind"], d.get("variant"), d["check"]))
    print("unexpected failures: %d" % len(res["failures"]))
    for r in res["failures"]:
        print("  FAIL %s [%s] seed %d %s: %s" % (r["kind"], r["variant"], r["seed"], r["check"], r["what"][:300]))
    return 1 if res["failures"] or res["known_not_reproduced"] else 0


# --------------------------------------------------------------------------- #
# Known deviations of the UNMODIFIED yowsup tree from the documented shapes.
# Every entry was produced by selftest()/catalogue_selftest.py, seed = first failing seed
# (make_node(random.Random(seed), variant=variant)).  check: see check_kind(); "routing" entries
# need the layers and are reproduced by catalogue_selftest.py, not by selftest().
# --------------------------------------------------------------------------- #

def _dev(kind, variant, seed, check, what):
    assert kind in BY_NAME, kind
    return {"kind": kind, "variant": variant, "seed": seed, "check": check, "what": what}


KNOWN_DEVIATIONS = []

# -- families: one cause, many kinds ------------------------------------------
for _k in KINDS:
    if _k.direction != "in" or not _k.entity_class:
        continue
    if "no_offline" in _k.variants:
        KNOWN_DEVIATIONS.append(_dev(
            _k.name, "no_offline", 0, "roundtrip",
            "offline attribute absent on input is written back as offline=\"0\" (%s stores offline as bool, "
            "absent is not distinguished from \"0\")" % (
                "MessageMetaAttributes" if _k.tag == "message" else
                "CallProtocolEntity" if _k.tag == "call" else "NotificationProtocolEntity")))
    if "no_notify" in _k.variants:
        KNOWN_DEVIATIONS.append(_dev(
            _k.name, "no_notify", 0, "roundtrip",
            "notify attribute absent on input: NotificationProtocolEntity.toProtocolTreeNode writes notify=None "
            "(a None attribute value, not encodable)"))
    if "with_participant" in _k.variants:
        KNOWN_DEVIATIONS.append(_dev(
            _k.name, "with_participant", 0, "roundtrip",
            "participant attribute of a non-group notification is dropped by the entity (the layer's ack still copies "
            "it from the node)"))
    if _k.entity_class == _IQ_RESULT:
        KNOWN_DEVIATIONS.append(_dev(
            _k.name, None, 0, "class",
            "ResultIqProtocolEntity has no fromProtocolTreeNode of its own: the inherited one returns a plain "
            "IqProtocolEntity, so the entity surfaced for this result is not a ResultIqProtocolEntity"))
for _k in ("in.ack.message", "in.ack.receipt", "in.ack.notification"):
    KNOWN_DEVIATIONS.append(_dev(_k, "no_t", 0, "roundtrip",
                                 "IncomingAckProtocolEntity writes t=None when the ack has no t attribute"))
for _k in ("in.stream:error.conflict", "in.stream:error.ack", "in.stream:error.xml-not-well-formed"):
    KNOWN_DEVIATIONS.append(_dev(
        _k, None, 0, "roundtrip",
        "StreamErrorProtocolEntity.toProtocolTreeNode calls ProtocolEntity.toProtocolTreeNode (returns None) and then "
        "None.addChild -> AttributeError for every stream:error"))
for _k in ("in.ib.dirty", "in.ib.offline"):
    KNOWN_DEVIATIONS.append(_dev(_k, "with_from", 0, "roundtrip",
                                 "from=\"s.whatsapp.net\" of <ib> (documented for offline/account ib) is dropped"))
for _k in ("in.message.media.video", "in.message.media.gif"):
    KNOWN_DEVIATIONS.append(_dev(
        _k, "optional_fields_absent", 0, "roundtrip",
        "proto_to_video reads absent optional proto2 fields (gif_playback, jpeg_thumbnail, gif_attribution, caption, "
        "streaming_sidecar) as their defaults and video_to_proto writes them back as explicitly set: payload bytes change"))
for _k in ("in.iq.result.groups.add", "in.iq.result.groups.remove"):
    KNOWN_DEVIATIONS.append(_dev(
        _k, "with_failed_participant", 0, "roundtrip",
        "children whose type is not \"success\" (participants the server refused) are silently dropped"))
for _k in ("out.iq.groups.add", "out.iq.groups.remove", "out.iq.groups.promote", "out.iq.groups.demote"):
    KNOWN_DEVIATIONS.append(_dev(
        _k, None, 0, "out-parse",
        "fromProtocolTreeNode calls ParticipantsGroupsIqProtocolEntity.setProps(jid, participants) without the "
        "required mode argument -> TypeError"))
for _k in ("out.iq.push", "out.iq.props"):
    KNOWN_DEVIATIONS.append(_dev(
        _k, None, 0, "out-parse",
        "class has no fromProtocolTreeNode: the inherited one gives a plain IqProtocolEntity, child node lost"))

# -- single entries -------------------------------------------------------------
KNOWN_DEVIATIONS += [
    _dev("in.ib.account", None, 0, "roundtrip",
         "AccountIbProtocolEntity.fromProtocolTreeNode has no return statement: returns None (YowIbProtocolLayer then "
         "passes None upwards); toProtocolTreeNode would also write creation/expiration as int"),
    _dev("in.ib.account", "with_from", 0, "roundtrip", "same as the default variant: fromProtocolTreeNode returns None"),
    _dev("in.message.media.sticker", "optional_fields_absent", 0, "roundtrip",
         "absent png_thumbnail is read as b\"\" and written back as an explicitly set empty field: payload bytes change"),
    _dev("in.message.media.location", "with_skdm", 0, "roundtrip",
         "location_to_proto assigns location_message._axolotl_sender_key_distribution_message (leading underscore) -> "
         "AttributeError when a location carries axolotl_sender_key_distribution_message"),
    _dev("in.call.other", "unknown_child", 0, "roundtrip",
         "a <call> child other than offer/transport/relaylatency/reject/terminate is dropped (type None, no child written)"),
    _dev("in.notification.w:gp2.create", None, 0, "types",
         "CreateGroupsNotificationProtocolEntity writes group attribute s_t as int instead of str"),
    _dev("in.notification.w:gp2.create", "no_offline", 0, "types", "s_t written as int (see default variant)"),
    _dev("in.notification.w:gp2.create", "no_notify", 0, "types", "s_t written as int (see default variant)"),
    _dev("in.iq.result.groups.info", None, 0, "types",
         "InfoGroupsResultIqProtocolEntity writes group attribute s_t as int instead of str"),
    _dev("in.iq.result.sync", "last_false", 0, "roundtrip",
         "sync last=\"false\" is kept as the (truthy) string and written back as last=\"true\""),
    _dev("in.iq.result.picture.get", None, 0, "roundtrip",
         "ResultGetPictureIqProtocolEntity.toProtocolTreeNode builds ProtocolTreeNode({\"type\": ...}, data=...): the "
         "attribute dict is passed as the TAG, picture id and type attributes are lost"),
    _dev("in.iq.result.picture.set", None, 0, "roundtrip",
         "same ResultGetPictureIqProtocolEntity.toProtocolTreeNode defect (dict used as tag, id lost); a result without "
         "<picture> child would raise AttributeError in fromProtocolTreeNode"),
    _dev("in.iq.result.privacy", None, 0, "roundtrip",
         "ResultPrivacyIqProtocolEntity.toProtocolTreeNode writes an empty <privacy/>: all <category> children lost"),
    _dev("out.iq.crypto", None, 0, "serialise",
         "CryptoIqProtocolEntity.toProtocolTreeNode uses str.decode('hex') (python 2 only) -> AttributeError"),
    _dev("out.iq.crypto", None, 0, "out-parse", "no fromProtocolTreeNode of its own: <crypto> child lost"),
    _dev("out.iq.crypto", None, 0, "routing", "YowIqProtocolLayer.sendIq raises the AttributeError above, nothing is sent"),
    _dev("out.iq.picture.delete", None, 0, "serialise",
         "IqProtocolEntity asserts type in (set,get,result,error): an iq of type \"delete\" cannot be constructed, the "
         "delete branch of YowProfilesProtocolLayer.sendIq is unreachable through the public API (make_entity forces _type)"),
    _dev("out.iq.picture.delete", None, 0, "out-parse", "fromProtocolTreeNode asserts on type \"delete\""),
    _dev("out.iq.unregister", None, 0, "routing",
         "UnregisterIqProtocolEntity has xmlns None on the iq: no layer's sendIq accepts it, the entity is silently "
         "dropped (0 stanzas at the bottom)"),
    _dev("in.notification.picture.other", None, 0, "routing",
         "YowNotificationsProtocolLayer raises ValueError for a picture notification without set/delete child and "
         "never sends the mandatory ack"),
    _dev("in.ib.account", None, 0, "routing", "YowIbProtocolLayer passes None (see roundtrip entry) to the upper layer"),
    _dev("out.message.media.video", None, 0, "out-parse",
         "optional video fields not given to the constructor come back explicitly set after fromProtocolTreeNode "
         "(same cause as in.message.media.video/optional_fields_absent)"),
    _dev("out.message.media.sticker", None, 4, "out-parse", "absent png_thumbnail comes back as explicitly set b\"\""),
    _dev("out.receipt.read.list", None, 0, "out-parse",
         "OutgoingReceiptProtocolEntity.fromProtocolTreeNode calls listNode.getChildren(), which ProtocolTreeNode does "
         "not have -> AttributeError"),
    _dev("out.receipt.call", None, 0, "out-parse", "fromProtocolTreeNode ignores the <offer call-id=> child"),
    _dev("out.iq.lastseen", None, 0, "out-parse",
         "LastseenIqProtocolEntity.fromProtocolTreeNode does not pass the id: a fresh id is generated"),
    _dev("out.iq.sync.get", None, 3, "out-parse", "sync last=\"false\" parsed as truthy string, written back as \"true\""),
    _dev("out.iq.picture.get", None, 2, "out-parse",
         "GetPictureIqProtocolEntity.fromProtocolTreeNode stores the type string as the preview flag: \"image\" is truthy "
         "and becomes \"preview\""),
    _dev("out.iq.privacy.set", None, 0, "out-parse",
         "SetPrivacyIqProtocolEntity.fromProtocolTreeNode always sets value \"all\""),
    _dev("out.iq.groups.participants", None, 0, "out-parse",
         "ParticipantsGroupsIqProtocolEntity.fromProtocolTreeNode never sets participantList/mode -> AttributeError in "
         "toProtocolTreeNode; the class docstring documents <iq type=get><list/></iq>, which the constructor cannot build"),
]


if __name__ == "__main__":
    raise SystemExit(_main())
