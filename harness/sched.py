"""Deterministic thread scheduler (mechanism D).  Real OS threads, but exactly one managed thread runs at a time; every synchronisation
operation of the code under test (Lock acquire/release, Queue put/get/qsize, Thread start) is a yield point at which the scheduler chooses
which thread continues.  A blocked operation (lock held, queue empty) disables its thread; 'no thread enabled and not all finished' is a
detected deadlock, never a hang.  The code under test sees these objects through module-level names rebound by install()."""
import threading as _th
import queue as _q
import sys, types

_real_Lock = _th.Lock
_real_Thread = _th.Thread


class Deadlock(Exception):
    pass


class Killed(BaseException):
    pass


class MThread(object):
    def __init__(self, sched, name, fn):
        self.sched, self.name, self.fn = sched, name, fn
        self.sem = _th.Semaphore(0)
        self.pending = ("start", name)
        self.finished = False
        self.error = None
        self.real = _real_Thread(target=self._run, name="verif-" + name)
        self.real.daemon = True

    def _run(self):
        self.sem.acquire()
        if self.sched.killing:
            self.finished = True
            self.sched.ctl.release()
            return
        try:
            self.fn()
        except Killed:
            pass
        except BaseException as e:     # noqa
            self.error = e
        self.finished = True
        self.pending = None
        self.sched.current = None
        self.sched.ctl.release()


class Scheduler(object):
    def __init__(self):
        self.threads = []          # MThread, in creation order
        self.by_ident = {}
        self.ctl = _th.Semaphore(0)
        self.current = None
        self.trace = []            # (thread name, op) in execution order
        self.killing = False
        self.nlocks = 0
        self.names = {}

    # ---- called from managed threads
    def me(self):
        return self.by_ident.get(_th.get_ident())

    def yield_point(self, op):
        t = self.me()
        if t is None:
            return False           # unmanaged context (set-up code on the controller thread): no scheduling
        t.pending = op
        self.current = None
        self.ctl.release()
        t.sem.acquire()
        if self.killing:
            raise Killed()
        return True

    def wait_until(self, name, pred):
        """Park the calling managed thread until pred() holds (evaluated by the scheduler between steps)."""
        self.yield_point(("wait", name, pred))

    def spawn(self, name, fn):
        t = MThread(self, name, fn)
        self.threads.append(t)
        t.real.start()
        self.by_ident[t.real.ident] = t
        return t

    # ---- enabledness
    def enabled(self, t):
        op = t.pending
        if t.finished or op is None:
            return False
        k = op[0]
        if k == "acquire":
            return not op[2].held or op[2].owner == t.name
        if k == "get":
            return len(op[2].items) > 0
        if k == "wait":
            return bool(op[2]())       # harness threads park on a predicate instead of spinning
        return True

    def runnable(self):
        return [t for t in self.threads if self.enabled(t)]

    def unfinished(self):
        return [t for t in self.threads if not t.finished]

    def step(self, t):
        """Let thread t perform its pending operation and run to its next yield point (or finish)."""
        op = t.pending
        self.trace.append((t.name, self.describe(op)))
        self.current = t
        t.sem.release()
        self.ctl.acquire()
        return op

    def describe(self, op):
        if op is None:
            return None
        k = op[0]
        if k in ("acquire", "release", "tryacquire"):
            return (k, op[1])
        if k in ("put", "get", "qsize", "wait"):
            return (k, op[1])
        return tuple(str(x) for x in op[:2])

    def run(self, chooser, max_steps=100000):
        """chooser(runnable threads, scheduler) -> thread.  Runs until all managed threads have finished.  Raises Deadlock."""
        n = 0
        while True:
            if not self.unfinished():
                return n
            r = self.runnable()
            if not r:
                raise Deadlock("blocked: " + ", ".join("%s@%s" % (t.name, self.describe(t.pending)) for t in self.unfinished()))
            t = chooser(r, self)
            if t is None:
                return n
            self.step(t)
            n += 1
            if n > max_steps:
                raise Deadlock("step limit")

    def quiesce(self, chooser=None, max_steps=100000):
        """Run until no managed thread can make a step (threads parked on locks / queues / predicates may remain)."""
        n = 0
        while True:
            r = self.runnable()
            if not r:
                return n
            t = chooser(r, self) if chooser else r[0]
            self.step(t)
            n += 1
            if n > max_steps:
                raise Deadlock("step limit while waiting for quiescence")

    def kill(self):
        """Unblock and discard all parked threads (end of a run)."""
        self.killing = True
        for t in self.threads:
            if not t.finished:
                t.sem.release()
        for t in self.threads:
            t.real.join(2.0)

    # ---- cooperative primitives
    def Lock(self, name=None):
        self.nlocks += 1
        return CoopLock(self, name or "lock%d" % self.nlocks)

    def RLock(self, name=None):
        self.nlocks += 1
        return CoopRLock(self, name or "rlock%d" % self.nlocks)

    def Queue(self, name=None):
        self.nlocks += 1
        return CoopQueue(self, name or "queue%d" % self.nlocks)


class CoopLock(object):
    def __init__(self, sched, name):
        self.sched, self.name = sched, name
        self.held = False
        self.owner = None

    def acquire(self, blocking=True, timeout=-1):
        s = self.sched
        if s.me() is None:
            if self.held:
                raise Deadlock("unmanaged acquire of held lock %s" % self.name)
            self.held, self.owner = True, "<main>"
            return True
        if not blocking or (timeout is not None and timeout >= 0):
            # a non-blocking / timed acquire: always schedulable; it fails (times out) if the lock is held when it runs -
            # a timeout may expire whenever the holder is slow, so every such outcome is explored
            s.yield_point(("tryacquire", self.name, self))
            if self.held:
                return False
            self.held, self.owner = True, s.me().name
            return True
        s.yield_point(("acquire", self.name, self))
        assert not self.held
        self.held, self.owner = True, s.me().name
        return True

    def release(self):
        s = self.sched
        if not self.held:
            raise RuntimeError("release unlocked lock")
        # uniform rule: a thread parks BEFORE each synchronisation operation and performs it when scheduled
        s.yield_point(("release", self.name, self))
        self.held, self.owner = False, None

    def locked(self):
        return self.held

    __enter__ = acquire

    def __exit__(self, *a):
        self.release()


class CoopRLock(CoopLock):
    """Re-entrant variant: the owning thread may acquire again without blocking."""
    def __init__(self, sched, name):
        CoopLock.__init__(self, sched, name)
        self.count = 0

    def acquire(self, blocking=True, timeout=-1):
        me = self.sched.me()
        who = me.name if me else "<main>"
        if self.held and self.owner == who:
            self.count += 1
            return True
        r = CoopLock.acquire(self, blocking, timeout)
        if r:
            self.count = 1
        return r

    def release(self):
        if self.count > 1:
            self.count -= 1
            return
        self.count = 0
        CoopLock.release(self)

    __enter__ = acquire


class CoopQueue(object):
    def __init__(self, sched, name):
        self.sched, self.name = sched, name
        self.items = []

    def put(self, item, block=True, timeout=None):
        self.sched.yield_point(("put", self.name, self))
        self.items.append(item)

    def get(self, block=True, timeout=None):
        if self.sched.me() is None:
            if not self.items:
                raise _q.Empty()
            return self.items.pop(0)
        if not block and not self.items:
            raise _q.Empty()
        self.sched.yield_point(("get", self.name, self))
        return self.items.pop(0)

    def qsize(self):
        self.sched.yield_point(("qsize", self.name, self))
        return len(self.items)

    def empty(self):
        return not self.items


def shim_module(real, **over):
    m = types.ModuleType(real.__name__ + "_verif")
    m.__dict__.update(real.__dict__)
    m.__dict__.update(over)
    return m


class Installation(object):
    """Rebinds Lock / Queue / Thread.start in the namespaces of the code under test for one scheduler; undo() restores."""
    def __init__(self, sched):
        import queue
        import yowsup.layers as L
        import yowsup.layers.noise.layer as NL
        import yowsup.layers.noise.workers.handshake as HW
        import consonance.streams.segmented.blockingqueue as BQ
        self.saved = []
        names = {"n": 0}

        def lock_factory():
            # layer locks are created in YowLayer.__init__: name them by creation order, the driver renames them per layer
            return sched.Lock()

        def queue_factory(*a, **k):
            return sched.Queue()
        th = shim_module(_th, Lock=lock_factory, RLock=lambda: sched.RLock())
        qm = shim_module(queue, Queue=queue_factory)
        self._set(L, "threading", th)
        self._set(NL, "threading", th)
        self._set(NL, "Queue", qm)
        self._set(BQ, "Queue", qm)
        cls = HW.WANoiseProtocolHandshakeWorker
        self.saved.append((cls, "start", cls.__dict__.get("start", None)))

        def coop_start(worker):
            n = sum(1 for t in sched.threads if t.name.startswith("worker")) + 1
            worker._verif_thread = sched.spawn("worker%d" % n, worker.run)
            sched.yield_point(("spawned", "worker%d" % n))
        cls.start = coop_start
        self.saved.append((cls, "join", cls.__dict__.get("join", None)))

        def coop_join(worker, timeout=None):
            # joining the handshake thread = waiting (cooperatively) until its managed thread has finished; a timed join gives up at once
            t = getattr(worker, "_verif_thread", None)
            if t is None or timeout is not None:
                return
            sched.wait_until(("join", t.name), lambda: t.finished)
        cls.join = coop_join
        self.saved.append((cls, "is_alive", cls.__dict__.get("is_alive", None)))
        cls.is_alive = lambda worker: any(t.name.startswith("worker") and not t.finished for t in sched.threads)

    def _set(self, mod, name, val):
        self.saved.append((mod, name, getattr(mod, name)))
        setattr(mod, name, val)

    def undo(self):
        for obj, name, val in reversed(self.saved):
            if val is None and isinstance(obj, type):
                try:
                    delattr(obj, name)
                except AttributeError:
                    pass
            else:
                setattr(obj, name, val)
