"""Profiles, managers and small prekey batches on a private config root (shared by C06/C07 encryption rigs, C14, C03, C17)."""
import os, shutil, tempfile


class Roots(object):
    """Private XDG_CONFIG_HOME roots; removed on close()."""
    def __init__(self, base=None):
        base = base or ("/dev/shm" if os.path.isdir("/dev/shm") and os.access("/dev/shm", os.W_OK) else None)
        self.root = tempfile.mkdtemp(prefix="verif_e2e_", dir=base)
        self.old = os.environ.get("XDG_CONFIG_HOME")
        os.environ["XDG_CONFIG_HOME"] = self.root

    def close(self):
        if self.old is None:
            os.environ.pop("XDG_CONFIG_HOME", None)
        else:
            os.environ["XDG_CONFIG_HOME"] = self.old
        shutil.rmtree(self.root, ignore_errors=True)


def small_batches(count=4, threshold=2):
    from yowsup.axolotl.manager import AxolotlManager
    AxolotlManager.COUNT_GEN_PREKEYS = count
    AxolotlManager.THRESHOLD_REGEN = threshold


def make_profile(phone, name=None):
    """A YowProfile with an in-memory Config (so no config file is needed) whose key store lives under the private root.
    name: the profile's name when it is not the phone number (an application may call a profile anything)."""
    from yowsup.profile.profile import YowProfile
    from yowsup.config.v1.config import Config
    from consonance.structs.keypair import KeyPair
    cfg = Config(phone=phone, cc="49", client_static_keypair=KeyPair.generate(), pushname="verif")
    return YowProfile(name or phone, cfg)
