"""C19 - account configuration.  Spec: ConfigStore.tla; binding A (edge replay) + E (crash injection at every file-system operation)."""
import base64, json, os, random, shutil, tempfile, builtins
from harness import core

PROFILE = "4915770000001"
FIELDS = ["phone", "cc", "login", "pushname", "id", "mcc", "mnc", "sim_mcc", "sim_mnc", "client_static_keypair",
          "server_static_public", "expid", "fdid", "edge_routing_info", "chat_dns_domain"]


class _CrashNow(BaseException):
    pass


class FS(object):
    """Intercepts the file-system operations of yowsup.common.tools / yowsup.config.manager; every operation is a boundary
    at which the whole config root can be snapshotted (flushed and unflushed variants)."""
    def __init__(self, root):
        import yowsup.common.tools as tools
        import yowsup.config.manager as manager
        self.root = root
        self.count = 0
        self.kinds = []
        self.hook = None
        self.openfiles = []
        fs = self

        class FileProxy(object):
            def __init__(self, f, path, mode):
                self._f, self._path, self._mode = f, path, mode

            def write(self, data):
                if len(data) > 1:
                    fs.boundary("write-begin")
                    h = len(data) // 2
                    self._f.write(data[:h])
                    fs.boundary("write-mid")
                    r = self._f.write(data[h:])
                    fs.boundary("write-end")
                    return r
                return self._f.write(data)

            def close(self):
                fs.boundary("close")
                if self in fs.openfiles:
                    fs.openfiles.remove(self)
                return self._f.close()

            def __enter__(self):
                return self

            def __exit__(self, *a):
                self.close()
                return False

            def __getattr__(self, n):
                return getattr(self._f, n)

        def wrap_file(f, path, mode):
            if any(c in mode for c in "wax+"):
                p = FileProxy(f, path, mode)
                fs.openfiles.append(p)
                return p
            return f

        def open_proxy(path, mode="r", *a, **kw):
            if any(c in mode for c in "wax+"):
                fs.boundary("open:" + mode)
            return wrap_file(builtins.open(path, mode, *a, **kw), path, mode)

        class OsProxy(object):
            def __getattr__(self, n):
                real = getattr(os, n)
                if n in ("replace", "rename", "remove", "unlink", "makedirs", "mkdir", "fsync", "truncate", "link"):
                    def w(*a, **kw):
                        fs.boundary("os." + n)
                        return real(*a, **kw)
                    return w
                if n == "fdopen":
                    def fd(fdn, mode="r", *a, **kw):
                        return wrap_file(real(fdn, mode, *a, **kw), None, mode)
                    return fd
                return real

        class TempProxy(object):
            def __getattr__(self, n):
                real = getattr(tempfile, n)
                if n in ("NamedTemporaryFile", "mkstemp", "TemporaryFile"):
                    def w(*a, **kw):
                        fs.boundary("tempfile." + n)
                        r = real(*a, **kw)
                        if n == "NamedTemporaryFile":
                            return wrap_file(r, getattr(r, "name", None), kw.get("mode", "w+b"))
                        return r
                    return w
                return real
        class ShutilProxy(object):
            """shutil.move / copy*: a rename when source and destination are on one file system (atomic), otherwise what shutil really does -
            the destination is opened for writing (truncated) and filled piecemeal, then the source is removed - with a boundary at each step."""
            def __getattr__(self, n):
                real = getattr(shutil, n)
                if n not in ("move", "copy", "copyfile", "copy2"):
                    return real

                def w(src, dst, *a, **kw):
                    target = os.path.join(dst, os.path.basename(src)) if os.path.isdir(dst) else dst
                    same_fs = os.stat(src).st_dev == os.stat(os.path.dirname(os.path.abspath(target)) or ".").st_dev
                    if n == "move" and same_fs:
                        fs.boundary("shutil.move(rename)")
                        return real(src, dst, *a, **kw)
                    fs.boundary("shutil.%s(open destination)" % n)
                    data = builtins.open(src, "rb").read()
                    f = builtins.open(target, "wb")
                    try:
                        fs.boundary("shutil.%s(copy-begin)" % n)
                        f.write(data[:len(data) // 2])
                        f.flush()
                        fs.boundary("shutil.%s(copy-mid)" % n)
                        f.write(data[len(data) // 2:])
                        f.flush()
                        fs.boundary("shutil.%s(copy-end)" % n)
                    finally:
                        f.close()
                    if n == "move":
                        fs.boundary("shutil.move(remove source)")
                        os.unlink(src)
                    return target
                return w
        for m in (tools, manager):
            m.open = open_proxy
            m.os = OsProxy()
            if hasattr(m, "tempfile") or m is tools:
                m.tempfile = TempProxy()
            if hasattr(m, "shutil"):
                m.shutil = ShutilProxy()

    def boundary(self, kind):
        if self.hook is not None:
            self.hook(self.count, kind)
        self.count += 1
        self.kinds.append(kind)

    def flush_all(self):
        for p in list(self.openfiles):
            try:
                p._f.flush()
            except Exception:
                pass


def gen_config(rng, fmt, subset=None):
    from yowsup.config.v1.config import Config
    from consonance.structs.keypair import KeyPair
    from consonance.structs.publickey import PublicKey

    def text():
        c = rng.random()
        if fmt == "keyval":
            pool = u"abcXYZ 012-_.@=é€ü\"'\\/:,{}[]"
            if c < 0.25:
                pool += u"\x0b\x0c\x1c\x1e\x85\u2028\u2029\t"      # separators other than the line feed are ordinary value characters
            s = "".join(rng.choice(pool) for _ in range(rng.randint(1, 12))).strip()
            return s or "x"
        pool = u"abc XYZ012\"\\\n\t#;=é€ü中\U0001f600{}[]:,"
        if c < 0.2:
            pool += u"\ud83d"        # arbitrary unicode includes an unpaired surrogate (an emoji cut in half by a length limit)
        return "".join(rng.choice(pool) for _ in range(rng.randint(0, 12)))
    digits = lambda n: "".join(rng.choice("0123456789") for _ in range(n))
    vals = {
        "phone": "49" + digits(11), "cc": (rng.choice([49, 1, 972]) if fmt == "json" and rng.random() < 0.5 else rng.choice(["49", "1"])),
        "login": "49" + digits(11), "pushname": text(), "id": bytes(bytearray(rng.getrandbits(8) for _ in range(20))),
        "mcc": digits(3), "mnc": digits(3), "sim_mcc": digits(3), "sim_mnc": digits(3),
        "client_static_keypair": KeyPair.generate(), "server_static_public": PublicKey(bytes(bytearray(rng.getrandbits(8) for _ in range(32)))),
        "expid": bytes(bytearray(rng.getrandbits(8) for _ in range(16))), "fdid": "%08x-%04x-4000-8000-%012x" % (rng.getrandbits(32), rng.getrandbits(16), rng.getrandbits(48)),
        "edge_routing_info": bytes(bytearray(rng.getrandbits(8) for _ in range(rng.randint(1, 40)))), "chat_dns_domain": rng.choice(["fb", "wa", text() or "d"]),
    }
    if subset is None:
        mode = rng.random()
        if mode < 0.25:
            subset = set(FIELDS)
        elif mode < 0.4:
            subset = set([rng.choice(FIELDS)])
        else:
            subset = set(f for f in FIELDS if rng.random() < 0.5)
        subset |= set(["phone", "client_static_keypair"]) if rng.random() < 0.8 else set()
    return Config(**{k: v for k, v in vals.items() if k in subset})


def cfg_key(c):
    """Comparable projection of a Config: every field, keys as bytes."""
    if c is None:
        return None
    out = {}
    for f in FIELDS + ["password"]:
        v = getattr(c, f)
        if f == "client_static_keypair" and v is not None:
            v = ("keypair", bytes(v.private.data), bytes(v.public.data))
        elif f == "server_static_public" and v is not None:
            v = ("pub", bytes(v.data))
        out[f] = v
    return out


def load_from(root, what, profile_only=False):
    from yowsup.config.manager import ConfigManager
    old = os.environ.get("XDG_CONFIG_HOME")
    os.environ["XDG_CONFIG_HOME"] = root
    try:
        try:
            return ("ok", cfg_key(ConfigManager().load(what, profile_only)))
        except Exception as e:
            return ("error", "%s: %s" % (type(e).__name__, e))
    finally:
        if old is None:
            os.environ.pop("XDG_CONFIG_HOME", None)
        else:
            os.environ["XDG_CONFIG_HOME"] = old


def replay_path(run, fs, g, path, rng, base):
    from yowsup.config.manager import ConfigManager
    init, steps = g.path_steps(path)
    root = tempfile.mkdtemp(prefix="cfg_", dir=base)
    os.environ["XDG_CONFIG_HOME"] = root
    from appdirs import user_config_dir
    pdir = os.path.join(user_config_dir("yowsup"), PROFILE)
    if init["dir"]:
        os.makedirs(pdir)
    else:
        os.makedirs(os.path.dirname(pdir), exist_ok=True) if rng.random() < 0.5 else None
    prev = None
    trail = []
    ok = True
    for act, to in steps:
        if act["name"] != "BeginSave":
            continue
        fmt = act["fmt"]
        cfg = gen_config(rng, fmt)
        want = cfg_key(cfg)
        stype = ConfigManager.TYPE_JSON if fmt == "json" else ConfigManager.TYPE_KEYVAL
        trail.append({"save": fmt, "fields": sorted(k for k, v in want.items() if v is not None), "fresh_dir": not os.path.isdir(pdir)})
        snaps = []
        # Crash points are snapshots of the directory tree at every file-system operation.  Two passes: first the save runs on a COPY of the
        # tree and the snapshots take what is on disk as it is (data still in the writer's buffer is lost with the process); then it runs on
        # the real tree and the snapshots are taken after flushing open files (the other extreme).  Flushing is a side effect on the run
        # itself, hence the separate passes.
        err = None
        for phase in ("unflushed", "flushed"):
            live = root
            if phase == "unflushed":
                live = tempfile.mkdtemp(prefix="dry_", dir=base)
                shutil.rmtree(live)
                shutil.copytree(root, live)
                os.environ["XDG_CONFIG_HOME"] = live

            def hook(i, kind, snaps=snaps, phase=phase, live=live):
                if phase == "flushed":
                    fs.flush_all()
                d = tempfile.mkdtemp(prefix="snap_", dir=base)
                shutil.rmtree(d)
                shutil.copytree(live, d)
                snaps.append((i, kind, phase, d))
            fs.count, fs.kinds, fs.hook, fs.openfiles = 0, [], hook, []
            # JSON saves alternate between the manager API and YowProfile.write_config (what the stack itself calls when the server key changes)
            via_profile = fmt == "json" and len(trail) % 2 == 0
            trail[-1]["api"] = "YowProfile.write_config" if via_profile else "ConfigManager.save"
            try:
                if via_profile:
                    from yowsup.profile.profile import YowProfile
                    YowProfile(PROFILE).write_config(cfg)
                else:
                    ConfigManager().save(PROFILE, cfg, stype)
            except Exception as e:
                err = e
            fs.hook = None
            if phase == "unflushed":
                os.environ["XDG_CONFIG_HOME"] = root
                shutil.rmtree(live, ignore_errors=True)
        if err is not None:
            run.violation("save:exception:%s:%s" % (type(err).__name__, "fresh-profile" if trail[-1]["fresh_dir"] else "existing-profile"),
                          "save(%s) raised %r (history %s)" % (fmt, err, trail), {"trail": trail})
            ok = False
        # crash at every file-system operation boundary
        for i, kind, variant, d in snaps:
            st, got = load_from(d, PROFILE)
            run.case(("crash", len(trail), i, variant, fmt, json.dumps(trail[-1]["fields"])))
            good = st == "ok" and (got == prev or got == want)
            if not good and ok:
                lost = prev is not None and (st == "error" or got is None)
                run.violation("crash:%s:%s" % ("config-lost" if lost else ("unloadable" if st == "error" else "wrong-config"), fmt),
                              "process death before file operation #%d (%s, %s) of save(%s): profile loads as %s; previous config %s" % (
                                  i, kind, variant, fmt, got if st == "error" else ("nothing" if got is None else "a different config"),
                                  "existed" if prev is not None else "did not exist"), {"trail": trail, "boundary": i, "op": kind, "ops": fs.kinds})
                ok = False
            # a save interrupted there is simply made again after the restart: the same save, completed in that tree, is what loads
            if good and ok and variant == "flushed":
                os.environ["XDG_CONFIG_HOME"] = d
                fs.hook = None
                try:
                    ConfigManager().save(PROFILE, cfg, stype)
                    st2, got2 = load_from(d, PROFILE)
                except Exception as e:
                    st2, got2 = "error", "%s: %s" % (type(e).__name__, e)
                finally:
                    os.environ["XDG_CONFIG_HOME"] = root
                run.case(("resave-after-crash", len(trail), i, fmt))
                if st2 != "ok" or got2 != want:
                    run.violation("crash:resave:%s" % fmt, "process death before file operation #%d (%s) of save(%s), then the same save made again and completed: the profile loads as %s" % (
                        i, kind, fmt, got2 if st2 == "error" else ("nothing" if got2 is None else "a different (the old) config")), {"trail": trail, "boundary": i, "op": kind})
                    ok = False
            shutil.rmtree(d, ignore_errors=True)
        if err is None:
            for what, label in ((PROFILE, "profile-name"), (PROFILE, "YowProfile.config")):
                if label == "YowProfile.config":
                    try:
                        from yowsup.profile.profile import YowProfile
                        st, got = "ok", cfg_key(YowProfile(PROFILE).config)
                    except Exception as e:
                        st, got = "error", "%s: %s" % (type(e).__name__, e)
                else:
                    st, got = load_from(root, what)
                run.case(("load", fmt, label, json.dumps(trail[-1]["fields"]), len(trail)))
                if st != "ok" or got != want:
                    diff = [k for k in want if st == "ok" and got is not None and got.get(k) != want[k]]
                    run.violation("roundtrip:%s:%s" % (fmt, label), "save(%s) then load by %s gives %s (differing fields %s; history %s)" % (
                        fmt, label, got if st == "error" else ("nothing" if got is None else "a different config"), diff, trail), {"trail": trail})
                    ok = False
            prev = want
        if not ok:
            break
    shutil.rmtree(root, ignore_errors=True)
    return ok


def fresh_config_home(run, rng, base):
    """The very first save on a machine: the user's configuration home does not exist yet (nor does anything below it).  Saving a never-used
    profile creates what is missing; the configuration is then loaded by profile name."""
    from yowsup.config.manager import ConfigManager
    old = os.environ.get("XDG_CONFIG_HOME")
    try:
        for i, (fmt, api) in enumerate((("json", "manager"), ("keyval", "manager"), ("json", "profile"))):
            top = tempfile.mkdtemp(prefix="home_", dir=base)
            home = os.path.join(top, "not", "there", "yet") if i != 1 else os.path.join(top, "missing")
            os.environ["XDG_CONFIG_HOME"] = home
            cfg = gen_config(rng, fmt)
            want = cfg_key(cfg)
            run.case(("fresh-config-home", fmt, api))
            try:
                if api == "profile":
                    from yowsup.profile.profile import YowProfile
                    YowProfile(PROFILE).write_config(cfg)
                else:
                    ConfigManager().save(PROFILE, cfg, ConfigManager.TYPE_JSON if fmt == "json" else ConfigManager.TYPE_KEYVAL)
                st, got = load_from(home, PROFILE)
            except Exception as e:
                st, got = "error", "%s: %s" % (type(e).__name__, e)
            if st != "ok" or got != want:
                run.violation("roundtrip:%s:fresh-config-home" % fmt, "first save (%s, %s) with a configuration home that does not exist yet, then load by profile name: %s" % (
                    fmt, api, got if st == "error" else ("nothing" if got is None else "a different config")), {"fmt": fmt, "api": api})
            shutil.rmtree(top, ignore_errors=True)
    finally:
        if old is None:
            os.environ.pop("XDG_CONFIG_HOME", None)
        else:
            os.environ["XDG_CONFIG_HOME"] = old


def profile_named_directory(run, rng, base):
    """Loading by profile name when the working directory happens to contain a DIRECTORY of that name (the client started from its own
    configuration directory): the profile's stored configuration is what loads."""
    from yowsup.config.manager import ConfigManager
    old_env, old_cwd = os.environ.get("XDG_CONFIG_HOME"), os.getcwd()
    top = tempfile.mkdtemp(prefix="cwd_", dir=base)
    try:
        os.environ["XDG_CONFIG_HOME"] = os.path.join(top, "home")
        os.makedirs(os.path.join(top, "home"))
        for fmt in ("json", "keyval"):
            cfg = gen_config(rng, fmt)
            want = cfg_key(cfg)
            ConfigManager().save(PROFILE, cfg, ConfigManager.TYPE_JSON if fmt == "json" else ConfigManager.TYPE_KEYVAL)
            work = os.path.join(top, "work_" + fmt)
            os.makedirs(os.path.join(work, PROFILE))
            os.chdir(work)
            run.case(("profile-named-directory", fmt))
            try:
                st, got = load_from(os.environ["XDG_CONFIG_HOME"], PROFILE)
            except Exception as e:
                st, got = "error", "%s: %s" % (type(e).__name__, e)
            finally:
                os.chdir(old_cwd)
            if st != "ok" or got != want:
                run.violation("roundtrip:%s:profile-named-directory" % fmt, "save(%s), then load by profile name from a working directory that contains a directory of that name: %s" % (
                    fmt, got if st == "error" else ("nothing" if got is None else "a different config")), {"fmt": fmt})
    finally:
        os.chdir(old_cwd)
        if old_env is None:
            os.environ.pop("XDG_CONFIG_HOME", None)
        else:
            os.environ["XDG_CONFIG_HOME"] = old_env
        shutil.rmtree(top, ignore_errors=True)


def path_roundtrips(run, rng, base, n):
    """Save to an explicit destination, load by path with / without extension; and YowProfile.write_config."""
    from yowsup.config.manager import ConfigManager
    for i in range(n):
        fmt = "json" if i % 2 == 0 else "keyval"
        ext = {"json": ".json", "keyval": ".yo"}[fmt] if (i // 2) % 2 == 0 else ""
        cfg = gen_config(rng, fmt)
        if i % 5 == 4:
            # a configuration well above a kilobyte (long push name / routing blob): the format of a file without a known extension is
            # recognised from ALL of it
            cfg.pushname = ((cfg.pushname or u"n").strip() + u" " + u"long name \xe9 " * 150).strip() + u"."
        want = cfg_key(cfg)
        d = tempfile.mkdtemp(prefix="dest_", dir=base)
        dest = os.path.join(d, "myconfig" + ext)
        stype = ConfigManager.TYPE_JSON if fmt == "json" else ConfigManager.TYPE_KEYVAL
        label = "path-with-extension" if ext else "path-without-extension"
        run.case(("dest", fmt, label, i))
        try:
            ConfigManager().save(PROFILE, cfg, stype, dest=dest)
        except Exception as e:
            run.violation("save-dest:exception:%s" % type(e).__name__, "save(dest=%s, %s) raised %r" % (os.path.basename(dest), fmt, e), {"fmt": fmt, "ext": ext})
            shutil.rmtree(d, ignore_errors=True)
            continue
        st, got = load_from(d, dest)
        if st != "ok" or got != want:
            run.violation("roundtrip:%s:%s" % (fmt, label), "save(dest) then load(%s) gives %s" % (label, got if st == "error" else "a different config"),
                          {"fmt": fmt, "ext": ext})
        shutil.rmtree(d, ignore_errors=True)


def one_manager_history(run, rng, base, n):
    """One ConfigManager object used for a whole history of saves and loads on the same explicit path (with and without extension),
    the format changing between saves: every load returns what the last save wrote."""
    from yowsup.config.manager import ConfigManager
    for i in range(n):
        d = tempfile.mkdtemp(prefix="hist_", dir=base)
        ext = ["", ".json", ".yo", ".cfg"][i % 4]
        dest = os.path.join(d, "account" + ext)
        mgr = ConfigManager()
        trail = []
        old = os.environ.get("XDG_CONFIG_HOME")
        os.environ["XDG_CONFIG_HOME"] = d
        try:
            for step in range(4):
                fmt = rng.choice(["json", "keyval"])
                if ext == ".json":
                    fmt = "json"
                elif ext == ".yo":
                    fmt = "keyval"
                cfg = gen_config(rng, fmt)
                want = cfg_key(cfg)
                trail.append(fmt)
                run.case(("one-manager", ext, i, step, fmt))
                try:
                    mgr.save(PROFILE, cfg, ConfigManager.TYPE_JSON if fmt == "json" else ConfigManager.TYPE_KEYVAL, dest=dest)
                    got = cfg_key(mgr.load(dest))
                    again = cfg_key(mgr.load(dest))
                except Exception as e:
                    run.violation("history:exception:%s" % type(e).__name__, "one manager, path %r, saves %s: %r" % ("account" + ext, trail, e), {"ext": ext, "trail": trail})
                    break
                if got != want or again != want:
                    run.violation("history:roundtrip", "one manager, path %r, after saves %s the load does not return the last saved configuration" % ("account" + ext, trail),
                                  {"ext": ext, "trail": trail})
                    break
        finally:
            if old is None:
                os.environ.pop("XDG_CONFIG_HOME", None)
            else:
                os.environ["XDG_CONFIG_HOME"] = old
            shutil.rmtree(d, ignore_errors=True)


def run():
    r = core.Run("C19", "model_checking")
    thorough = r.tier == "thorough"
    rng = random.Random(core.seed())
    r.cov["rule"] = ("case = (save history from ConfigStore.tla with generated configurations: random field subsets and values per format; "
                     "file-system operation boundary; flushed/unflushed) -> the config root copied at the boundary must load as the previous or "
                     "the new configuration; plus load-after-save by profile name, by path with and without extension; distinct by case tuple")
    res = core.must_clean(core.tlc("ConfigStore", "MC_ConfigStore.cfg", r.scratch, workers=8), "MC_ConfigStore")
    r.add_tlc(res)
    for sw in ("CreateDir", "AtomicSave", "NameByType"):
        bad = core.tlc("ConfigStore", "MC_ConfigStore_asread_%s.cfg" % sw, r.scratch, workers=4)
        if not bad.violated:
            raise core.MachineryError("self-test: switch %s=FALSE violates nothing" % sw)
    r.notes["selftest_switches_violate"] = ["CreateDir", "AtomicSave", "NameByType"]
    eg = core.tlc("ConfigStore", "Edges_ConfigStore.cfg", r.scratch, workers=1)
    edges = [e for e in eg.printed() if isinstance(e, dict) and "act" in e]
    g = core.Graph([e for e in edges if e["act"]["name"] != "Crash"], inits=None)
    inits = sorted(set(g._id(e["from"]) for e in edges if e["from"]["nsaves"] == 0 and e["from"]["pc"] == 0 and e["act"]["name"] == "BeginSave"))
    g.inits = inits
    if len(g.edges) < 300:
        raise core.MachineryError("ConfigStore edge dump too small (%d)" % len(g.edges))
    r.notes["spec_transitions"] = len(edges)
    base = "/dev/shm" if os.path.isdir("/dev/shm") and os.access("/dev/shm", os.W_OK) else r.scratch.path
    work = tempfile.mkdtemp(prefix="verif_c19_", dir=base)
    old_xdg = os.environ.get("XDG_CONFIG_HOME")
    try:
        fs = FS(work)
        paths = g.transition_cover(rng)
        reps = 6 if thorough else 2
        for pi, p in enumerate(paths):
            for rep in range(reps):
                replay_path(r, fs, g, p, rng, work)
                r.cov["traces_validated_against_impl"] += 1
            if pi < 2:
                r.sample({"history": [g.edges[i][1] for i in p if g.edges[i][1]["name"] != "Step"]})
        for p in g.random_walks(600 if thorough else 60, 30, rng):
            replay_path(r, fs, g, p, rng, work)
            r.cov["traces_validated_against_impl"] += 1
        path_roundtrips(r, rng, work, 400 if thorough else 80)
        fresh_config_home(r, rng, work)
        profile_named_directory(r, rng, work)
        one_manager_history(r, rng, work, 200 if thorough else 40)
    finally:
        shutil.rmtree(work, ignore_errors=True)
        if old_xdg is None:
            os.environ.pop("XDG_CONFIG_HOME", None)
        else:
            os.environ["XDG_CONFIG_HOME"] = old_xdg
    r.assumptions += core.ENV_ASSUMPTIONS[:1] + ["a crash is modelled as a byte copy of the whole config root taken before each file-system operation of the save, with and without the "
                      "process' buffered writes flushed", "XDG_CONFIG_HOME points to a private temporary root",
                      "key=value values are generated without '#', ';', newlines and surrounding blanks; numeric fields are given as text in that format"]
    return r.finish()


def replay(path):
    print(open(path).read()[:3000])
    return run()
