from harness import routing


def run():
    return routing.run("C06")


def replay(path):
    print(open(path).read()[:3000])
    return run()
