"""C05 - frame segmentation.  Spec: Segments.tla (+Channel, SegmentsAbs); binding A (edge replay) + B (trace validation)."""
import json, os, random
from harness import core


class _Stack(object):
    def __init__(self):
        self.props = {}

    def getProp(self, k, d=None):
        return self.props.get(k, d)

    def setProp(self, k, v):
        self.props[k] = v


def make_layer(enabled=True):
    from yowsup.layers import YowLayer
    from yowsup.layers.noise.layer_noise_segments import YowNoiseSegmentsLayer

    class Probe(YowLayer):
        def __init__(self):
            YowLayer.__init__(self)
            self.got_up, self.got_down = [], []

        def receive(self, data):
            self.got_up.append(data)

        def send(self, data):
            self.got_down.append(data)
    seg = YowNoiseSegmentsLayer()
    top, bot = Probe(), Probe()
    seg.setLayers(top, bot)
    st = _Stack()
    st.setProp(YowNoiseSegmentsLayer.PROP_ENABLED, enabled)
    for l in (seg, top, bot):
        l.setStack(st)
    return seg, top, bot, st


SCALES = [None, {1: 1, 2: 2}, {1: 255, 2: 256}, {1: 65535, 2: 65536}, {1: 70000, 2: 3}, {1: 4, 2: 131072}]


def payload(fid, model_frame, scale, rng_seed):
    """Concrete payload for model frame: model bytes stretched to the scaled length, deterministic content."""
    if scale is None:
        return bytes(model_frame)
    n = scale[len(model_frame)]
    r = random.Random(rng_seed * 1000003 + fid)
    if n <= 4096:
        return bytes(r.getrandbits(8) for _ in range(n))
    block = bytes(r.getrandbits(8) for _ in range(251))
    return (block * (n // 251 + 1))[:n]


def map_offset(off, frames_model, frames_conc):
    """Map a byte offset of the model stream to the concrete stream (header offsets preserved)."""
    m = c = 0
    for fm, fc in zip(frames_model, frames_conc):
        lm, lc = 3 + len(fm), 3 + len(fc)
        if off <= m + lm:
            k = off - m
            if k <= 3:
                return c + k
            if k == lm:
                return c + lc
            return c + 3 + max(1, min(len(fc) - 1, (k - 3) * len(fc) // len(fm))) if len(fc) > 1 else c + lc
        m += lm
        c += lc
    return c


def replay_recv_path(run, g, path, scale, sd):
    from yowsup.layers import YowLayerEvent
    from yowsup.layers.network.layer import YowNetworkLayer
    init, steps = g.path_steps(path)
    seg, top, bot, st = make_layer(True)
    frames_m, frames_c = [], []
    delivered_m = 0
    delivered_c = 0
    trail = []

    def down_event():
        seg.onEvent(YowLayerEvent(YowNetworkLayer.EVENT_STATE_DISCONNECTED, reason="verif"))
    for act, to in steps:
        trail.append(act)
        if act["name"] == "PeerSend":
            frames_m.append(act["frame"])
            frames_c.append(payload(len(frames_c), act["frame"], scale, sd))
            continue
        if act["name"] == "ConnLost":
            down_event()
        elif act["name"] in ("Deliver", "DeliverLost"):
            stream_c = b"".join(len(f).to_bytes(3, "big") + f for f in frames_c)
            new_m = delivered_m + act["n"]
            new_c = map_offset(new_m, frames_m, frames_c)
            if new_c <= delivered_c:
                new_c = delivered_c + 1
            chunk = stream_c[delivered_c:new_c]
            if act["name"] == "DeliverLost":
                # a layer above closes the connection while the j-th frame of this call is handed to it
                count = {"n": 0}
                orig = top.receive

                def receive(data, orig=orig, count=count, j=act["j"]):
                    orig(data)
                    count["n"] += 1
                    if count["n"] == j:
                        down_event()
                top.receive = receive
            try:
                seg.receive(chunk)
                err = None
            except Exception as e:
                err = repr(e)
            finally:
                if act["name"] == "DeliverLost":
                    top.receive = orig
            delivered_m, delivered_c = new_m, new_c
        else:
            continue
        expect = frames_c[:len(to["up"])]
        got = list(top.got_up)
        if act["name"] != "Deliver":
            # the frames that were never handed up are gone with the connection
            err = None if act["name"] == "ConnLost" else err
            frames_m, frames_c = frames_m[:len(to["up"])], frames_c[:len(to["up"])]
            delivered_m = sum(3 + len(f) for f in frames_m)
            delivered_c = sum(3 + len(f) for f in frames_c)
        if err or got != expect or any(type(x) is not bytes for x in got):
            desc = "after %s expected %d frames up %s, got %s err=%s" % (
                act, len(expect), [len(x) for x in expect], [len(x) if hasattr(x, '__len__') else x for x in got], err)
            run.violation("recv:" + ("exception" if err else "frames-differ") + (":after-connection-loss" if any(a["name"] in ("ConnLost", "DeliverLost") for a in trail) else ""), desc,
                          {"kind": "recv", "scale": scale, "seed": sd, "actions": trail})
            return False
    return True


def replay_send_path(run, g, path):
    from yowsup.layers.noise.layer_noise_segments import YowNoiseSegmentsLayer
    init, steps = g.path_steps(path)
    seg, top, bot, st = make_layer(True)
    trail = []
    exp_down = []
    for act, to in steps:
        trail.append(act)
        name = act["name"]
        if name == "Toggle":
            st.setProp(YowNoiseSegmentsLayer.PROP_ENABLED, to["enabled"])
        elif name == "RawDeliver":
            c = bytes(act["chunk"])
            seg.receive(c)
            if not top.got_up or top.got_up[-1] != c or len(top.got_up) != len(to["raw"]):
                run.violation("raw:passthrough", "raw chunk not passed upward verbatim: %r" % (top.got_up,),
                              {"kind": "send", "actions": trail})
                return False
        elif name == "Send":
            n = act["n"]
            data = (b"\xa5\x5a\x00\xff" * (n // 4 + 1))[:n]
            before = len(bot.got_down)
            try:
                seg.send(data)
                err = None
            except Exception as e:
                err = e
            refused_expected = len(to["refused"]) > 0 and to["refused"][-1] == n and n >= 16777216
            new = bot.got_down[before:]
            if refused_expected:
                if err is None or new:
                    run.violation("send:oversize-not-refused", "payload of %d bytes was not refused (wrote %s)" % (
                        n, [len(x) for x in new]), {"kind": "send", "actions": trail})
                    return False
            else:
                want = ([n.to_bytes(3, "big")] if st.getProp(YowNoiseSegmentsLayer.PROP_ENABLED) else []) + [data]
                if err is not None or [bytes(x) for x in new] != want:
                    run.violation("send:framing", "send(%d bytes, enabled=%s): expected writes %s got %s err=%r" % (
                        n, st.getProp(YowNoiseSegmentsLayer.PROP_ENABLED), [len(x) for x in want],
                        [bytes(x[:8]) if len(x) < 8 else len(x) for x in new], err), {"kind": "send", "actions": trail})
                    return False
            del data
    return True


def random_traces(run, n, rng, big):
    """Mechanism B: random streams through the real layer, recorded as events for Segments_Trace."""
    traces = []
    for t in range(n):
        seg, top, bot, st = make_layer(True)
        nf = rng.randint(1, 6)
        lens = []
        for _ in range(nf):
            c = rng.random()
            if c < 0.4:
                lens.append(rng.randint(1, 12))
            elif c < 0.7:
                lens.append(rng.choice([253, 254, 255, 256, 257, 65535, 65536, 65537]))
            else:
                lens.append(rng.randint(1, big))
        # payload content: random bytes; zeros; or payloads that are themselves sequences of length-prefixed records (what the layer
        # sees inside a frame must never be taken for framing) - for the last two the chunk boundaries follow the inner records
        style = rng.choice(["random", "random", "zeros", "nested"])
        inner = []
        if style == "random":
            frames = [bytes(rng.getrandbits(8) for _ in range(min(L, 64))) * (L // min(L, 64) + 1) for L in lens]
            frames = [f[:L] for f, L in zip(frames, lens)]
        elif style == "zeros":
            frames = [b"\x00" * L for L in lens]
        else:
            frames = []
            for L in lens:
                f = b""
                while len(f) < L:
                    m = rng.randint(0, 9)
                    f += m.to_bytes(3, "big") + bytes(rng.getrandbits(8) for _ in range(m))
                frames.append(f[:L])
        stream = b"".join(len(f).to_bytes(3, "big") + f for f in frames)
        cuts = []
        if style != "random":
            # boundaries of the inner records (and of runs of three zero bytes)
            off = 0
            for f in frames:
                off += 3
                j = 0
                while j < len(f):
                    m = (int.from_bytes(f[j:j + 3], "big") if style == "nested" and j + 3 <= len(f) else 0)
                    j += 3 + (m if style == "nested" else 0)
                    cuts.append(off + min(j, len(f)))
                    if len(cuts) > 4000:
                        break
                off += len(f)
        cuts = sorted(set(c for c in cuts if 0 < c < len(stream)))
        ev = []
        pos = 0
        content_ok = True
        while pos < len(stream):
            c = rng.random()
            nxt = [x for x in cuts[:4000] if x > pos][:3]
            if nxt and c < 0.7:
                k = rng.choice(nxt) - pos
            elif c < 0.5:
                k = rng.randint(1, 5)
            elif c < 0.8:
                k = rng.randint(1, 4096)
            else:
                k = rng.randint(1, len(stream))
            k = min(k, len(stream) - pos)
            before = len(top.got_up)
            if t % 3 == 0 and rng.random() < 0.3:
                # a redundant request (a connect request while connected, which the network layer ignores; an event of another layer's
                # concern) passes by between two reads: the framing state of the live connection is not its business
                from yowsup.layers import YowLayerEvent
                from yowsup.layers.network import YowNetworkLayer
                try:
                    seg.onEvent(YowLayerEvent(rng.choice([YowNetworkLayer.EVENT_STATE_CONNECT, "org.openwhatsapp.yowsup.event.verif.unrelated"])))
                except Exception as e:
                    run.violation("recv:event-exception", "an event passing the segments layer raised %r" % (e,), {"kind": "random", "lens": lens})
            try:
                seg.receive(stream[pos:pos + k])
            except Exception as e:
                run.violation("recv:exception", "receive raised %r on random stream" % (e,),
                              {"kind": "random", "lens": lens, "events": ev, "chunk": k})
                content_ok = False
                break
            pos += k
            new = top.got_up[before:]
            ev.append({"n": k, "up": [len(x) for x in new]})
        # content check is done here (lengths are what TLC sees)
        if content_ok and [bytes(x) for x in top.got_up] != frames[:len(top.got_up)]:
            run.violation("recv:frames-differ", "frame contents differ on random stream lens=%s" % lens,
                          {"kind": "random", "lens": lens, "events": ev})
        traces.append({"lens": lens, "ev": ev})
    return traces


def validate_traces(run, traces, name="Segments_Trace"):
    tf = os.path.join(run.scratch.path, "traces_%s.json" % name)
    with open(tf, "w") as fh:
        json.dump(traces, fh)
    res = core.tlc(name, name + ".cfg", run.scratch, workers=1, env={"TRACE_FILE": tf}, timeout=900)
    rej = [p for p in res.printed() if isinstance(p, dict) and "rejected" in p]
    if not res.finished or (res.errors and not rej and "postcondition" not in res.violated):
        raise core.MachineryError("trace validation run failed:\n" + "\n".join(res.out.splitlines()[-30:]))
    run.add_tlc(res)
    return rej, res


OPTIMISED = r"""
import json, sys
sys.path[:0] = [sys.argv[1], sys.argv[2]]
import logging; logging.disable(logging.CRITICAL)
from yowsup.layers import YowLayer
from yowsup.layers.noise.layer_noise_segments import YowNoiseSegmentsLayer
class Bottom(YowLayer):
    def __init__(self):
        YowLayer.__init__(self); self.out = bytearray()
    def send(self, d):
        self.out.extend(d)
class Stack(object):
    def __init__(self):
        self.p = {YowNoiseSegmentsLayer.PROP_ENABLED: True}
    def getProp(self, k, d=None):
        return self.p.get(k, d)
    def setProp(self, k, v):
        self.p[k] = v
seg, bot = YowNoiseSegmentsLayer(), Bottom()
seg.setLayers(None, bot)
st = Stack()
seg.setStack(st); bot.setStack(st)
res = {"optimised": sys.flags.optimize}
for n in (1 << 24, (1 << 24) + 5):
    before = len(bot.out)
    try:
        seg.send(b"\x07" * n)
        res[str(n)] = "accepted, %d bytes written, header %s" % (len(bot.out) - before, bytes(bot.out[before:before + 3]).hex())
    except Exception as e:
        res[str(n)] = "refused" if len(bot.out) == before else "refused after writing %d bytes" % (len(bot.out) - before)
before = len(bot.out)
seg.send(b"ok!")
res["after"] = bytes(bot.out[before:]).hex()
print(json.dumps(res))
"""


def optimised_interpreter(r):
    """The size limit of a frame also holds when the interpreter runs with -O (assert statements compiled out): a child interpreter started
    with -O hands the segments layer payloads of 2^24 bytes and more; they are refused with nothing written, and the next frame is whole."""
    import subprocess, sys
    r.case(("python -O", "oversize"))
    p = subprocess.run([sys.executable, "-O", "-c", OPTIMISED, os.path.join(core.VERIF, ".deps"), core.REPO], stdout=subprocess.PIPE, stderr=subprocess.PIPE, timeout=900,
                       env=dict(os.environ, PYTHONDONTWRITEBYTECODE="1"))
    try:
        res = json.loads(p.stdout.decode().strip().splitlines()[-1])
    except Exception:
        raise core.MachineryError("child interpreter (-O) gave no result: rc=%s %s" % (p.returncode, p.stderr.decode()[-600:]))
    if res["optimised"] < 1:
        raise core.MachineryError("child interpreter did not run optimised")
    bad = {k: v for k, v in res.items() if k not in ("optimised", "after") and v != "refused"}
    if bad or res["after"] != "0000036f6b21":
        r.violation("send:oversize:optimised", "under python -O: payloads at / above the frame limit: %s; the next 3-byte frame on the wire: %s" % (bad or "refused", res["after"]), {"result": res})


def run():
    r = core.Run("C05", "model_checking")
    thorough = r.tier == "thorough"
    rng = random.Random(core.seed())
    r.cov["rule"] = ("cases = TLC behaviours of Segments.tla (transition cover of the bounded state graph, replayed into "
                     "YowNoiseSegmentsLayer under several length scalings) + random streams validated by Segments_Trace; "
                     "distinct = distinct (action sequence, scale) / distinct event traces; non-trivial = at least one Deliver")
    # 1. design verdict
    recv = core.must_clean(core.tlc("Segments", "MC_Segments_recv.cfg", r.scratch, workers=8, coverage=True), "MC_Segments_recv")
    send = core.must_clean(core.tlc("Segments", "MC_Segments_send.cfg", r.scratch, workers=8), "MC_Segments_send")
    r.add_tlc(recv)
    r.add_tlc(send)
    cov = recv.coverage()
    for a in ("PeerSend", "Deliver"):
        if cov.get(a, (0, 0))[1] == 0:
            raise core.MachineryError("action %s never taken in MC_Segments_recv" % a)
    r.notes["tlc_action_coverage"] = {k: v[1] for k, v in cov.items()}
    # 2. behaviours -> code
    eg = core.tlc("Segments", "Edges_Segments_recv.cfg", r.scratch, workers=1)
    g = core.Graph(eg.printed())
    if len(g.edges) < 1000:
        raise core.MachineryError("edge dump too small: %d" % len(g.edges))
    paths = g.transition_cover(rng)
    r.notes["spec_transitions"] = len(g.edges)
    covered = set()
    scales = SCALES if thorough else SCALES[:4]
    for pi, p in enumerate(paths):
        covered.update(p)
        nd = sum(1 for i in p if g.edges[i][1]["name"] == "Deliver")
        for si, sc in enumerate(scales):
            if sc is not None and sc[1] > 300 and not thorough and pi % 7 != si % 7:
                continue   # quick: big scalings on a sample of the cover
            ok = replay_recv_path(r, g, p, sc, core.seed())
            r.case((tuple(p), si), nontrivial=nd > 0)
            r.cov["traces_validated_against_impl"] += 1
        if pi < 3:
            r.sample({"behaviour": [g.edges[i][1] for i in p][:12]})
    r.notes["spec_transitions_replayed"] = len(covered)
    if thorough:
        for p in g.random_walks(3000, 12, rng):
            replay_recv_path(r, g, p, rng.choice(SCALES), core.seed())
            r.case((tuple(p), "w"))
            r.cov["traces_validated_against_impl"] += 1
    # 2b. the same with a connection loss between or during receive() calls (a partial frame never leaks into the next connection)
    loss = core.must_clean(core.tlc("Segments", "MC_Segments_loss.cfg", r.scratch, workers=8), "MC_Segments_loss")
    r.add_tlc(loss)
    bad = core.tlc("Segments", "MC_Segments_loss_asread.cfg", r.scratch, workers=4)
    if not bad.violated:
        raise core.MachineryError("self-test: keeping the read buffer across a connection loss violates nothing in Segments.tla")
    r.notes["selftest_asread_switch_violates"] = bad.violated[:2]
    el = core.tlc("Segments", "Edges_Segments_loss.cfg", r.scratch, workers=1)
    gl = core.Graph(el.printed())
    lpaths = [p for p in gl.transition_cover(rng) if any(gl.edges[i][1]["name"] in ("ConnLost", "DeliverLost") for i in p)]
    if len(lpaths) < 50:
        raise core.MachineryError("too few connection-loss behaviours (%d)" % len(lpaths))
    if not thorough and len(lpaths) > 1500:
        lpaths = rng.sample(lpaths, 1500)
    for pi, p in enumerate(lpaths):
        for si, sc in enumerate(SCALES[:3] if thorough else (SCALES[pi % 3],)):
            replay_recv_path(r, gl, p, sc, core.seed())
            r.case(("loss", tuple(p), si))
            r.cov["traces_validated_against_impl"] += 1
    # the specification forgets the dead connection; an implementation might not: random walks reach the same transitions through
    # different pasts (partial frame of every size before the loss, then frames of other sizes)
    walks = [p for p in gl.random_walks(6000 if thorough else 1500, 12, rng) if any(gl.edges[i][1]["name"] in ("ConnLost", "DeliverLost") for i in p)]
    for pi, p in enumerate(walks):
        replay_recv_path(r, gl, p, SCALES[pi % 3], core.seed())
        r.case(("loss-walk", tuple(p), pi % 3))
        r.cov["traces_validated_against_impl"] += 1
    r.notes["connection_loss_behaviours"] = len(lpaths) + len(walks)
    es = core.tlc("Segments", "Edges_Segments_send.cfg", r.scratch, workers=1)
    gs = core.Graph(es.printed())
    spaths = gs.transition_cover(rng)
    # the send-side graph has many edges that differ only in interleaving with raw chunks; cap payload cost
    budget = 400 if thorough else 60
    big_seen = 0
    for p in spaths:
        acts = [gs.edges[i][1] for i in p]
        nbig = sum(1 for a in acts if a["name"] == "Send" and a["n"] > 100000)
        if nbig:
            if big_seen >= budget:
                continue
            big_seen += 1
        replay_send_path(r, gs, p)
        r.case(("s", tuple(p)), nontrivial=any(a["name"] == "Send" for a in acts))
        r.cov["traces_validated_against_impl"] += 1
    r.sample({"send_behaviour": [gs.edges[i][1] for i in spaths[0]]})
    # 3. code -> spec
    traces = random_traces(r, 2000 if thorough else 300, rng, 200000 if thorough else 70000)
    rej, res = validate_traces(r, traces)
    for x in rej:
        t = traces[x["rejected"] - 1]
        r.violation("trace:rejected", "Segments_Trace rejects event %d of a recorded execution: %s (lens=%s)" % (
            x["matched"] + 1, t["ev"][x["matched"]] if x["matched"] < len(t["ev"]) else None, t["lens"]),
            {"kind": "trace", "trace": t, "matched": x["matched"]})
    for t in traces:
        r.case(json.dumps(t, sort_keys=True), nontrivial=len(t["ev"]) > 0)
    r.cov["traces_validated_against_impl"] += len(traces)
    r.sample({"recorded_trace": traces[0]})
    # self-test: a corrupted trace must be rejected (binding bites)
    bad = json.loads(json.dumps(traces[:20]))
    mutated = 0
    for t in bad:
        for e in t["ev"]:
            if e["up"]:
                e["up"] = e["up"][:-1]
                mutated += 1
                break
    rej2, _ = validate_traces(r, bad, "Segments_Trace")
    if mutated and len(rej2) < mutated:
        raise core.MachineryError("self-test: corrupted traces accepted (%d of %d rejected)" % (len(rej2), mutated))
    r.notes["selftest_corrupted_traces_rejected"] = len(rej2)
    r.assumptions += ["stub stack object provides getProp/setProp", "payload contents for scaled frames are seeded pseudo-random blocks"]
    optimised_interpreter(r)
    return r.finish()


def replay(path):
    d = json.load(open(path))
    print(json.dumps(d, indent=1)[:4000])
    return run()
