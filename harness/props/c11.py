from harness import sendpath


def run():
    return sendpath.run("C11")


def replay(path):
    print(open(path).read()[:3000])
    return run()
