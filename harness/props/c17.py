"""C17 - contact identity keys are pinned.  Spec: Identity.tla (generations of identities, what each store remembers, what each session was
built for, automatic trust as a run-time setting; one Send = a whole exchange run to quiescence).  Binding A: a transition cover (and random
walks) of TLC's state graph is replayed on real stacks against the server double (harness/e2e.py): after every action the identity rows of
every store (read through a separate SQLite connection), and whether the message reached the recipient's application, are compared with the
specification's state."""
import json, random
from harness import core, e2e, e2ekit


class Replay(object):
    def __init__(self, roots, names, auto):
        self.w = e2e.World(roots, len(names), autotrust=[auto[n] for n in names], group=False)
        self.names = names
        self.keys = {n: {1: self.w.acc(n).identity_pub()} for n in names}
        self.gen = {n: 1 for n in names}
        self.nmsg = 0

    def pins(self):
        out = {}
        for h in self.names:
            out[h] = {}
            for c in self.names:
                if h != c:
                    out[h][c] = self.w.acc(h).pinned(self.w.acc(c))
        return out

    def gen_of(self, c, key):
        for g, k in self.keys[c].items():
            if k == key:
                return g
        return -1

    def do(self, act):
        from yowsup.layers.protocol_messages.protocolentities import TextMessageProtocolEntity
        from yowsup.layers.protocol_messages.protocolentities.attributes.attributes_message_meta import MessageMetaAttributes
        from yowsup.layers.axolotl.props import PROP_IDENTITY_AUTOTRUST
        n = act["name"]
        w = self.w
        if n == "Send":
            self.nmsg += 1
            mid = "i%d" % self.nmsg
            ent = TextMessageProtocolEntity("pinned-%s" % mid, MessageMetaAttributes(id=mid, recipient=w.acc(act["c"]).jid))
            w.do_submit(act["h"], mid, act["c"], ent)
            w.settle(cap=600)
            return {"delivered": any(x[0] == act["c"] and x[1] == mid for x in w.shown),
                    "shown_elsewhere": [x[0] for x in w.shown if x[1] == mid and x[0] != act["c"]],
                    "times": len([x for x in w.shown if x[1] == mid])}
        if n == "Notify":
            from yowsup.structs import ProtocolTreeNode
            srv = w.server
            srv.push(w.acc(act["h"]), ProtocolTreeNode("notification", {"t": str(srv.now()), "id": "idn-%d" % srv.now(), "from": w.acc(act["c"]).jid, "type": "encrypt"},
                                                      [ProtocolTreeNode("identity")]), {"k": "notification"})
            w.settle(cap=300)
            return {}
        if n == "Reinstall":
            a = w.acc(act["c"])
            a.reinstall()
            self.gen[act["c"]] += 1
            self.keys[act["c"]][self.gen[act["c"]]] = a.identity_pub()
        elif n == "Restart":
            w.acc(act["h"]).boot()
        elif n == "SetAuto":
            a = w.acc(act["h"])
            a.autotrust = act["v"]            # the application's setting (it would pass it again after a restart)
            a.stack.setProp(PROP_IDENTITY_AUTOTRUST, act["v"])
        return {}


def judge(rp, names, act, to, obs, frm_pins, pins):
    """Compare what the real stacks did with one successor state of the specification: [(kind, text)]."""
    problems = []
    for h in names:
        for c in names:
            if h == c:
                continue
            want = to["pin"][h][c]
            rows = pins[h][c]
            got = 0 if not rows else rp.gen_of(c, rows[0])
            before = frm_pins[h][c]
            if len(rows) > 1:
                problems.append(("pin:several-rows", "%s holds %d identity rows for %s" % (h, len(rows), c)))
            if got == want:
                continue
            auto = to["auto"][h]
            reinstalled = act["name"] == "Reinstall" and act["c"] == h
            if before and rows and before[0] != rows[0] and not auto and not reinstalled:
                kind = "pin:replaced-silently"
            elif before and not rows and not reinstalled:
                kind = "pin:lost:%s" % act["name"]
            elif not before and rows and want == 0:
                kind = "drift:pin-early"
            elif want != 0 and got in (0, -1) or (auto and got != want):
                kind = "pin:not-updated%s" % (":autotrust" if auto and before else "")
            else:
                kind = "drift:pin"
            problems.append((kind, "after %s, %s remembers generation %s of %s's identity, the specification says %s (automatic trust %s)" % (
                act, h, got, c, want, auto)))
    if act["name"] == "Send":
        want = to["last"]["delivered"]
        if obs["shown_elsewhere"] or obs["times"] > 1:
            problems.append(("delivered:wrong", "message shown %d times, elsewhere: %s" % (obs["times"], obs["shown_elsewhere"])))
        if obs["delivered"] and not want:
            problems.append(("delivered:despite-changed-identity", "after %s the message reached %s's application although one side holds a different "
                             "identity for the other and automatic trust is off there" % (act, act["c"])))
        elif want and not obs["delivered"]:
            both = to["auto"][act["h"]] and to["auto"][act["c"]]
            problems.append(("delivered:not" + (":autotrust" if both else ""), "after %s the message did not reach %s's application; the specification says it does" % (act, act["c"])))
    return problems


def replay_path(r, g, path, roots, names):
    """The path fixes the ACTIONS; where the specification allows several outcomes of an action (whether a stale first message gets as far
    as having its sender's identity remembered depends on key ids coinciding), the successor that matches what the code did is followed."""
    init, steps = g.path_steps(path)
    try:
        rp = Replay(roots, names, init["auto"])
    except core.MachineryError:
        raise
    except Exception as ex:
        r.violation("exception:boot:%s" % type(ex).__name__, "the accounts cannot log in and publish their keys: %r" % (ex,), {"history": []})
        return
    trail = []
    cur = g.edges[path[0]][0]
    try:
        for act, _ in steps:
            key = json.dumps(act, sort_keys=True)
            cands = [g.edges[ei][2] for ei in g.out.get(cur, []) if json.dumps(g.edges[ei][1], sort_keys=True) == key]
            if not cands:
                return          # after an earlier outcome other than the planned one this action is not enabled any more
            frm_pins = rp.pins()
            trail.append(act)
            try:
                obs = rp.do(act)
            except e2e.Diverged:
                r.violation("diverged:%s" % act["name"], "the exchange does not settle after %s" % trail, {"history": trail})
                return
            except core.MachineryError:
                raise
            except Exception as ex:
                r.violation("exception:%s:%s" % (act["name"], type(ex).__name__), "%s raised %r after %s" % (act["name"], ex, trail), {"history": trail})
                return
            pins = rp.pins()
            judged = [(d, judge(rp, names, act, g.states[d], obs, frm_pins, pins)) for d in cands]
            ok = [d for d, p in judged if not p]
            if ok:
                cur = ok[0]
                continue
            problems = min((p for _, p in judged), key=len)
            for kind, what in problems:
                if kind.startswith("drift:"):
                    r.notes.setdefault("drift", []).append({"what": what, "history": trail[-4:]})
                else:
                    r.violation(kind, "%s; history %s" % (what, trail), {"history": trail, "auto0": init["auto"]})
            return
    finally:
        rp.w.close()


def group_first_message(r, roots):
    """The first message from a contact's NEW identity may be a group message (the key distribution travels as a first message, the text
    under the sender key).  With automatic trust the new key replaces the pin and the text is shown; without, the text is not shown and the
    pin stays."""
    from yowsup.layers.protocol_messages.protocolentities import TextMessageProtocolEntity
    from yowsup.layers.protocol_messages.protocolentities.attributes.attributes_message_meta import MessageMetaAttributes
    for auto in (True, False):
        r.case(("group-first-message", auto))
        r.cov["traces_validated_against_impl"] += 1
        try:
            w = e2e.World(roots, 2, autotrust=[auto, False], group=True)
        except Exception as ex:
            r.violation("exception:boot:%s" % type(ex).__name__, "the accounts cannot log in: %r" % (ex,), {})
            continue
        n = {"k": 0}

        def send(s, dest):
            n["k"] += 1
            mid = "g%d" % n["k"]
            to = w.gjid if dest == "G" else w.acc(dest).jid
            w.do_submit(s, mid, dest, TextMessageProtocolEntity("text-" + mid, MessageMetaAttributes(id=mid, recipient=to)))
            w.settle(cap=800)
            return mid
        try:
            a, b = w.acc("a"), w.acc("b")
            send("b", "a")                     # a pins b's first identity
            old = a.pinned(b)
            b.reinstall()
            new_key = b.identity_pub()
            mid = send("b", "G")               # b's new install talks to the group first
            shown = any(x[0] == "a" and x[1] == mid for x in w.shown)
            now = a.pinned(b)
            if auto:
                if now != [new_key]:
                    r.violation("pin:not-updated:autotrust:group-first-message", "with automatic trust, a group message from a contact's new identity did not replace the remembered key", {"auto": auto})
                elif not shown:
                    r.violation("delivered:not:autotrust:group-first-message", "with automatic trust, the group message that presented the contact's new identity was not shown (messaging did not resume)", {"auto": auto})
            else:
                if now != old:
                    r.violation("pin:replaced-silently:group-first-message", "without automatic trust, a group message from a contact's new identity changed the remembered key", {"auto": auto})
                if shown:
                    r.violation("delivered:despite-changed-identity:group-first-message", "without automatic trust, a group message from a contact's new identity was shown", {"auto": auto})
        except e2e.Diverged:
            r.violation("diverged:group-first-message", "the exchange does not settle (automatic trust %s)" % auto, {"auto": auto})
        except core.MachineryError:
            raise
        except Exception as ex:
            r.violation("exception:group-first-message:%s" % type(ex).__name__, "raised %r (automatic trust %s)" % (ex, auto), {"auto": auto})
        finally:
            w.close()


def status_from_new_identity(r, roots):
    """A status update (from=status@broadcast, participant=the contact) is a message of that CONTACT: its identity is checked against what
    is remembered for the contact.  Written by the contact's new installation it is refused and the remembered key stays (no automatic
    trust), or the key is replaced and the update shown (automatic trust)."""
    from yowsup.layers.protocol_messages.protocolentities import TextMessageProtocolEntity
    from yowsup.layers.protocol_messages.protocolentities.attributes.attributes_message_meta import MessageMetaAttributes
    for auto in (False, True):
        r.case(("status-from-new-identity", auto))
        r.cov["traces_validated_against_impl"] += 1
        try:
            w = e2e.World(roots, 2, autotrust=[auto, False], group=False)
        except Exception as ex:
            r.violation("exception:boot:%s" % type(ex).__name__, "the accounts cannot log in: %r" % (ex,), {})
            continue
        n = {"k": 0}

        def send(s, dest, status=False):
            n["k"] += 1
            mid = "s%d" % n["k"]
            if status:
                w.server.as_status.add(mid)
            w.do_submit(s, mid, dest, TextMessageProtocolEntity("text-" + mid, MessageMetaAttributes(id=mid, recipient=w.acc(dest).jid)))
            w.settle(cap=800)
            return mid
        try:
            a, b = w.acc("a"), w.acc("b")
            m0 = send("b", "a", status=True)       # a status update from the identity a will remember
            if not any(x[0] == "a" and x[1] == m0 for x in w.shown):
                r.violation("delivered:not:status-first-contact", "a status update from a new contact was not shown", {"auto": auto})
                continue
            old = a.pinned(b)
            b.reinstall()
            new_key = b.identity_pub()
            mid = send("b", "a", status=True)
            shown = any(x[0] == "a" and x[1] == mid for x in w.shown)
            now = a.pinned(b)
            if auto:
                if now != [new_key]:
                    r.violation("pin:not-updated:autotrust:status", "with automatic trust, a status update from a contact's new identity did not replace the key remembered for the contact", {"auto": auto})
                elif not shown:
                    r.violation("delivered:not:autotrust:status", "with automatic trust, the status update that presented the contact's new identity was not shown", {"auto": auto})
            else:
                if now != old:
                    r.violation("pin:replaced-silently:status", "without automatic trust, a status update from a contact's new identity changed the remembered key", {"auto": auto})
                if shown:
                    r.violation("delivered:despite-changed-identity:status", "without automatic trust, a status update written by a contact's new identity was shown (the contact's remembered key was not consulted)", {"auto": auto})
        except e2e.Diverged:
            r.violation("diverged:status", "the exchange does not settle (automatic trust %s)" % auto, {"auto": auto})
        except core.MachineryError:
            raise
        except Exception as ex:
            r.violation("exception:status:%s" % type(ex).__name__, "raised %r (automatic trust %s)" % (ex, auto), {"auto": auto})
        finally:
            w.close()


def repeated_identity_change(r, roots):
    """A contact may change its identity more than once while the client runs.  With automatic trust every change is taken over (the new
    key replaces the remembered one, the message is shown); without, every change is refused and the first key stays."""
    from yowsup.layers.protocol_messages.protocolentities import TextMessageProtocolEntity
    from yowsup.layers.protocol_messages.protocolentities.attributes.attributes_message_meta import MessageMetaAttributes
    for auto in (True, False):
        r.case(("repeated-identity-change", auto))
        r.cov["traces_validated_against_impl"] += 1
        try:
            w = e2e.World(roots, 2, autotrust=[False, auto], group=False)
        except Exception as ex:
            r.violation("exception:boot:%s" % type(ex).__name__, "the accounts cannot log in: %r" % (ex,), {})
            continue
        n = {"k": 0}

        def send(s, d):
            n["k"] += 1
            mid = "r%d" % n["k"]
            w.do_submit(s, mid, d, TextMessageProtocolEntity("text-" + mid, MessageMetaAttributes(id=mid, recipient=w.acc(d).jid)))
            w.settle(cap=800)
            return mid
        try:
            a, b = w.acc("a"), w.acc("b")
            send("a", "b")
            first = b.pinned(a)
            for change in (1, 2, 3):
                a.reinstall()
                key = a.identity_pub()
                mid = send("a", "b")             # the new installation writes first
                shown = any(x[0] == "b" and x[1] == mid for x in w.shown)
                now = b.pinned(a)
                if auto and (now != [key] or not shown):
                    r.violation("pin:not-updated:autotrust:change-%d" % change, "with automatic trust, identity change #%d of a contact within one run: the remembered key was %s, the message was %s" % (
                        change, "replaced" if now == [key] else "NOT replaced", "shown" if shown else "not shown"), {"auto": auto, "change": change})
                    break
                if not auto and (now != first or shown):
                    r.violation("pin:replaced-silently:change-%d" % change, "without automatic trust, identity change #%d of a contact: the remembered key %s, the message was %s" % (
                        change, "stayed" if now == first else "CHANGED", "shown" if shown else "not shown"), {"auto": auto, "change": change})
                    break
        except e2e.Diverged:
            r.violation("diverged:repeated-identity-change", "the exchange does not settle (automatic trust %s)" % auto, {"auto": auto})
        except core.MachineryError:
            raise
        except Exception as ex:
            r.violation("exception:repeated-identity-change:%s" % type(ex).__name__, "raised %r (automatic trust %s)" % (ex, auto), {"auto": auto})
        finally:
            w.close()


def run(only=None):
    r = core.Run("C17", "model_checking")
    thorough = r.tier == "thorough"
    rng = random.Random(core.seed())
    r.cov["rule"] = ("case = one history of Identity.tla (messages in either direction as whole exchanges, reinstall with a new identity, restart, "
                     "automatic trust switched on / off at run time; 2 accounts with up to 3 identity generations; thorough: plus random walks, and the 3-account model checked by TLC) "
                     "replayed on real stacks against the server double; after every action the identity rows of every store (separate SQLite "
                     "connection) and the delivery outcome are compared with the specification; distinct by history")
    for cfg in (("MC_Identity.cfg",) + (("MC_Identity_thorough.cfg",) if thorough else ())):
        res = core.must_clean(core.tlc("Identity", cfg, r.scratch, workers=8, timeout=3000), cfg)
        r.add_tlc(res)
    bad = core.tlc("Identity", "MC_Identity_asread.cfg", r.scratch, workers=4)
    core.must_violate(bad, "PinStable", "MC_Identity_asread")
    r.notes["selftest_asread_switch_violates"] = "PinStable"
    roots = e2ekit.Roots()
    try:
        # the 3-account model (thorough) is checked by TLC only: its 14 million transitions cannot be dumped, and pairs of accounts are independent
        for cfg, names in (("Edges_Identity.cfg", ["a", "b"]),):
            eg = core.tlc("Identity", cfg, r.scratch, workers=1, timeout=3000)
            g = core.Graph(eg.printed())
            if len(g.edges) < 300:
                raise core.MachineryError("Identity edge dump too small (%d)" % len(g.edges))
            r.notes["spec_transitions_%d" % len(names)] = len(g.edges)
            paths = g.transition_cover(rng, tail=1)
            if not thorough and len(paths) > 900:
                paths = rng.sample(paths, 900)
            paths += g.random_walks(600 if thorough else 120, 14, rng)       # other pasts for the same transitions
            if only is not None:
                paths = []
            covered = set()
            for pi, p in enumerate(paths):
                covered.update(p)
                replay_path(r, g, p, roots, names)
                r.case((cfg,) + tuple(p))
                r.cov["traces_validated_against_impl"] += 1
                if pi < 2:
                    r.sample({"history": [g.edges[i][1] for i in p]})
            r.notes["spec_transitions_replayed_%d" % len(names)] = len(covered)
        group_first_message(r, roots)
        status_from_new_identity(r, roots)
        repeated_identity_change(r, roots)
        if len(r.notes.get("drift", [])) > 5 and not r.violations:
            raise core.MachineryError("Identity.tla does not describe the exchange: %s" % r.notes["drift"][:3])
    finally:
        roots.close()
    r.assumptions += core.ENV_ASSUMPTIONS[:2] + [e2e.AXOLOTL_ASSUMPTION,
                      "a reinstall discards the account's profile directory and uploads new keys; the server double then serves the new bundle",
                      "one Send is run to quiescence before the next action (restarts and reinstalls happen with nothing in flight)"]
    return r.finish()


def replay(path):
    print(open(path).read()[:3000])
    return run()
