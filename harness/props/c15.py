"""C15 - media encryption.  Spec: MediaCipher.tla; binding C (TLC: design facts + layout term + verdict table; harness evaluates the term
with independent primitives and compares bytes / verdicts with the real MediaCipher)."""
import hashlib, hmac, json, os, random, sys
from harness import core


def reference_encrypt(layout, plaintext, ref, kind):
    from cryptography.hazmat.primitives.kdf.hkdf import HKDF
    from cryptography.hazmat.primitives import hashes
    from cryptography.hazmat.primitives.ciphers import Cipher, algorithms, modes
    from cryptography.hazmat.backends import default_backend
    d = layout["derived"]
    assert d["fn"] == "hkdf_sha256" and d["salt"] == "zeros32"
    derived = HKDF(algorithm=hashes.SHA256(), length=d["len"], salt=b"\x00" * 32, info=layout["info"][kind].encode(),
                   backend=default_backend()).derive(ref)
    iv = derived[layout["iv"][0]:layout["iv"][1]]
    key = derived[layout["key"][0]:layout["key"][1]]
    mk = derived[layout["mackey"][0]:layout["mackey"][1]]
    ct = layout["ct"]
    assert ct["fn"] == "aes_cbc" and ct["pt"]["fn"] == "pkcs7_always"
    blk = ct["pt"]["block"]
    n = blk - len(plaintext) % blk
    padded = plaintext + bytes(bytearray([n] * n))
    enc = Cipher(algorithms.AES(key), modes.CBC(iv), backend=default_backend()).encryptor()
    body = enc.update(padded) + enc.finalize()
    tag = layout["tag"]
    assert tag["fn"] == "take" and tag["of"]["fn"] == "hmac_sha256" and tag["of"]["msg"] == ["iv", "ct"]
    t = hmac.new(mk, iv + body, hashlib.sha256).digest()[:tag["n"]]
    return body + t


WRAP = {"image": ("encrypt_image", "decrypt_image"), "audio": ("encrypt_audio", "decrypt_audio"),
        "video": ("encrypt_video", "decrypt_video"), "document": ("encrypt_document", "decrypt_document")}


OPTIMISED = r"""
import json, os, sys
sys.path[:0] = [sys.argv[1], sys.argv[2]]
import logging; logging.disable(logging.CRITICAL)
from yowsup.layers.protocol_media.mediacipher import MediaCipher
mc = MediaCipher()
out = []
key = bytes(bytearray(range(32)))
infos = [MediaCipher.INFO_IMAGE, MediaCipher.INFO_AUDIO, MediaCipher.INFO_VIDEO, MediaCipher.INFO_DOCUM]
for L in (0, 1, 15, 16, 17, 48, 1000):
    p = bytes(bytearray((7 * i + L) % 256 for i in range(L)))
    for ki, info in enumerate(infos):
        try:
            c = bytes(mc.encrypt(p, key, info))
            if bytes(mc.decrypt(c, key, info)) != p:
                out.append(["roundtrip", L, ki])
        except Exception:
            out.append(["roundtrip", L, ki])
            continue
        cases = [("flip-body", c[:3] + bytes(bytearray([c[3] ^ 0x40])) + c[4:], key, info), ("flip-tag", c[:-1] + bytes(bytearray([c[-1] ^ 1])), key, info),
                 ("trunc", c[:-1], key, info), ("key", c, bytes(bytearray([key[0] ^ 1])) + key[1:], info), ("kind", c, key, infos[(ki + 1) % 4])]
        for name, cc, kk, ii in cases:
            try:
                mc.decrypt(cc, kk, ii)
                out.append([name, L, ki])
            except Exception:
                pass
print(json.dumps({"optimised": sys.flags.optimize, "accepted": out}))
"""


def optimised_interpreter(r):
    """The same rejections hold when the interpreter runs with -O (assert statements compiled out): a child interpreter, started with
    -O on the working tree, decrypts modified ciphertexts / tags, a wrong key and a wrong kind - everything must be refused."""
    import subprocess
    r.case(("python -O",))
    p = subprocess.run([sys.executable, "-O", "-c", OPTIMISED, os.path.join(core.VERIF, ".deps"), core.REPO], stdout=subprocess.PIPE, stderr=subprocess.PIPE, timeout=600,
                       env=dict(os.environ, PYTHONDONTWRITEBYTECODE="1"))
    try:
        res = json.loads(p.stdout.decode().strip().splitlines()[-1])
    except Exception:
        raise core.MachineryError("child interpreter (-O) gave no result: rc=%s %s" % (p.returncode, p.stderr.decode()[-600:]))
    if res["optimised"] < 1:
        raise core.MachineryError("child interpreter did not run optimised")
    r.notes["optimised_interpreter_cases"] = 7 * 4 * 6
    for name, L, ki in res["accepted"][:6]:
        r.violation("optimised:%s" % name, "under python -O: %s for content length %d, kind #%d %s" % (
            name, L, ki, "is not refused" if name != "roundtrip" else "does not return the content"), {"len": L, "kind": ki, "op": name})


def results_are_values(r, rng):
    """What encrypt / decrypt return are values: a result obtained earlier is not changed by later calls on the same cipher object, and
    is of a type that can be stored and compared like bytes (the application keeps ciphertexts around while it uploads them)."""
    from yowsup.layers.protocol_media.mediacipher import MediaCipher
    mc = MediaCipher()
    infos = [MediaCipher.INFO_IMAGE, MediaCipher.INFO_AUDIO, MediaCipher.INFO_VIDEO, MediaCipher.INFO_DOCUM]
    for trial in range(6):
        r.case(("results-are-values", trial))
        key = bytes(bytearray(rng.getrandbits(8) for _ in range(32)))
        lens = [rng.choice([0, 5, 16, 100, 1000]) for _ in range(4)]
        lens.sort(reverse=(trial % 2 == 0))
        plains = [bytes(bytearray(rng.getrandbits(8) for _ in range(L))) for L in lens]
        cts, frozen = [], []
        try:
            for i, p in enumerate(plains):
                c = mc.encrypt(p, key, infos[i % 4])
                cts.append(c)
                frozen.append(bytes(c))
            changed = [i for i in range(len(cts)) if bytes(cts[i]) != frozen[i]]
            outs, ofrozen = [], []
            for i in range(len(cts)):
                o = mc.decrypt(frozen[i], key, infos[i % 4])
                outs.append(o)
                ofrozen.append(bytes(o))
            ochanged = [i for i in range(len(outs)) if bytes(outs[i]) != ofrozen[i] or ofrozen[i] != plains[i]]
        except Exception as e:
            r.violation("values:exception:%s" % type(e).__name__, "a sequence of encryptions / decryptions on one cipher object raised %r" % (e,), {"lens": lens})
            continue
        if changed or ochanged:
            r.violation("values:earlier-result-changed", "content lengths %s on one cipher object: the ciphertext returned by call(s) %s / plaintext of call(s) %s changed after later calls" % (
                lens, changed, ochanged), {"lens": lens})


def run():
    r = core.Run("C15", "model_checking")
    thorough = r.tier == "thorough"
    rng = random.Random(core.seed())
    from yowsup.layers.protocol_media.mediacipher import MediaCipher
    r.cov["rule"] = ("case = (plaintext length, content, key, media kind, tamper operation); expected ciphertext bytes come from the layout term "
                     "printed by TLC (MediaCipher.tla) evaluated with cryptography's HKDF/AES-CBC and hmac, expected verdicts from the design "
                     "facts TLC checked on the small-block model; distinct by (length, kind, operation, position)")
    res = core.tlc("MediaCipher_Design", "MediaCipher_Design.cfg", r.scratch, workers=1)
    pr = res.printed()
    facts = [p for p in pr if isinstance(p, dict) and "roundtrip" in p]
    lay = [p for p in pr if isinstance(p, dict) and "layout" in p]
    if not res.finished or not facts or not lay:
        raise core.MachineryError("MediaCipher_Design failed:\n" + res.out[-1500:])
    if not (facts[0]["roundtrip"] and facts[0]["length"] and facts[0]["tamper"]):
        raise core.MachineryError("design facts do not hold in the claimed configuration: %s" % facts[0])
    bad = core.tlc("MediaCipher_Design", "MediaCipher_asread.cfg", r.scratch, workers=1)
    bf = [p for p in bad.printed() if isinstance(p, dict) and "roundtrip" in p]
    if not bf or bf[0]["roundtrip"]:
        raise core.MachineryError("self-test: conditional padding (as read) does not violate RoundTrip in the model")
    r.notes["selftest_asread_switch_violates"] = "RoundTrip (pad only when unaligned)"
    nplain = sum(3 ** n for n in range(0, 10))
    r.cov["states"] += nplain * 8
    r.cov["transitions"] += nplain * 8 * 30
    layout, cases, Bm = lay[0]["layout"], lay[0]["cases"], lay[0]["B"]
    mc = MediaCipher()
    lengths = list(range(0, 65)) + [rng.randint(65, 5000) for _ in range(40 if thorough else 8)] + \
              [16 * rng.randint(5, 300) for _ in range(20 if thorough else 4)] + ([1 << 20, (1 << 20) + 5] if thorough else [65536])
    # lengths whose ciphertext body is an exact multiple of a buffer / chunk size, and their neighbours
    for B in ((1024, 4096, 8192, 65536) if thorough else (4096, 8192)):
        lengths += [B - 17, B - 16, B - 15, B - 1, B, B + 1, 2 * B - 16, 2 * B - 3]
    kinds = sorted(WRAP)
    nkeys = 4 if thorough else 2
    for L in lengths:
        # expected ciphertext length from the model's table, block size mapped 16 <- B
        model_n = (L // 16) * Bm + (0 if L % 16 == 0 else (1 if L % 16 == 1 else (Bm - 1 if L % 16 == 15 else 2)))
        exp_len = (L // 16 + 1) * 16 + 10
        mcase = [c for c in cases if c["len"] == model_n]
        if mcase and (mcase[0]["ctlen"] - 10) // Bm != (exp_len - 10) // 16:
            raise core.MachineryError("length mapping inconsistent")
        for ki in range(nkeys):
            ref = bytes(bytearray(rng.getrandbits(8) for _ in range(32)))
            content = rng.choice(["rand", "pad-like", "zeros", "pkcs-tail"]) if ki or L > 64 else ("pkcs-tail" if L else "rand")
            if content == "rand":
                p = bytes(bytearray(rng.getrandbits(8) for _ in range(min(L, 4096)))) * (L // 4096 + 1)
                p = p[:L]
            elif content == "pad-like":
                p = (bytes(bytearray([16])) * L) if L % 2 else (bytes(bytearray([1])) * L)
            elif content == "pkcs-tail":
                # content that ends in the very bytes the padding will add (a decryptor must strip the padding by its length, not by its value)
                pv = 16 - L % 16
                k = min(L, rng.choice([1, 2, 3, pv]))
                p = bytes(bytearray(rng.getrandbits(8) for _ in range(min(L, 4096)))) * (L // 4096 + 1)
                p = p[:L - k] + bytes(bytearray([pv])) * k
            else:
                p = b"\x00" * L
            kind = kinds[(L + ki) % 4]
            info = getattr(MediaCipher, {"image": "INFO_IMAGE", "audio": "INFO_AUDIO", "video": "INFO_VIDEO", "document": "INFO_DOCUM"}[kind])
            exp = reference_encrypt(layout, p, ref, kind)
            use_wrapper = (L + ki) % 2 == 0
            # encrypt: byte-identical to the reference layout
            try:
                got = getattr(mc, WRAP[kind][0])(p, ref) if use_wrapper else mc.encrypt(p, ref, info)
            except Exception as e:
                got = e
            r.case(("enc", L, kind, ki))
            aligned = "aligned" if L % 16 == 0 else "unaligned"
            if isinstance(got, Exception) or bytes(got) != exp:
                r.violation("encrypt:%s:layout" % aligned, "encrypt(len=%d, %s): %s, reference layout gives %d bytes" % (
                    L, kind, ("raised %r" % got) if isinstance(got, Exception) else "%d bytes differing from the reference" % len(got), len(exp)),
                    {"len": L, "kind": kind, "content": content})
            if len(exp) != exp_len:
                raise core.MachineryError("reference length")
            # decrypt of the reference ciphertext: exactly the plaintext
            try:
                back = getattr(mc, WRAP[kind][1])(exp, ref) if use_wrapper else mc.decrypt(exp, ref, info)
            except Exception as e:
                back = e
            r.case(("dec", L, kind, ki))
            if isinstance(back, Exception) or bytes(back) != p:
                r.violation("decrypt:%s:roundtrip" % aligned, "decrypt(reference ciphertext of %d-byte plaintext, %s) = %s" % (
                    L, kind, ("raised %r" % back) if isinstance(back, Exception) else "%d different bytes" % len(back)), {"len": L, "kind": kind})
            # library round trip
            if not isinstance(got, Exception):
                try:
                    back2 = mc.decrypt(got, ref, info)
                except Exception as e:
                    back2 = e
                if isinstance(back2, Exception) or bytes(back2) != p:
                    r.violation("roundtrip:%s" % aligned, "decrypt(encrypt(p)) != p for len=%d kind=%s: %r" % (L, kind, back2 if isinstance(back2, Exception) else len(back2)),
                                {"len": L, "kind": kind})
            if ki > 0 and L > 48 and not thorough:
                continue
            # tampering: every single-byte corruption (short inputs), truncations, wrong key, wrong kind
            positions = range(len(exp)) if L <= 48 else sorted(set([0, 15, 16, len(exp) - 11, len(exp) - 10, len(exp) - 1] + [rng.randrange(len(exp)) for _ in range(12)]))
            ops = [("flip", i) for i in positions]
            ops += [("trunc", k) for k in (range(1, len(exp) + 1) if L <= 48 else [1, 9, 10, 11, 16, 26, len(exp)])]
            ops += [("key", 0), ("kind", 1), ("kind", 2), ("kind", 3), ("flipbit", rng.randrange(len(exp)))]
            for op, a in ops:
                c, rk, ik = exp, ref, info
                if op == "flip":
                    c = exp[:a] + bytes(bytearray([bytearray(exp)[a] ^ 0xff])) + exp[a + 1:]
                elif op == "flipbit":
                    c = exp[:a] + bytes(bytearray([bytearray(exp)[a] ^ (1 << rng.randrange(8))])) + exp[a + 1:]
                elif op == "trunc":
                    c = exp[:len(exp) - a]
                elif op == "key":
                    rk = bytes(bytearray(x ^ 1 for x in bytearray(ref[:1]))) + ref[1:]
                else:
                    ok_ = kinds[(kinds.index(kind) + a) % 4]
                    ik = getattr(MediaCipher, {"image": "INFO_IMAGE", "audio": "INFO_AUDIO", "video": "INFO_VIDEO", "document": "INFO_DOCUM"}[ok_])
                try:
                    out = mc.decrypt(c, rk, ik)
                    rejected = False
                except Exception:
                    rejected = True
                r.case(("tamper", L, kind, op, a, ki))
                if not rejected:
                    r.violation("tamper:%s:accepted" % op, "decrypt accepted a %s-modified ciphertext (len=%d, arg=%s) and returned %d bytes (%s)" % (
                        op, L, a, len(out), "the original" if bytes(out) == p else "different plaintext"), {"len": L, "kind": kind, "op": op, "arg": a})
        if L in (0, 16, 33):
            r.sample({"plaintext_len": L, "expected_ciphertext_len": exp_len, "kind": kind, "operations": ["encrypt==reference", "decrypt(reference)==plaintext", "%d tamper cases" % len(ops)]})
    optimised_interpreter(r)
    results_are_values(r, rng)
    r.cov["traces_validated_against_impl"] = r.cov["evaluations"]
    r.assumptions += core.ENV_ASSUMPTIONS[:1] + ["the WhatsApp layout is the one written in MediaCipher.tla (LayoutTerm); compatibility with WhatsApp servers themselves cannot be checked offline",
                      "independent primitives: cryptography HKDF-SHA256 / AES-CBC, hmac, hashlib (the code under test uses python-axolotl's HKDFv3)"]
    return r.finish()


def replay(path):
    print(open(path).read()[:3000])
    return run()
