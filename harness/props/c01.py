"""C01 - stanza codec round trip.  Spec: WireFormat.tla + WADict.tla; binding C (TLC computes the library's specified encoding for every
enumerated abstract tree; the real encoder must produce it, the real decoder must return the tree)."""
import json, random
from harness import core, wire


def run(pid="C01"):
    r = core.Run(pid, "model_checking")
    thorough = r.tier == "thorough"
    rng = random.Random(core.seed())
    from yowsup.layers.coder.encoder import WriteEncoder
    from yowsup.layers.coder.decoder import ReadDecoder
    from yowsup.layers.coder.tokendictionary import TokenDictionary
    from yowsup.layers.coder.layer import YowCoderLayer
    from yowsup.layers import YowLayer
    r.cov["rule"] = ("case = one abstract stanza tree (systematic sweeps: every dictionary word, packed strings by length and parity, the three "
                     "length classes of text and binary content incl. 1 MiB boundaries, list sizes around 255, nested/top-level large nodes; plus "
                     "seeded random trees) whose specified encoding is computed by TLC from WireFormat.tla; checked: encoder bytes == specified bytes, "
                     "decoder(encoder(tree)) == tree (strict and __eq__), same through YowCoderLayer; distinct by tree")
    primary, secondary = wire.load_dict(r)
    world = wire.World(primary, secondary, core.seed())
    cases = wire.generate(world, rng, thorough)
    outs, _ = wire.evaluate_cases(r, cases)
    td = TokenDictionary()

    class Probe(YowLayer):
        def __init__(self):
            YowLayer.__init__(self)
            self.up, self.down = [], []

        def receive(self, d):
            self.up.append(d)

        def send(self, d):
            self.down.append(d)
    coder, top, bot = YowCoderLayer(), Probe(), Probe()
    coder.setLayers(top, bot)
    nbad_design = 0
    for ci, (t, o) in enumerate(zip(cases, outs)):
        if not o["ok"]:
            nbad_design += 1
            continue
        body = []
        for sg in o["segs"]:
            body += sg["pol"]
        expected = b"\x00" + world.items(body)
        node = world.node(t)
        size_class = "ge1MiB" if len(expected) >= 1048576 else "small"
        desc = {"tag": world.text(t["tag"])[:30], "attrs": len(t["attrs"]), "ckind": t["ckind"], "bytes": len(expected)}
        r.case(ci)
        if ci in (0, 300, 560):
            r.sample({"tree": desc, "specified_encoding_prefix": list(bytearray(expected[:24]))})
        try:
            got = bytes(bytearray(WriteEncoder(td).protocolTreeNodeToBytes(node)))
        except Exception as e:
            r.violation("encode:exception:%s" % type(e).__name__, "encoder raised %r on %s" % (e, desc), {"case": ci, "tree": desc})
            continue
        if got != expected:
            i = next((k for k in range(min(len(got), len(expected))) if got[k] != expected[k]), min(len(got), len(expected)))
            r.violation("encode:differs-from-specified:%s" % size_class, "encoder output differs from the specified encoding at byte %d (%d vs %d bytes) for %s: ...%r vs ...%r" % (
                i, len(got), len(expected), desc, got[max(0, i - 4):i + 6], expected[max(0, i - 4):i + 6]), {"case": ci, "tree": desc})
        try:
            back = ReadDecoder(td).getProtocolTreeNode(bytearray(got))
        except Exception as e:
            r.violation("roundtrip:decode-exception:%s:%s" % (size_class, type(e).__name__), "decoder raised %r on the encoder's own output for %s" % (e, desc),
                        {"case": ci, "tree": desc})
            continue
        diff = wire.strict_equal(node, back)
        if diff:
            r.violation("roundtrip:tree-differs:%s" % size_class, "decode(encode(tree)) differs: %s (%s)" % (diff, desc), {"case": ci, "tree": desc})
        elif not (node == back and back == node):
            r.violation("roundtrip:eq-disagrees", "ProtocolTreeNode.__eq__ says the round-tripped tree differs although it is structurally identical (%s)" % (desc,), {"case": ci})
        # through the layer
        if len(expected) < 300000:
            top.up, bot.down = [], []
            try:
                coder.send(node)
                coder.receive(bytes(bot.down[0]))
                d2 = wire.strict_equal(node, top.up[0]) if len(top.up) == 1 and len(bot.down) == 1 else "layer produced %d frames / %d nodes" % (len(bot.down), len(top.up))
            except Exception as e:
                d2 = "raised %r" % (e,)
            if d2:
                r.violation("roundtrip:layer", "YowCoderLayer send/receive: %s (%s)" % (d2, desc), {"case": ci, "tree": desc})
        r.cov["traces_validated_against_impl"] += 1
    # every word of the library's OWN dictionaries must survive the codec in tag / key / value / content position
    from yowsup.structs import ProtocolTreeNode
    own = [x for x in list(td.dictionary) + list(td.secondaryDictionary) if x and x not in ("xmlstreamstart", "xmlstreamend")]
    for bi in range(0, len(own), 8):
        chunk = own[bi:bi + 8]
        node = ProtocolTreeNode(chunk[0], dict(("k%d" % j, wd) for j, wd in enumerate(chunk)),
                                [ProtocolTreeNode(wd, {wd: "v%d" % j}) for j, wd in enumerate(chunk[:4])] +
                                [ProtocolTreeNode("c", {}, None, wd.encode("latin-1")) for wd in chunk[4:]])
        r.case(("ownwords", bi))
        try:
            back = ReadDecoder(td).getProtocolTreeNode(bytearray(WriteEncoder(td).protocolTreeNodeToBytes(node)))
            d = wire.strict_equal(node, back)
        except Exception as e:
            d = "raised %r" % (e,)
        if d:
            r.violation("roundtrip:dictionary-word", "a tree built from the library's dictionary words %r does not survive the codec: %s" % (chunk, d), {"words": chunk})
    # long lists (16-bit list sizes up to the format's maximum): round trip only - too long for TLC to enumerate their encodings
    for n, what in ([(32767, "children"), (32768, "children"), (16384, "attributes")] + ([(65534, "children"), (32767, "attributes"), (40000, "children")] if thorough else [])):
        r.case(("long-list", n, what))
        if what == "children":
            node = ProtocolTreeNode("list", {"type": "get"}, [ProtocolTreeNode("item", {"i": str(i % 97)}) for i in range(n)])
        else:
            node = ProtocolTreeNode("iq", dict(("k%d" % i, str(i % 89)) for i in range(n)))
        try:
            back = ReadDecoder(td).getProtocolTreeNode(bytearray(WriteEncoder(td).protocolTreeNodeToBytes(node)))
            d = wire.strict_equal(node, back)
        except Exception as e:
            d = "raised %r" % (e,)
        if d:
            r.violation("roundtrip:long-list:%s" % what, "a node with %d %s does not survive the codec: %s" % (n, what, str(d)[:300]), {"n": n, "what": what})
    if nbad_design:
        raise core.MachineryError("%d cases: the reference decoder does not return the tree for an enumerated encoding (specification error)" % nbad_design)
    r.notes["reference_encodings_checked_by_tlc"] = sum(o["n"] for o in outs)
    r.cov["states"] = len(cases)
    r.cov["transitions"] = sum(o["n"] for o in outs)
    r.assumptions += core.ENV_ASSUMPTIONS[:1] + ["strings are Latin-1 (one byte per character), non-empty, without '@' after the first position except as JID separator, "
                      "and not one of the two reserved stream words", "list sizes above 65535 are outside the format"]
    return r.finish()


def replay(path):
    print(open(path).read()[:3000])
    return run()
