import random
from harness import sendpath, core, sched, e2ekit


def keepalive_callback_failure(r):
    """An application callback raising for a keep-alive pong (full default stack, virtual time): the ping was answered, so the keep-alive
    must not close the connection at the next tick, and later pings / pongs go on normally."""
    from harness.props import c16
    roots = e2ekit.Roots()
    try:
        for npings in (1, 2):
            r.case(("keepalive-callback-failure", npings))
            r.cov["traces_validated_against_impl"] += 1
            w = c16.World(True, True)
            hist = [{"name": "ConnectRequest"}, {"name": "DispatcherConnected"}, {"name": "Success"}]
            for i in range(1, npings + 2):
                hist += [{"name": "PingTick"}, {"name": "Pong", "id": i}]
            hist += [{"name": "PingTick"}]
            try:
                w.start()
                w.raise_on_pong = True
                for act in hist:
                    w.do(act)
                disc = [x for x in w.wire if x[0] == "disconnect"]
                pings = [x for x in w.wire if x[0] == "ping"]
                other = [p for p in w.problems if p[0] != "receive-raised"]
                if disc or "disconnected" in w.app or len(pings) != npings + 2 or other:
                    r.violation("keepalive:closed-after-callback-failure", "history %s with the application raising for every pong: dispatcher calls %s, application saw %s, %s" % (
                        [h["name"] for h in hist], [x[0] for x in w.wire], w.app, other[:1]), {"history": hist})
            except sched.Deadlock as e:
                r.violation("wedged:keepalive-callback-failure", "history %s hangs: %s" % ([h["name"] for h in hist], e), {"history": hist})
            finally:
                w.close()
    finally:
        roots.close()


def key_request_failure(r):
    """A failure inside the encryption layers on the way up: a message arrives from a sender the account has no session with, it is parked
    and the sender's keys are requested - and that request fails (error reply).  Later messages of that sender are still processed: the next
    one triggers a new key request, and once keys are available everything parked is worked off (here: retried, re-sent and shown)."""
    from harness import e2e
    from yowsup.layers.protocol_messages.protocolentities import TextMessageProtocolEntity
    from yowsup.layers.protocol_messages.protocolentities.attributes.attributes_message_meta import MessageMetaAttributes
    roots = e2ekit.Roots()
    try:
        for nfail in (1, 2):
            r.case(("key-request-failure", nfail))
            r.cov["traces_validated_against_impl"] += 1
            w = e2e.World(roots, 2, autotrust=[False, True], group=False)
            n = {"k": 0}

            def send(s, d):
                n["k"] += 1
                mid = "k%d" % n["k"]
                w.do_submit(s, mid, d, TextMessageProtocolEntity("text-" + mid, MessageMetaAttributes(id=mid, recipient=w.acc(d).jid)))
                w.settle(cap=600)
                return mid
            try:
                send("a", "b")
                send("b", "a")               # b's session with a is now acknowledged: its next messages are not first messages
                w.acc("a").reinstall()        # a lost its sessions; what b sends next finds no session at a
                w.server.fail_key_requests["a"] = nfail
                parked = [send("b", "a") for _ in range(nfail)]
                later = send("b", "a")        # the key directory answers again
                shown = [x[1] for x in w.shown if x[0] == "a"]
                missing = [m for m in parked + [later] if m not in shown]
                if missing:
                    reqs = len([e for e in w.events if e["e"] in ("KeysServed", "KeysRefused") and e.get("who") == "a"])
                    r.violation("up:parked-forever:key-request-failure", "after %d failed key request(s) of a, messages %s of that sender were never worked off (a asked for keys %d times; shown at a: %s)" % (
                        nfail, missing, reqs, shown), {"scenario": "key-request-failure", "nfail": nfail})
            except e2e.Diverged:
                r.violation("wedged:key-request-failure", "the exchange after a failed key request does not settle", {"nfail": nfail})
            except core.MachineryError:
                raise
            except Exception as ex:
                r.violation("exception:key-request-failure:%s" % type(ex).__name__, "raised %r" % (ex,), {"nfail": nfail})
            finally:
                w.close()
    finally:
        roots.close()


def redundant_disconnect(r):
    """A failure at the network layer on the way down: the connection breaks (noticed by the dispatcher, which reports it), and then a
    redundant disconnect request follows (application clean-up, a ping timeout of the dying connection) on a dispatcher that - like the
    socket dispatcher - does not call back for a connection that is already closed.  The stack stays usable: a later connect request is
    honoured and the login goes through."""
    from harness.props import c16
    roots = e2ekit.Roots()
    try:
        for when in ("before-loop", "after-loop"):
            r.case(("redundant-disconnect", when))
            r.cov["traces_validated_against_impl"] += 1
            w = c16.World(True, False)
            w.socket_like = True
            w.connect_via_event = True
            hist = [{"name": "ConnectRequest"}, {"name": "DispatcherConnected"}, {"name": "Success"}, {"name": "ConnectionLost", "why": "socket-error"}]
            hist += ([{"name": "DisconnectRequest"}, {"name": "LoopStep"}] if when == "before-loop" else [{"name": "LoopStep"}, {"name": "DisconnectRequest"}, {"name": "LoopStep"}])
            hist += [{"name": "ConnectRequest"}, {"name": "DispatcherConnected"}, {"name": "Success"}]
            try:
                w.start()
                ok = True
                for i, act in enumerate(hist):
                    if i == len(hist) - 2 and len(w.dispatchers) < 2:
                        ok = False          # the second connect request created no connection: nothing to bring up
                        break
                    w.do(act)
                connects = [x for x in w.wire if x[0] == "connect"]
                if not ok or len(connects) != 2 or w.app.count("success") != 2 or not w.net.connected:
                    r.violation("wedged:redundant-disconnect:%s" % when, "history %s: the connect request after the redundant disconnect is not honoured (connects %d, application saw %s, connected %s)" % (
                        [h["name"] for h in hist], len(connects), w.app, w.net.connected), {"history": hist})
            except sched.Deadlock as e:
                r.violation("wedged:redundant-disconnect:%s" % when, "history %s hangs: %s" % ([h["name"] for h in hist], e), {"history": hist})
            except core.MachineryError:
                raise
            except Exception as ex:
                r.violation("exception:redundant-disconnect:%s" % type(ex).__name__, "history %s raised %r" % ([h["name"] for h in hist], ex), {"history": hist})
            finally:
                w.close()
    finally:
        roots.close()


def receive_failure_real_dispatchers(r):
    """A failure on the way up with the REAL dispatchers underneath (loopback, harness/realnet.py): the layers above raise while the
    dispatcher hands them data.  The connection is given up and its end announced (nothing stays half-alive), a later connect request
    brings up a working connection.  Validated by TLC against NetLayer_Trace.tla."""
    from harness import realnet
    rng = random.Random(core.seed() + 12)
    scripts = [(l, sc) for (l, sc) in realnet.families() if "handler-fails" in l]
    scripts.append(("handler-fails-under-load", [["connect", True], ["send", "medium"], ["peer-send", "medium"], ["peer-send", "medium"], ["handler-fails"], ["connect", True],
                                                 ["send", "medium"], ["peer-send", "large"], ["sync"], ["handler-fails"], ["connect", True], ["send", "tiny"], ["sync"], ["disconnect"]]))
    runs = []
    for kind in ("socket", "asyncore"):
        for i, (label, sc) in enumerate(scripts):
            ev, errs = realnet.run_scenario(kind, sc, rng, via_event=(i % 2 == 1))
            runs.append((kind, label, sc, realnet.coalesce(ev), errs))
            r.case(("real-dispatcher-failure", kind, label))
    realnet.validate(r, runs)


def failure_sites_full_stack(r):
    """Every layer of the full protocol stack as the failure site (harness/failsites.py)."""
    from harness import failsites
    from yowsup.layers.protocol_messages.protocolentities import TextMessageProtocolEntity
    from yowsup.layers.protocol_messages.protocolentities.attributes.attributes_message_meta import MessageMetaAttributes
    rng = random.Random(core.seed() + 120)
    failsites.sweep(r, rng, r.tier == "thorough",
                    lambda mid, to: TextMessageProtocolEntity(u"body of %s \u2713" % mid, MessageMetaAttributes(id=mid, recipient=to)))


def unconvertible_success(r):
    """A failure on the way up in the authentication layer: the server's <success/> lacks the attributes its entity needs.  The error is
    reported to whoever delivered the stanza, and the stack stays usable: the session counts as authenticated (the keep-alive runs and its
    ping is answered normally, an application request goes out)."""
    from harness.props import c16
    roots = e2ekit.Roots()
    try:
        r.case(("unconvertible-success",))
        r.cov["traces_validated_against_impl"] += 1
        w = c16.World(True, True)
        hist = [{"name": "ConnectRequest"}, {"name": "DispatcherConnected"}, {"name": "Success", "malformed": True}, {"name": "PingTick"}, {"name": "Pong", "id": 1}, {"name": "PingTick"}]
        try:
            w.start()
            for act in hist:
                w.do(act)
            pings = [x for x in w.wire if x[0] == "ping"]
            disc = [x for x in w.wire if x[0] == "disconnect"]
            reported = any(p[0] == "receive-raised" for p in w.problems)
            other = [p for p in w.problems if p[0] != "receive-raised"]
            if len(pings) != 2 or disc or "authed" not in w.app or other:
                r.violation("wedged:unconvertible-success", "history %s with a <success/> the authentication layer cannot convert: keep-alive pings on the wire %d (expected 2), disconnects %d, application saw %s, error reported %s, %s" % (
                    [h["name"] for h in hist], len(pings), len(disc), w.app, reported, other[:1]), {"history": hist})
        except sched.Deadlock as e:
            r.violation("wedged:unconvertible-success", "history %s hangs: %s" % ([h["name"] for h in hist], e), {"history": hist})
        finally:
            w.close()
    finally:
        roots.close()


def extras(r):
    receive_failure_real_dispatchers(r)      # real threads: before any deterministic scheduler is installed
    failure_sites_full_stack(r)
    # a connection that dies under a write of the default (asyncore) dispatcher: nobody blocks, the end is reported (sendpath.py)
    sendpath.asyncore_flush_race(r, random.Random(core.seed() + 121), 45 if r.tier == "thorough" else 24)
    keepalive_callback_failure(r)
    unconvertible_success(r)
    redundant_disconnect(r)
    key_request_failure(r)


def run():
    return sendpath.run("C12", extra=extras)


def replay(path):
    print(open(path).read()[:3000])
    return run()
