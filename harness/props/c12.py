from harness import sendpath, core, sched, e2ekit


def keepalive_callback_failure(r):
    """An application callback raising for a keep-alive pong (full default stack, virtual time): the ping was answered, so the keep-alive
    must not close the connection at the next tick, and later pings / pongs go on normally."""
    from harness.props import c16
    roots = e2ekit.Roots()
    try:
        for npings in (1, 2):
            r.case(("keepalive-callback-failure", npings))
            r.cov["traces_validated_against_impl"] += 1
            w = c16.World(True, True)
            hist = [{"name": "ConnectRequest"}, {"name": "DispatcherConnected"}, {"name": "Success"}]
            for i in range(1, npings + 2):
                hist += [{"name": "PingTick"}, {"name": "Pong", "id": i}]
            hist += [{"name": "PingTick"}]
            try:
                w.start()
                w.raise_on_pong = True
                for act in hist:
                    w.do(act)
                disc = [x for x in w.wire if x[0] == "disconnect"]
                pings = [x for x in w.wire if x[0] == "ping"]
                other = [p for p in w.problems if p[0] != "receive-raised"]
                if disc or "disconnected" in w.app or len(pings) != npings + 2 or other:
                    r.violation("keepalive:closed-after-callback-failure", "history %s with the application raising for every pong: dispatcher calls %s, application saw %s, %s" % (
                        [h["name"] for h in hist], [x[0] for x in w.wire], w.app, other[:1]), {"history": hist})
            except sched.Deadlock as e:
                r.violation("wedged:keepalive-callback-failure", "history %s hangs: %s" % ([h["name"] for h in hist], e), {"history": hist})
            finally:
                w.close()
    finally:
        roots.close()


def run():
    return sendpath.run("C12", extra=keepalive_callback_failure)


def replay(path):
    print(open(path).read()[:3000])
    return run()
