"""C14 - one-time prekeys.  Spec: PreKeys.tla; binding A: behaviours replayed on the real AxolotlControlLayer + AxolotlManager + SQLite store
between probes (small batch sizes), uploads inspected on the wire side, keys consumed by a real peer session built from the uploaded bundle."""
import json, os, random, struct
from harness import core, e2ekit

BATCH, THRESHOLD = 2, 1


class World(object):
    N = 0

    def __init__(self, roots):
        World.N += 1
        self.phone = "49157704%05d" % World.N
        self.connects = 0
        self.raised = 0
        self.uploads = []        # outstanding upload stanzas (nodes), in order
        self.all_uploads = []
        self.peers = 0
        self.boot()

    def boot(self):
        """(Re)start the process: new layer / manager / store objects on the same profile."""
        from yowsup.layers import YowLayer
        from yowsup.layers.network import YowNetworkLayer
        from yowsup.layers.axolotl import AxolotlControlLayer
        from yowsup.stacks import YowStack
        w = self

        class Bottom(YowLayer):
            def __init__(b):
                YowLayer.__init__(b)
                b.down = []

            def send(b, node):
                b.down.append(node)
                if node.tag == "iq" and node["xmlns"] == "encrypt" and node["type"] == "set":
                    w.uploads.append(node)
                    w.all_uploads.append(node)

            def onEvent(b, ev):
                if ev.getName() == YowNetworkLayer.EVENT_STATE_DISCONNECT:
                    w.disconnect_requested = True
                    return True
                return False

        class Top(YowLayer):
            pass
        self.profile = e2ekit.make_profile(self.phone)
        self.stack = YowStack((YowNetworkLayer, Bottom, AxolotlControlLayer, Top), reversed=False, props={"profile": self.profile})
        self.net, self.bottom, self.control = self.stack.getLayer(0), self.stack.getLayer(1), self.stack.getLayer(2)

        class D(object):
            def connect(d, host):
                w.connects += 1

            def disconnect(d):
                pass

            def sendData(d, data):
                pass
        self.net._YowNetworkLayer__create_dispatcher = lambda t: D()
        self.uploads = []
        self.disconnect_requested = False

    def db(self):
        from yowsup.common.tools import StorageTools
        return StorageTools.constructPath(self.phone, "axolotl.db")

    def emit(self, name, **kw):
        from yowsup.layers import YowLayerEvent
        self.stack.emitEvent(YowLayerEvent(name, **kw))

    def do(self, act):
        from yowsup.layers import YowLayerEvent
        from yowsup.layers.network import YowNetworkLayer
        from yowsup.layers.auth import YowAuthenticationProtocolLayer
        from yowsup.structs import ProtocolTreeNode
        n = act["name"]
        if n == "Connect":
            self.emit(YowNetworkLayer.EVENT_STATE_CONNECTED)
        elif n == "Authed":
            self.stack.broadcastEvent(YowLayerEvent(YowAuthenticationProtocolLayer.EVENT_AUTHED,
                                                    passive=self.stack.getProp(YowAuthenticationProtocolLayer.PROP_PASSIVE, False)))
        elif n == "ServerAsksKeys":
            self.bottom.toUpper(ProtocolTreeNode("notification", {"t": "1600000000", "id": "n-%d" % len(self.all_uploads), "from": "s.whatsapp.net", "type": "encrypt"},
                                                 [ProtocolTreeNode("count", {"value": "0"})]))
        elif n in ("UploadResult", "UploadError"):
            node = self.uploads.pop(act["i"] - 1)
            if n == "UploadResult":
                self.bottom.toUpper(ProtocolTreeNode("iq", {"type": "result", "id": node["id"], "from": "s.whatsapp.net"}))
            else:
                try:
                    self.bottom.toUpper(ProtocolTreeNode("iq", {"type": "error", "id": node["id"], "from": "s.whatsapp.net"},
                                                         [ProtocolTreeNode("error", {"code": "500", "text": "internal-server-error"})]))
                except Exception:
                    self.raised += 1
        elif n == "ConnLost":
            self.uploads = []
            self.emit(YowNetworkLayer.EVENT_STATE_DISCONNECTED)
        elif n == "Restart":
            self.boot()
        elif n == "Consume":
            self.consume(act["id"])
        if self.disconnect_requested:
            # the layer asked for a disconnect (to leave passive mode): the network goes down
            self.disconnect_requested = False
            self.uploads = []
            self.emit(YowNetworkLayer.EVENT_STATE_DISCONNECTED)

    # ---- a peer's first message, built from what was UPLOADED for this key id
    def consume(self, kid, expect_ok=True):
        from axolotl.state.prekeybundle import PreKeyBundle
        from axolotl.identitykey import IdentityKey
        from axolotl.ecc.djbec import DjbECPublicKey
        from axolotl.sessionbuilder import SessionBuilder
        from axolotl.sessioncipher import SessionCipher
        from yowsup.axolotl.store.sqlite.liteaxolotlstore import LiteAxolotlStore
        from yowsup.common.tools import StorageTools
        up = None
        for node in reversed(self.all_uploads):
            for k in node.getChild("list").getAllChildren():
                if int.from_bytes(k.getChild("id").getData(), "big") == kid:
                    up, knode = node, k
                    break
            if up is not None:
                break
        if up is None:
            raise core.MachineryError("key %d was never uploaded" % kid)
        sk = up.getChild("skey")
        bundle = PreKeyBundle(int.from_bytes(up.getChild("registration").getData(), "big"), 1, kid, DjbECPublicKey(knode.getChild("value").getData()),
                              int.from_bytes(sk.getChild("id").getData(), "big"), DjbECPublicKey(sk.getChild("value").getData()),
                              sk.getChild("signature").getData(), IdentityKey(DjbECPublicKey(up.getChild("identity").getData())))
        self.peers += 1
        peer_db = StorageTools.constructPath("peer%d_%s" % (self.peers, self.phone), "axolotl.db")
        ps = LiteAxolotlStore(peer_db)
        me = self.phone
        SessionBuilder(ps, ps, ps, ps, me, 1).processPreKeyBundle(bundle)       # verifies the signed prekey's signature under the uploaded identity
        msg = SessionCipher(ps, ps, ps, ps, me, 1).encrypt(b"hello" + b"\x05" * 5)
        peer_id = "4915770%06d" % (900000 + self.peers)
        mgr = self.control.manager or self.profile.axolotl_manager
        pt = mgr.decrypt_pkmsg(peer_id, msg.serialize(), True)
        if pt != b"hello":
            raise ValueError("first message decrypts to %r" % (pt,))

    # ---- observables
    def observe(self, ids):
        from yowsup.axolotl.store.sqlite.liteaxolotlstore import LiteAxolotlStore
        from yowsup.layers.auth import YowAuthenticationProtocolLayer
        st = LiteAxolotlStore(self.db())
        unsent = set(r.getId() for r in st.preKeyStore.loadUnsentPendingPreKeys())
        allids = set(r.getId() for r in st.preKeyStore.loadPendingPreKeys())
        st.identityKeyStore.dbConn.close()
        store = {}
        for i in ids:
            store[str(i)] = "none" if i not in allids else ("unsent" if i in unsent else "sent")
        extra = sorted(allids - set(ids))
        ups = []
        for node in self.uploads:
            ups.append(sorted(int.from_bytes(k.getChild("id").getData(), "big") for k in node.getChild("list").getAllChildren()))
        return {"store": store, "extra_ids": extra, "passive": bool(self.stack.getProp(YowAuthenticationProtocolLayer.PROP_PASSIVE, False)),
                "uploads": ups, "reconnects": self.connects, "raised": self.raised}


def check_upload(node, mgr):
    """Every upload carries the identity key, registration id and a signed prekey whose signature verifies; ids are 3 bytes, keys 32."""
    from axolotl.ecc.curve import Curve
    from axolotl.ecc.djbec import DjbECPublicKey
    problems = []
    ident = node.getChild("identity").getData()
    if ident != mgr.identity.getPublicKey().serialize()[1:]:
        problems.append("identity key in the upload is not the account's")
    reg = node.getChild("registration").getData()
    if int.from_bytes(reg, "big") != mgr.registration_id:
        problems.append("registration id %r is not the account's %d" % (reg, mgr.registration_id))
    sk = node.getChild("skey")
    if len(ident) != 32:
        problems.append("identity key is %d bytes wide, 32 expected" % len(ident))
    elif len(sk.getChild("id").getData()) != 3 or len(sk.getChild("value").getData()) != 32 or len(sk.getChild("signature").getData()) != 64:
        problems.append("signed prekey field widths wrong")
    else:
        pub = DjbECPublicKey(sk.getChild("value").getData())
        if not Curve.verifySignature(DjbECPublicKey(ident), pub.serialize(), sk.getChild("signature").getData()):
            problems.append("signed prekey signature does not verify under the uploaded identity")
    for k in node.getChild("list").getAllChildren():
        if len(k.getChild("id").getData()) != 3 or len(k.getChild("value").getData()) != 32:
            problems.append("prekey field widths wrong")
    return problems


def replay_path(run, g, path, roots, maxid):
    w = World(roots)
    init, steps = g.path_steps(path)
    trail = []
    seen_uploads = 0
    last_store = None
    for act, to in steps:
        trail.append(dict(act))
        last_store = {str(k): v for k, v in to["store"].items()} if isinstance(to["store"], dict) else {str(i + 1): v for i, v in enumerate(to["store"])}
        try:
            w.do(act)
        except core.MachineryError as e:
            raise core.MachineryError("%s after %s" % (e, trail))
        except Exception as e:
            run.violation("exception:%s:%s" % (act["name"], type(e).__name__), "%s raised %r after %s" % (act["name"], e, [t["name"] for t in trail]), {"trail": trail})
            return False
        obs = w.observe(range(1, maxid + 1))
        exp_store = {str(k): v for k, v in to["store"].items()} if isinstance(to["store"], dict) else {str(i + 1): v for i, v in enumerate(to["store"])}
        problems = []
        if obs["store"] != exp_store or obs["extra_ids"]:
            # the recorded finding and nothing else: in a generation step the code produced ids that the specification had
            # generated before and that were consumed since (it continues after the highest STORED id), instead of fresh ones
            vers = to["ver"] if isinstance(to["ver"], dict) else {str(i + 1): v for i, v in enumerate(to["ver"])}
            mine = set(k for k, v in obs["store"].items() if v != "none")
            want = set(k for k, v in exp_store.items() if v != "none")
            reuse = (act["name"] in ("Connect", "ServerAsksKeys") and not obs["extra_ids"] and len(mine - want) == len(want - mine) > 0
                     and all(obs["store"][k] == "unsent" and vers[k] >= 1 for k in mine - want)
                     and all(exp_store[k] == "unsent" for k in want - mine)
                     and all(obs["store"][k] == exp_store[k] for k in mine & want)
                     and max(int(k) for k in mine - want) < min(int(k) for k in want - mine))
            problems.append(("store:%s" % ("id-reuse" if reuse else act["name"]),
                             "store (id: state) %s extra %s, specification %s" % ({k: v for k, v in obs["store"].items() if v != "none"}, obs["extra_ids"],
                                                                                  {k: v for k, v in exp_store.items() if v != "none"})))
        exp_up = [sorted(u["ids"]) for u in to["uploads"]]
        if obs["uploads"] != exp_up and not problems:
            problems.append(("uploads:%s" % act["name"], "outstanding uploads offer ids %s, specification %s" % (obs["uploads"], exp_up)))
        if obs["passive"] != to["passive"] and not problems:
            problems.append(("passive:%s" % act["name"], "passive flag %s, specification %s" % (obs["passive"], to["passive"])))
        if (obs["reconnects"], obs["raised"]) != (to["reconnects"], to["raised"]) and not problems:
            problems.append(("reconnect:%s" % act["name"], "reconnects/raised %s, specification %s" % ((obs["reconnects"], obs["raised"]), (to["reconnects"], to["raised"]))))
        for node in w.all_uploads[seen_uploads:]:
            for p in check_upload(node, w.control.manager or w.profile.axolotl_manager):
                problems.append(("upload-stanza", p))
        seen_uploads = len(w.all_uploads)
        if problems:
            for sig, desc in problems[:2]:
                run.violation(sig, "after %s: %s" % ([t["name"] + (str(t.get("id", t.get("i", ""))) ) for t in trail], desc), {"trail": trail})
            return False
    # a consumed key cannot be used again
    consumed = [t["id"] for t in trail if t["name"] == "Consume"]
    for kid in consumed[:1]:
        if last_store is not None and last_store.get(str(kid), "none") != "none":
            continue        # the id was given to another key since (as-read model / the recorded finding): that key is a different one
        try:
            w.consume(kid)
            run.violation("consumed-key-reusable", "prekey %d was consumed by a first message and accepted a second one (%s)" % (kid, [t["name"] for t in trail]), {"trail": trail})
            return False
        except core.MachineryError:
            raise
        except Exception:
            pass
    return True


def pinned_release_store(r):
    """A key store written by the pinned release marks a prekey that was never uploaded with NO value in its sent flag (the column has no
    default).  Such a store keeps working: after reopening, every key that was not uploaded is still offered."""
    import sqlite3
    from yowsup.common.tools import StorageTools
    roots = e2ekit.Roots()
    try:
        r.case(("pinned-release-store",))
        r.cov["traces_validated_against_impl"] += 1
        phone = "4915770007701"
        m = e2ekit.make_profile(phone).axolotl_manager
        made = sorted(k.getId() for k in m.level_prekeys(force=True))
        m._store.identityKeyStore.dbConn.close()
        db = StorageTools.constructPath(phone, "axolotl.db")
        c = sqlite3.connect(db)
        c.execute("UPDATE prekeys SET sent_to_server = NULL WHERE sent_to_server IS NULL OR sent_to_server = 0")     # the pinned release's "not uploaded"
        c.commit()
        c.close()
        m2 = e2ekit.make_profile(phone).axolotl_manager
        offered = sorted(k.getId() for k in m2.load_unsent_prekeys())
        m2._store.identityKeyStore.dbConn.close()
        if offered != made:
            r.violation("store:pinned-release-flags", "keys %s were generated and never uploaded (flag empty, as the pinned release writes it); after reopening the keys offered for upload are %s" % (made, offered), {})
    finally:
        roots.close()


def run():
    r = core.Run("C14", "model_checking")
    thorough = r.tier == "thorough"
    rng = random.Random(core.seed())
    r.cov["rule"] = ("case = one history of PreKeys.tla (connect, authenticated passive or not, server asks for keys, upload result / error, connection "
                     "lost before the result, restart, consumption of an offered key by a peer's first message; batch 2, threshold 1) replayed on the real "
                     "control layer + manager + SQLite store; after each step the store read through a fresh connection, outstanding upload stanzas, passive "
                     "flag, reconnects are compared with the specification; every upload stanza is validated (identity, registration id, signature); "
                     "distinct by history")
    res = core.must_clean(core.tlc("PreKeys", "MC_PreKeys_thorough.cfg" if thorough else "MC_PreKeys.cfg", r.scratch, workers=16, timeout=3000), "MC_PreKeys")
    r.add_tlc(res)
    bad = core.tlc("PreKeys", "MC_PreKeys_asread.cfg", r.scratch, workers=8)
    core.must_violate(bad, "OneKeyPerId", "MC_PreKeys_asread")
    r.notes["selftest_asread_switch_violates"] = "OneKeyPerId"
    eg = core.tlc("PreKeys", "Edges_PreKeys_thorough.cfg" if thorough else "Edges_PreKeys.cfg", r.scratch, workers=1, timeout=3000)
    g = core.Graph(eg.printed())
    if len(g.edges) < 300:
        raise core.MachineryError("PreKeys edge dump too small (%d)" % len(g.edges))
    r.notes["spec_transitions"] = len(g.edges)
    roots = e2ekit.Roots()
    e2ekit.small_batches(BATCH, THRESHOLD)
    try:
        paths = g.transition_cover(rng, tail=2)
        r.notes["cover_paths"] = len(paths)
        if not thorough and len(paths) > 1500:
            paths = rng.sample(paths, 1500)
        paths += g.random_walks(1500 if thorough else 200, 10, rng)      # other pasts for the same transitions
        covered = set()
        for pi, p in enumerate(paths):
            covered.update(p)
            replay_path(r, g, p, roots, 6)
            r.case(tuple(p))
            r.cov["traces_validated_against_impl"] += 1
            if pi < 2:
                r.sample({"history": [g.edges[i][1] for i in p]})
        r.notes["spec_transitions_replayed"] = len(covered)
        # deeper histories without losses / restarts / upload errors: a key id is consumed, given again to a key of a later batch and
        # consumed again (row numbering of the table and key ids drift apart on the way).  This graph is the AS-READ model (FreshIds =
        # FALSE: ids continue after the highest stored id - the recorded finding), so that the replay can follow the code past the
        # point where the claimed model and the code part ways and compare everything else
        egr = core.tlc("PreKeys", "Edges_PreKeys_reuse.cfg", r.scratch, workers=1, timeout=3000)
        gr = core.Graph(egr.printed())
        if len(gr.edges) < 500:
            raise core.MachineryError("PreKeys id-reuse edge dump too small (%d)" % len(gr.edges))
        pr = gr.transition_cover(rng, tail=1)
        if not thorough and len(pr) > 500:
            pr = rng.sample(pr, 500)
        pr += gr.random_walks(300 if thorough else 60, 10, rng)
        for p in pr:
            replay_path(r, gr, p, roots, 6)
            r.case(("reuse",) + tuple(p))
            r.cov["traces_validated_against_impl"] += 1
        r.notes["spec_transitions_id_reuse_graph"] = len(gr.edges)
        # a second parameter point: batches of 3, refill below 2 - here a login can generate a new batch WHILE keys of an earlier,
        # unconfirmed upload are still waiting (impossible with batch 2 / threshold 1)
        res3 = core.must_clean(core.tlc("PreKeys", "MC_PreKeys_b3.cfg", r.scratch, workers=16, timeout=3000), "MC_PreKeys_b3")
        r.add_tlc(res3)
        eg3 = core.tlc("PreKeys", "Edges_PreKeys_b3.cfg", r.scratch, workers=1, timeout=3000)
        g3 = core.Graph(eg3.printed())
        if len(g3.edges) < 300:
            raise core.MachineryError("PreKeys (batch 3) edge dump too small (%d)" % len(g3.edges))
        e2ekit.small_batches(3, 2)
        p3 = g3.transition_cover(rng, tail=2)
        r.notes["cover_paths_batch3"] = len(p3)
        p3 += g3.random_walks(600 if thorough else 100, 10, rng)
        for p in p3:
            replay_path(r, g3, p, roots, 9)
            r.case(("b3",) + tuple(p))
            r.cov["traces_validated_against_impl"] += 1
        r.notes["spec_transitions_batch3"] = len(g3.edges)
    finally:
        e2ekit.small_batches(BATCH, THRESHOLD)
        roots.close()
    pinned_release_store(r)
    r.assumptions += core.ENV_ASSUMPTIONS[:1] + ["batch size 2 / threshold 1 set through the manager's class attributes", "the server is the harness (stanzas injected at the control layer's lower side)",
                      "consumption is a real first message from a peer session built (with python-axolotl) from the uploaded bundle"]
    return r.finish()


def replay(path):
    print(open(path).read()[:3000])
    return run()
