"""C18 - stack assembly and event propagation.  Specs: StackCore.tla, StackBuild.tla; binding A (edge replay)."""
import json, random, itertools
from harness import core

EVNAME = "org.verif.event.probe"


class _StopLoop(Exception):
    pass


class _FakeTime(object):
    def sleep(self, s):
        raise _StopLoop()

    def __getattr__(self, n):
        import time
        return getattr(time, n)


def _layer_class(lid, consume, mode, LOG):
    from yowsup.layers import YowLayer, EventCallback, YowLayerInterface

    class Rec(YowLayer):
        LID = lid

        def __init__(self):
            YowLayer.__init__(self)
            self.interface = YowLayerInterface(self)

        @EventCallback(EVNAME)
        def on_probe(self, ev):
            LOG.append((lid, "event", ()))
            return consume

        def send(self, d):
            LOG.append((lid, "down", d))
            if mode == "pass":
                self.toLower(d)
            elif mode == "xform":
                self.toLower(d + (lid,))

        def receive(self, d):
            LOG.append((lid, "up", d))
            if mode == "pass":
                self.toUpper(d)
            elif mode == "xform":
                self.toUpper(d + (lid,))

        def __str__(self):
            return "Rec%s" % (lid,)
    Rec.__name__ = "Rec_%d_%d" % lid
    return Rec


def build_stack(cfg, LOG, variant):
    """variant 0: classes bottom-first reversed=False; 1: top-first default; 2: explicit YowParallelLayer; 3: instances."""
    from yowsup.stacks import YowStack
    from yowsup.layers import YowParallelLayer
    consume = set(tuple(c) for c in cfg["consume"])
    mode = {tuple(m["l"]): m["m"] for m in cfg["mode"]}
    items = []
    classes = {}
    for si, k in enumerate(cfg["shape"]):
        s = si + 1
        if k == 0:
            c = _layer_class((s, 0), (s, 0) in consume, mode[(s, 0)], LOG)
            classes[(s, 0)] = c
            items.append(c() if variant == 3 else c)
        else:
            cs = []
            for m in range(1, k + 1):
                c = _layer_class((s, m), (s, m) in consume, mode[(s, m)], LOG)
                classes[(s, m)] = c
                cs.append(c)
            items.append(YowParallelLayer(tuple(cs)) if variant in (2, 3) else tuple(cs))
    if variant == 1:
        st = YowStack(tuple(items[::-1]))
    else:
        st = YowStack(tuple(items), reversed=False)
    return st, classes


def get_inst(st, l):
    inst = st.getLayer(l[0] - 1)
    return inst if l[1] == 0 else inst.sublayers[l[1] - 1]


def dontcare(cfg, act):
    dc = set()
    consume = set(tuple(c) for c in cfg["consume"])
    for si, k in enumerate(cfg["shape"]):
        s = si + 1
        if k > 0:
            # (members of a group AFTER its first consuming member are not shown the event - "until a layer consumes it" - as the
            # specification's GroupSee says; they used to be exempt from the comparison)
            if act.get("name") == "Event" and act["l"][0] == s and act["l"][1] > 0:
                for m in range(1, k + 1):
                    dc.add((s, m))
    return dc


def norm_log(entries):
    return [(tuple(e["l"]), e["what"], tuple(tuple(x) for x in e["d"])) for e in entries]


def compare(run, cfg, act, spec_log, LOG, stage, variant, chain):
    dc = dontcare(cfg, chain[0])
    sl = norm_log(spec_log)
    il = list(LOG)
    layers = set(x[0] for x in sl) | set(x[0] for x in il)
    problems = []
    for l in sorted(layers):
        a = [x for x in sl if x[0] == l]
        b = [x for x in il if x[0] == l]
        if l in dc:
            if len([x for x in b if x[1] == "event"]) > 1:
                problems.append("layer %s saw the event %d times" % (l, len(b)))
        elif a != b:
            problems.append("layer %s: expected %s got %s" % (l, a, b))
    ea = [x[0] for x in sl if x[1] == "event" and x[0] not in dc]
    eb = [x[0] for x in il if x[1] == "event" and x[0] not in dc]
    if not problems and ea != eb:
        problems.append("event order: expected %s got %s" % (ea, eb))
    if problems:
        kind = chain[0]["name"]
        sig = "propagation:%s:%s" % (kind, stage)
        run.violation(sig, "shape=%s consume=%s act=%s variant=%d: %s" % (
            cfg["shape"], cfg["consume"], chain, variant, "; ".join(problems[:3])),
            {"cfg": cfg, "chain": chain, "variant": variant, "impl_log": [list(map(str, x)) for x in il]})
        return False
    return True


def run_case(run, g, ei, variant):
    import yowsup.stacks.yowstack as ys
    from yowsup.layers import YowLayerEvent
    src, act, dst = g.edges[ei]
    cfg = g.states[src]["cfg"]
    LOG = []
    core.drain_detached()
    chain = [act]
    try:
        st, classes = build_stack(cfg, LOG, variant)
        try:
            st.getLayer(len(cfg["shape"]))
            run.violation("build:extra-layers", "stack built from %d items has more than %d layers" % (
                len(cfg["shape"]), len(cfg["shape"])), {"cfg": cfg, "variant": variant})
            return False
        except IndexError:
            pass
        # interfaces are found by class, also inside groups
        for l, c in classes.items():
            if st.getLayerInterface(c) is not get_inst(st, l).interface:
                run.violation("interface:by-class", "getLayerInterface(%s) did not return layer %s's interface (shape %s)" % (
                    c.__name__, l, cfg["shape"]), {"cfg": cfg})
                return False
        # wiring: getLayer order
        n = act["name"]
        if n == "Event":
            inst = get_inst(st, tuple(act["l"]))
            ev = YowLayerEvent(EVNAME, detached=True) if act["detached"] else YowLayerEvent(EVNAME)
            (inst.emitEvent if act["dir"] == "up" else inst.broadcastEvent)(ev)
        elif n == "StackEvent":
            ev = YowLayerEvent(EVNAME, detached=True) if act["detached"] else YowLayerEvent(EVNAME)
            (st.emitEvent if act["dir"] == "up" else st.broadcastEvent)(ev)
        elif n == "Data":
            (st.send if act["dir"] == "down" else st.receive)(())
        ok = compare(run, cfg, act, g.states[dst]["log"], LOG, "sync", variant, chain)
        cur = dst
        steps = 0
        while ok and g.states[cur]["q"]:
            nxt = [x for x in g.out.get(cur, []) if g.edges[x][1]["name"] == "LoopStep"]
            if not nxt:
                raise core.MachineryError("no LoopStep edge in dump")
            cur = g.edges[nxt[0]][2]
            chain.append({"name": "LoopStep"})
            try:
                st.loop()
            except _StopLoop:
                pass
            ok = compare(run, cfg, act, g.states[cur]["log"], LOG, "loop", variant, chain)
            steps += 1
        if ok:
            # nothing further may be pending once the specification's queue is empty
            before = len(LOG)
            for _ in range(3):
                try:
                    st.loop()
                except _StopLoop:
                    pass
            if len(LOG) != before:
                run.violation("propagation:extra-deferred", "loop delivered %d extra visits after the queue should be empty (%s)" % (
                    len(LOG) - before, chain), {"cfg": cfg, "chain": chain})
                ok = False
        return ok
    except _StopLoop:
        raise
    except core.MachineryError:
        raise
    except Exception as e:
        run.violation("propagation:exception:%s" % type(e).__name__, "shape=%s act=%s variant=%d raised %r" % (
            cfg["shape"], chain, variant, e), {"cfg": cfg, "chain": chain, "variant": variant})
        return False


# ---------------------------------------------------------------- assembly

def concrete_item(it, reg):
    from yowsup.layers import YowLayer, YowParallelLayer

    def cls(n):
        if n not in reg:
            reg[n] = type("L_" + n, (YowLayer,), {})
        return reg[n]
    k = it["k"]
    if k == "cls":
        return cls(it["n"][0])
    if k == "inst":
        return cls(it["n"][0])()
    if k == "tuple":
        return tuple(cls(n) for n in it["n"])
    return YowParallelLayer(tuple(cls(n) for n in it["n"]))


def describe_stack(st, n_expected, names=lambda c: c.__name__):
    from yowsup.layers import YowParallelLayer
    out = []
    i = 0
    while True:
        try:
            inst = st.getLayer(i)
        except IndexError:
            break
        if inst.__class__ is YowParallelLayer:
            out.append({"group": True, "names": [names(s.__class__) for s in inst.sublayers]})
        else:
            out.append({"group": False, "names": [names(inst.__class__)]})
        i += 1
        if i > n_expected + 5:
            break
    return out


def check_wiring(st, n):
    """upper/lower neighbours are the adjacent layers."""
    for i in range(n):
        inst = st.getLayer(i)
        up = inst._YowLayer__upper
        lo = inst._YowLayer__lower
        if up is not (st.getLayer(i + 1) if i + 1 < n else None) or lo is not (st.getLayer(i - 1) if i > 0 else None):
            return False
    return True


def strip(n):
    return n[2:] if n.startswith("L_") else n


def replay_build(run, g, path):
    from yowsup.stacks import YowStackBuilder, YowStack
    init, steps = g.path_steps(path)
    b = YowStackBuilder()
    reg = {}
    trail = []
    items = []
    for act, to in steps:
        trail.append(act)
        try:
            n = act["name"]
            if n == "Push":
                it = concrete_item(act["it"], reg)
                b.push(it)
            elif n == "Pop":
                b.pop()
            elif n == "PushDefault":
                b.pushDefaultLayers()
            elif n == "Build":
                st = b.build()
                got = describe_stack(st, len(to["built"]), lambda c: strip(c.__name__))
                if got != to["built"]:
                    run.violation("build:builder-order", "builder program %s built %s, expected %s" % (trail, got, to["built"]),
                                  {"trail": trail})
                    return False
                if not check_wiring(st, len(got)):
                    run.violation("build:wiring", "neighbour wiring wrong for %s" % (trail,), {"trail": trail})
                    return False
                # same layer list given directly, in both order conventions
                for rev in (True, False):
                    reg2 = {}
                    lay = [concrete_item(x, reg2) for x in to["layers"] if True]
                    st2 = YowStack(tuple(lay[::-1])) if rev else YowStack(tuple(lay), reversed=False)
                    got2 = describe_stack(st2, len(to["built"]), lambda c: strip(c.__name__))
                    if got2 != to["built"] or not check_wiring(st2, len(got2)):
                        run.violation("build:direct-order", "YowStack(tuple, reversed=%s) gave %s, expected %s" % (rev, got2, to["built"]),
                                      {"trail": trail, "reversed": rev})
                        return False
        except Exception as e:
            run.violation("build:exception:%s" % type(e).__name__, "builder program %s raised %r" % (trail, e), {"trail": trail})
            return False
    return True


def check_helpers(run, helpers):
    from yowsup.stacks import YowStackBuilder
    from yowsup.layers import YowLayer, YowParallelLayer
    n = 0
    for h in helpers:
        exp = h["layers"]
        kw = dict(groups=h["g"], media=h["m"], privacy=h["p"], profiles=h["pr"])
        try:
            lay = YowStackBuilder.getDefaultLayers(**kw)
            got = [({"group": True, "names": [s.__class__.__name__ for s in x.sublayers]} if isinstance(x, YowParallelLayer)
                    else {"group": False, "names": [x.__name__]}) for x in lay]
            if got != exp:
                run.violation("helpers:getDefaultLayers", "getDefaultLayers(%s) = %s expected %s" % (kw, got, exp), {"kw": kw})
        except Exception as e:
            run.violation("helpers:getDefaultLayers:exception", "getDefaultLayers(%s) raised %r" % (kw, e), {"kw": kw})
        run.case(("helpers", json.dumps(kw, sort_keys=True)))
        n += 1
        for axolotl in (False, True):
            for extra in (False, True):
                Extra = type("L_Top", (YowLayer,), {})
                args = dict(kw, axolotl=axolotl)
                if extra:
                    args["layer"] = Extra
                want = exp + ([{"group": False, "names": ["L_Top"]}] if extra else [])
                try:
                    st = YowStackBuilder.getDefaultStack(**args)
                    got = describe_stack(st, len(want))
                    if got != want or not check_wiring(st, len(want)):
                        run.violation("helpers:getDefaultStack", "getDefaultStack(%s) = %s expected %s" % (args, got, want), {"args": repr(args)})
                except Exception as e:
                    run.violation("helpers:getDefaultStack:exception:%s" % type(e).__name__,
                                  "getDefaultStack(%s) raised %r" % (sorted(args), e), {"args": repr(args)})
                run.case(("stackhelper", json.dumps(sorted((k, str(v)) for k, v in args.items()))))
                n += 1
    return n


def interface_lookup_exact(run):
    """Interfaces are looked up by the layer's class itself: with a layer class and a subclass of it in one stack (in either order, as
    plain layers or as members of a parallel group), each class finds the interface of its own instance."""
    from yowsup.layers import YowLayer, YowLayerInterface, YowParallelLayer
    from yowsup.stacks import YowStack

    class Base(YowLayer):
        def __init__(self):
            YowLayer.__init__(self)
            self.interface = YowLayerInterface(self)

    class Sub(Base):
        pass

    class Other(YowLayer):
        pass
    shapes = {"sub-below-base": (Sub, Other, Base), "base-below-sub": (Base, Other, Sub),
              "group(sub,base)": (Other, YowParallelLayer((Sub, Base))), "group(base,sub)": (Other, YowParallelLayer((Base, Sub))),
              "sub-below-group(base)": (Sub, YowParallelLayer((Other, Base))), "group(sub)-below-base": (YowParallelLayer((Sub, Other)), Base)}
    for name, layers in shapes.items():
        run.case(("interface-exact", name))
        try:
            st = YowStack(layers, reversed=False)
            insts = {}
            i = 0
            while True:
                try:
                    l = st.getLayer(i)
                except IndexError:
                    break
                for x in (l.sublayers if isinstance(l, YowParallelLayer) else (l,)):
                    insts[type(x)] = x
                i += 1
            for cls in (Base, Sub):
                got = st.getLayerInterface(cls)
                if got is not insts[cls].interface:
                    run.violation("interface:by-class:subclass", "stack %s: getLayerInterface(%s) returned the interface of %s" % (
                        name, cls.__name__, type(got._layer).__name__ if got is not None and hasattr(got, "_layer") else got), {"shape": name})
                    break
                via = insts[Other].getLayerInterface(cls)
                if via is not insts[cls].interface:
                    run.violation("interface:by-class:subclass", "stack %s: a layer asking for the interface of %s got another layer's" % (name, cls.__name__), {"shape": name})
                    break
        except core.TooManyViolations:
            raise
        except Exception as e:
            run.violation("interface:exception:%s" % type(e).__name__, "stack %s: interface lookup raised %r" % (name, e), {"shape": name})


def deferred_in_order(run):
    """Deferred events are delivered when the stack's loop runs - in the order in which they were deferred: two (three) detached events
    emitted one after the other, and callbacks handed to execDetached, reach the layers above oldest first, one per loop turn."""
    import yowsup.stacks.yowstack as ys
    from yowsup.layers import YowLayer, YowLayerEvent
    from yowsup.stacks import YowStack
    for nev in (2, 3):
        for how in ("events", "callbacks", "mixed"):
            run.case(("deferred-order", nev, how))
            run.cov["traces_validated_against_impl"] += 1
            core.drain_detached()
            seen = []

            class L(YowLayer):
                def onEvent(self, ev):
                    if ev.getName().startswith("verif.deferred."):
                        seen.append((self.__class__.__name__, ev.getName().rsplit(".", 1)[1]))
                    return False
            Bottom, Mid, Top = type("Bottom", (L,), {}), type("Mid", (L,), {}), type("Top", (L,), {})
            st = YowStack((Bottom, Mid, Top), reversed=False)
            want = []
            for i in range(nev):
                name = "e%d" % i
                if how == "events" or (how == "mixed" and i % 2 == 0):
                    st.getLayer(0).emitEvent(YowLayerEvent("verif.deferred.%s" % name, detached=True))
                    want.append(("Top", name))
                else:
                    st.execDetached(lambda name=name: seen.append(("callback", name)))
                    want.append(("callback", name))
            sync = list(seen)
            turns = []
            for _ in range(nev + 2):
                before = len(seen)
                try:
                    st.loop()
                except _StopLoop:
                    pass
                turns.append(len(seen) - before)
            deferred = [x for x in seen[len(sync):]]
            core.drain_detached()
            if deferred != want or turns[:nev] != [1] * nev or any(turns[nev:]):
                run.violation("propagation:deferred-order:%s" % how, "%d deferred %s, then the loop: delivered %s (per turn %s), expected %s one per turn; synchronously seen %s" % (
                    nev, how, deferred, turns, want, sync), {"n": nev, "how": how})


def same_class_twice_and_two_stacks(run):
    """(a) The same interfaced layer class at two positions of one stack (plain / in groups, either order convention): the lookup by class
    answers with the interface of the FIRST occurrence in stack order (bottom first), as the pinned code does, and does so for the stack
    and for every layer of it.  (b) Stacks built one after the other by the default helpers share no layer object: every layer (and group
    member) instance belongs to one stack, and an event broadcast in the first stack is seen only by the first stack's layers."""
    from yowsup.layers import YowLayer, YowLayerInterface, YowLayerEvent, YowParallelLayer
    from yowsup.stacks import YowStack, YowStackBuilder

    class Twice(YowLayer):
        def __init__(self):
            YowLayer.__init__(self)
            self.interface = YowLayerInterface(self)

    class Other(YowLayer):
        pass
    shapes = {"plain,plain": ((Twice, Other, Twice), False), "plain,plain top-first": ((Twice, Other, Twice), True),
              "plain,group": ((Twice, YowParallelLayer((Other, Twice))), False), "group,plain": ((YowParallelLayer((Twice, Other)), Twice), False),
              "group,group": ((YowParallelLayer((Other, Twice)), Other, YowParallelLayer((Twice, Other))), False)}
    for name, (layers, rev) in shapes.items():
        run.case(("same-class-twice", name))
        try:
            st = YowStack(layers, reversed=rev)
            order = []
            i = 0
            while True:
                try:
                    l = st.getLayer(i)
                except IndexError:
                    break
                for x in (l.sublayers if isinstance(l, YowParallelLayer) else (l,)):
                    if isinstance(x, Twice):
                        order.append(x)
                i += 1
            got = st.getLayerInterface(Twice)
            if len(order) != 2 or got is not order[0].interface:
                run.violation("interface:by-class:first-occurrence", "stack %s with the class at two positions: getLayerInterface returned %s" % (
                    name, "the LAST occurrence's interface" if len(order) == 2 and got is order[1].interface else got), {"shape": name})
        except Exception as e:
            run.violation("interface:by-class:exception", "stack %s raised %r" % (name, e), {"shape": name})
    # (b) default stacks are disjoint
    for how in ("getDefaultStack", "builder"):
        run.case(("two-default-stacks", how))
        try:
            def make():
                return YowStackBuilder.getDefaultStack(axolotl=True) if how == "getDefaultStack" else YowStackBuilder().pushDefaultLayers().build()

            def objs(st):
                out, i = [], 0
                while True:
                    try:
                        l = st.getLayer(i)
                    except IndexError:
                        return out
                    out.append(l)
                    if isinstance(l, YowParallelLayer):
                        out.extend(l.sublayers)
                    i += 1
            s1 = make()
            o1 = objs(s1)
            s2 = make()
            o2 = objs(s2)
            o1b = objs(s1)
            shared = [type(x).__name__ for x in o1b if any(x is y for y in o2)]
            moved = [type(x).__name__ for x, y in zip(o1, o1b) if x is not y] + ([] if len(o1) == len(o1b) else ["layer count changed"])
            foreign = [type(x).__name__ for x in o1b if getattr(x, "getStack", None) and x.getStack() is not s1]
            if shared or moved or foreign:
                run.violation("build:stacks-share-layers", "two stacks from %s: layer objects in both stacks %s; first stack's layers changed by building the second %s; layers of the first stack that answer to another stack %s" % (
                    how, shared[:4], moved[:4], foreign[:4]), {"how": how})
        except Exception as e:
            run.violation("build:two-stacks:exception", "building two default stacks (%s) raised %r" % (how, e), {"how": how})


def added_layer_and_overriding_member(run):
    """(a) A layer added with addPostConstructLayer is the stack's new top: data sent from the stack's top and events broadcast at stack
    level pass through it.  (b) A member of a parallel group that handles events by overriding onEvent (not by @EventCallback) is offered
    every event that reaches the group and can consume it."""
    from yowsup.layers import YowLayer, YowLayerEvent, YowParallelLayer
    from yowsup.stacks import YowStack
    log = []

    class L(YowLayer):
        def send(self, data):
            log.append((self.__class__.__name__, "send"))
            self.toLower(data)

        def receive(self, data):
            log.append((self.__class__.__name__, "receive"))
            self.toUpper(data)

        def onEvent(self, ev):
            log.append((self.__class__.__name__, "event"))
            return False
    A, B, Added = type("A", (L,), {}), type("B", (L,), {}), type("Added", (L,), {})
    run.case(("post-construct-layer",))
    try:
        st = YowStack((A, B), reversed=False)
        st.addPostConstructLayer(Added())
        del log[:]
        st.send(b"x")
        down = list(log)
        del log[:]
        st.broadcastEvent(YowLayerEvent("verif.added.event"))
        bro = list(log)
        del log[:]
        st.receive(b"y")
        up = list(log)
        want_down = [("Added", "send"), ("B", "send"), ("A", "send")]
        if down != want_down or [x for x in bro if x[1] == "event"] != [("Added", "event"), ("B", "event"), ("A", "event")] or up != [("A", "receive"), ("B", "receive"), ("Added", "receive")]:
            run.violation("build:post-construct-layer", "stack (A, B) + addPostConstructLayer(Added): send from the top passed %s, a stack-level broadcast %s, received data %s" % (down, bro, up), {})
    except Exception as e:
        run.violation("build:post-construct-layer:exception", "raised %r" % (e,), {})
    # (b)
    seen = []

    class Over(YowLayer):
        def onEvent(self, ev):
            seen.append(("Over", ev.getName()))
            return ev.getName().endswith(".consume")

    class Plain(YowLayer):
        def onEvent(self, ev):
            seen.append((self.__class__.__name__, ev.getName()))
            return False
    Below, Above = type("Below", (Plain,), {}), type("Above", (Plain,), {})
    for name in ("verif.group.pass", "verif.group.consume"):
        run.case(("overriding-member", name))
        try:
            del seen[:]
            st = YowStack((Below, YowParallelLayer((Over,)), Above), reversed=False)
            st.getLayer(0).emitEvent(YowLayerEvent(name))
            want = [("Over", name)] + ([("Above", name)] if name.endswith("pass") else [])
            if seen != want:
                run.violation("propagation:overriding-member", "event %s emitted below a group whose member overrides onEvent: seen by %s, expected %s" % (name, seen, want), {"event": name})
        except Exception as e:
            run.violation("propagation:overriding-member:exception", "raised %r" % (e,), {})


def subclass_event_handlers(run):
    """Event handlers are per class: a layer class and a subclass that adds / overrides handlers may both be instantiated in one
    process, in either order, and each instance sees exactly the events its own class handles."""
    from yowsup.layers import YowLayer, YowLayerEvent, EventCallback
    from yowsup.stacks import YowStack
    for order in ("base-first", "sub-first"):
        run.case(("subclass-handlers", order))
        log = []

        class Base(YowLayer):
            @EventCallback("verif.e1")
            def on_e1(self, ev):
                log.append((type(self).__name__, "e1"))
                return False

        class Sub(Base):
            @EventCallback("verif.e2")
            def on_e2(self, ev):
                log.append((type(self).__name__, "e2"))
                return False

        class Top(YowLayer):
            pass
        try:
            stacks = {}
            for cls in ((Base, Sub) if order == "base-first" else (Sub, Base)):
                stacks[cls.__name__] = YowStack((cls, Top), reversed=False)
            for name, st in stacks.items():
                del log[:]
                st.getLayer(1).broadcastEvent(YowLayerEvent("verif.e1"))
                st.getLayer(1).broadcastEvent(YowLayerEvent("verif.e2"))
                want = [(name, "e1")] + ([(name, "e2")] if name == "Sub" else [])
                if log != want:
                    run.violation("events:subclass-handlers", "layer class %s (classes instantiated %s): handlers called %s, expected %s" % (name, order, log, want), {"order": order})
        except core.TooManyViolations:
            raise
        except Exception as e:
            run.violation("events:subclass-handlers:exception:%s" % type(e).__name__, "subclassed layers raised %r" % (e,), {"order": order})


def run():
    r = core.Run("C18", "model_checking")
    thorough = r.tier == "thorough"
    rng = random.Random(core.seed())
    import yowsup.stacks.yowstack as ys
    ys.time = _FakeTime()
    import logging
    r.cov["rule"] = ("case = one edge (configuration: shape/consumers/data modes; operation: emit/broadcast from a layer or group member, "
                     "stack-level entry, send/receive; then LoopStep) of StackCore.tla replayed on a real YowStack of synthesised layers "
                     "in 4 construction variants, or one builder/helper behaviour of StackBuild.tla; distinct by (edge, variant)")
    consts = "MC_StackCore_thorough.cfg" if thorough else "MC_StackCore.cfg"
    res = core.must_clean(core.tlc("StackCore", consts, r.scratch, workers=16, coverage=not thorough, timeout=1500), consts)
    r.add_tlc(res)
    eg = core.tlc("StackCore", "Edges_StackCore_thorough.cfg" if thorough else "Edges_StackCore.cfg", r.scratch, workers=1, timeout=1500)
    g = core.Graph(eg.printed(), inits=[])
    if len(g.edges) < 5000:
        raise core.MachineryError("StackCore edge dump too small: %d\n%s" % (len(g.edges), eg.out[-2000:]))
    r.notes["spec_transitions"] = len(g.edges)
    names = {}
    for _, a, _ in g.edges:
        names[a["name"]] = names.get(a["name"], 0) + 1
    for a in ("Event", "StackEvent", "Data", "LoopStep"):
        if not names.get(a):
            raise core.MachineryError("action %s never taken in StackCore" % a)
    r.notes["spec_action_counts"] = names
    done = 0
    for ei, (s, a, d) in enumerate(g.edges):
        if a["name"] == "LoopStep":
            continue
        variants = (0, 1, 2, 3) if (thorough or ei % 4 == 0) else (ei % 4,)
        for v in variants:
            run_case(r, g, ei, v)
            r.case((ei, v), nontrivial=len(g.states[d]["log"]) > 0)
            r.cov["traces_validated_against_impl"] += 1
        done += 1
        if done in (7, 1500, 9000):
            r.sample({"cfg": g.states[s]["cfg"], "act": a, "expected_log": g.states[d]["log"], "queued": g.states[d]["q"]})
    r.notes["spec_transitions_replayed"] = len(g.edges)
    # deeper stacks by simulation (thorough): depth 6, groups of 4
    # assembly
    rb = core.must_clean(core.tlc("StackBuild", "MC_StackBuild.cfg", r.scratch, workers=4), "MC_StackBuild")
    r.add_tlc(rb)
    helpers = [p for p in rb.printed() if isinstance(p, dict) and "helpers" in p]
    if not helpers:
        raise core.MachineryError("no helper cases printed")
    eb = core.tlc("StackBuild", "Edges_StackBuild.cfg", r.scratch, workers=1)
    gb = core.Graph([p for p in eb.printed() if isinstance(p, dict) and "from" in p])
    paths = gb.transition_cover(rng)
    for p in paths:
        replay_build(r, gb, p)
        r.case(("build", tuple(p)))
        r.cov["traces_validated_against_impl"] += 1
    r.sample({"builder_behaviour": [gb.edges[i][1] for i in paths[0]]})
    check_helpers(r, helpers[0]["helpers"])
    r.assumptions += core.ENV_ASSUMPTIONS[:1] + ["stack loop is stepped by rebinding yowsup.stacks.yowstack.time (sleep raises after one iteration)",
                      "members of a group after a consuming member, and siblings of an emitting member, are compared as don't-care (at most once)"]
    interface_lookup_exact(r)
    subclass_event_handlers(r)
    deferred_in_order(r)
    same_class_twice_and_two_stacks(r)
    added_layer_and_overriding_member(r)
    return r.finish()


def replay(path):
    print(open(path).read()[:3000])
    return run()
