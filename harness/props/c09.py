"""C09 - entities and stanzas convert into each other without loss; entity-produced stanzas survive the codec.
Structural oracle: the hand-written shape catalogue (harness/catalogue.py); codec oracle: WireFormat.tla evaluated by TLC."""
import json, random, re
from harness import core, wire


def norm(what):
    w = what.split(";")[0]
    w = re.sub(r"data b?['\"].*$", "data differs", w)
    w = re.sub(r"b?'(?:[^'\\]|\\.)*'", "'..'", w)
    w = re.sub(r'b?"(?:[^"\\]|\\.)*"', "'..'", w)
    w = re.sub(r"\d+", "N", w)
    return w[:90]


def _scramble(obj, depth):
    """Edit every text / bytes / number field reachable from a message-attributes object, in place."""
    if obj is None or depth > 4:
        return
    try:
        items = list(vars(obj).items())
    except Exception:
        return          # e.g. a dead weak reference inside the copy
    for name, val in items:
        try:
            if isinstance(val, str):
                setattr(obj, name, val + "~edited")
            elif isinstance(val, bytes):
                setattr(obj, name, val + b"\x01")
            elif isinstance(val, bool):
                setattr(obj, name, not val)
            elif isinstance(val, (int, float)):
                setattr(obj, name, val + 1)
            elif isinstance(val, list):
                val.append("edited")
            elif hasattr(val, "__dict__"):
                _scramble(val, depth + 1)
        except Exception:
            pass


def run():
    r = core.Run("C09", "exploration")
    thorough = r.tier == "thorough"
    from harness import catalogue as cat
    from harness import extra_kinds
    from yowsup.layers.coder.encoder import WriteEncoder
    from yowsup.layers.coder.decoder import ReadDecoder
    from yowsup.layers.coder.tokendictionary import TokenDictionary
    seeds = 300 if thorough else 48
    base = core.seed() * 1000
    r.cov["rule"] = ("case = (entity class / stanza kind of the catalogue, documented variant, seed): generated stanza -> fromProtocolTreeNode -> "
                     "toProtocolTreeNode compared with the stanza (strict, numbers by value); for outgoing kinds entity -> stanza compared with the "
                     "hand-built expected stanza; every entity-produced stanza is abstracted, its specified encoding computed by TLC (WireFormat.tla), "
                     "and must pass the real encoder/decoder unchanged; distinct by (kind, variant, seed); non-trivial = the entity class exists")
    nodes_for_codec = []
    classes = set()
    for kind in cat.KINDS:
        variants = (None,) + (tuple(kind.variants) if kind.direction == "in" else ())
        for v in variants:
            for s in range(seeds):
                seed = base + s
                try:
                    recs = cat.check_kind(kind, seed, v)
                except Exception as e:
                    recs = [{"check": "crash", "what": repr(e)}]
                r.case((kind.name, v, s), nontrivial=bool(kind.entity_class))
                if kind.entity_class:
                    classes.add(kind.entity_class)
                for rec in recs:
                    chk = rec["check"]
                    if chk in ("types", "out-parse", "app_ack", "reply"):
                        continue        # numbers compared by value; parsers of outgoing-only classes are not used by the stack
                    if chk == "wellformed":
                        raise core.MachineryError("catalogue builds an ill-formed stanza for %s: %s" % (kind.name, rec["what"]))
                    sig = "%s:%s:%s:%s" % (chk, kind.name, v or "default", norm(rec["what"]))
                    r.violation(sig, "%s (variant %s, seed %d): %s" % (kind.name, v, seed, rec["what"][:300]), {"kind": kind.name, "variant": v, "seed": seed})
                # stanzas that entities produce -> codec
                if s < (12 if thorough else 6):
                    try:
                        if kind.direction == "out":
                            nodes_for_codec.append((kind.name, v, seed, kind.make_entity(random.Random(seed)).toProtocolTreeNode()))
                        elif kind.entity_class:
                            n = kind.make_node(random.Random(seed), variant=v)
                            e = cat.load_class(kind.entity_class).fromProtocolTreeNode(n)
                            if e is not None:
                                # entities built from incoming stanzas are sent again only as forwarded messages and as acks / receipts
                                if n.tag == "message":
                                    nodes_for_codec.append((kind.name + "#forward", v, seed, e.toProtocolTreeNode()))
                                if kind.app_ack and hasattr(e, "ack"):
                                    nodes_for_codec.append((kind.name + "#ack", v, seed, e.ack().toProtocolTreeNode()))
                        if kind.direction == "in" and kind.reaction is not None:
                            for rn in kind.reaction(kind.make_node(random.Random(seed), variant=v)):
                                nodes_for_codec.append((kind.name + "#reaction", v, seed, rn))
                    except Exception:
                        pass      # reported above by check_kind
        if kind.name in ("in.message.text", "out.iq.groups.create", "in.notification.w:gp2.add"):
            r.sample({"kind": kind.name, "variants": list(variants), "seeds": seeds, "example": str(kind.make_node(random.Random(base)))[:300]})
    # ---- a forwarded copy is independent of the received entity: editing the copy must not change what the original serialises to
    for kind in cat.KINDS:
        if kind.direction != "in" or kind.tag != "message" or not kind.entity_class:
            continue
        for s in range(4 if thorough else 2):
            seed = base + 500 + s
            r.case(("forward-isolation", kind.name, s))
            try:
                node = kind.make_node(random.Random(seed))
                e = cat.load_class(kind.entity_class).fromProtocolTreeNode(node)
                before, _ = cat.node_diff(e.toProtocolTreeNode(), node)
                if before or not hasattr(e, "forward"):
                    continue
                f = e.forward("4915770009999@s.whatsapp.net")
                _scramble(getattr(f, "message_attributes", None), 0)
                after, _ = cat.node_diff(e.toProtocolTreeNode(), node)
            except Exception as ex:
                after = ["raised %r" % (ex,)]
            if after:
                r.violation("forward-isolation:%s:%s" % (kind.name, norm(after[0])), "%s: after forward() and editing the copy, the received entity no longer reproduces its stanza: %s" % (
                    kind.name, "; ".join(after[:2])), {"kind": kind.name, "seed": seed})
    # ---- entities built from different stanzas are independent of each other (no state shared through class attributes or default
    # arguments): building a second entity changes neither what the first one serialises to nor what a later one built from the first
    # stanza serialises to
    iso = [(k.name, k.entity_class, (lambda rng, k=k: k.make_node(rng))) for k in cat.KINDS if k.direction == "in" and k.entity_class]
    iso += list(extra_kinds.ISOLATION_ONLY)
    for name, cls_path, builder in iso:
        for s in range(8 if thorough else 4):
            seed = base + 700 + s
            r.case(("entity-isolation", name, s))
            try:
                cls = cat.load_class(cls_path)
                n1, n2 = builder(random.Random(seed)), builder(random.Random(seed + 1))
                e1 = cls.fromProtocolTreeNode(n1)
                if e1 is None:
                    continue
                ser1 = e1.toProtocolTreeNode()
                e2 = cls.fromProtocolTreeNode(n2)
                if e2 is not None:
                    e2.toProtocolTreeNode()
                d1, _ = cat.node_diff(e1.toProtocolTreeNode(), ser1)
                d2, _ = cat.node_diff(cls.fromProtocolTreeNode(n1).toProtocolTreeNode(), ser1)
                d = d1 or d2
            except Exception as ex:
                continue          # conversion failures are judged by the round-trip pass above
            if d:
                r.violation("entity-isolation:%s:%s" % (name, norm(d[0])), "%s: after another stanza of the kind was converted, an entity of the first stanza serialises differently: %s" % (
                    name, "; ".join(d[:2])), {"kind": name, "seed": seed})
    # ---- encrypted envelopes (built by the send layer) with ciphertext lengths around the codec's length-class boundaries
    for nm, node in extra_kinds.enc_message_nodes(random.Random(base + 900), (1, 255, 256, 257, 4096, 65535, 65536) + ((1 << 20,) if thorough else ())):
        nodes_for_codec.append((nm, None, base + 900, node))
    r.notes["entity_classes"] = len(classes)
    r.notes["kinds"] = len(cat.KINDS)
    r.notes["skipped_kinds"] = [x[0] for x in cat.SKIPPED]
    # ---- codec
    primary, secondary = wire.load_dict(r)
    world = wire.World(primary, secondary, core.seed())
    td = TokenDictionary()
    cases, meta = [], []
    for name, v, seed, node in nodes_for_codec:
        problems = []
        try:
            t = wire.abstract_from_node(world, node, problems)
        except Exception as e:
            t, problems = None, ["cannot abstract: %r" % (e,)]
        r.case(("codec", name, v, seed))
        if t is None and problems and all(("ends in '@'" in p_ or "is '' which" in p_) for p_ in problems):
            r.notes["codec_inputs_outside_domain"] = r.notes.get("codec_inputs_outside_domain", 0) + 1
            continue        # free text ending in '@' / empty strings are outside the codec's domain (C01's quantifier), not an entity defect
        if t is None:
            sig = "codec-unacceptable:%s:%s:%s" % (name, v or "default", norm(problems[0] if problems else "?"))
            r.violation(sig, "%s (variant %s, seed %d) produces a stanza the codec cannot carry: %s" % (name, v, seed, "; ".join(problems[:3])),
                        {"kind": name, "variant": v, "seed": seed})
            continue
        cases.append(t)
        meta.append((name, v, seed, node))
    outs, _ = wire.evaluate_cases(r, cases)
    for (name, v, seed, node), t, o in zip(meta, cases, outs):
        body = []
        for sg in o["segs"]:
            body += sg["pol"]
        expected = b"\x00" + world.items(body)
        r.cov.setdefault("traces_validated_against_impl", 0)
        r.cov["traces_validated_against_impl"] += 1
        try:
            got = bytes(bytearray(WriteEncoder(td).protocolTreeNodeToBytes(node)))
            back = ReadDecoder(td).getProtocolTreeNode(bytearray(got))
            d = wire.strict_equal(node, back)
            if not d and got != expected:
                d = "encoder bytes differ from the specified encoding"
        except Exception as e:
            d = "codec raised %r" % (e,)
        if d:
            r.violation("codec:%s:%s:%s" % (name, v or "default", norm(d)), "%s (variant %s, seed %d): stanza does not survive the codec: %s" % (name, v, seed, d),
                        {"kind": name, "variant": v, "seed": seed})
    r.assumptions += core.ENV_ASSUMPTIONS[:1] + ["the documented shapes are those of the hand-written catalogue (class docstrings + parser code); encrypted message kinds and key iqs are in SKIPPED",
                      "parsers of outgoing-only classes (fromProtocolTreeNode on request entities) are outside the statement and not judged"]
    return r.finish()


def replay(path):
    print(open(path).read()[:3000])
    return run()
