"""C16 - connection lifecycle.  Spec: Lifecycle.tla; binding A + D: every behaviour of the specification's transition cover is replayed on the
real default stack (network with a fake dispatcher ... interface layer) against the Noise server double, under the deterministic scheduler
with virtual time for the keep-alive thread; after each environment event the stack runs to quiescence and the observables are compared."""
import json, os, random
from harness import core, sched, e2ekit, transportkit
from harness.doubles.noise_server import NoiseServer, ProtocolError


class _StopLoop(Exception):
    pass


class World(object):
    N = 0

    def __init__(self, reconnect_opt, ping_opt):
        from yowsup.layers import YowLayer, YowLayerEvent
        from yowsup.layers.interface import YowInterfaceLayer
        from yowsup.layers.network import YowNetworkLayer
        from yowsup.layers.auth import YowAuthenticationProtocolLayer
        from yowsup.layers.protocol_iq import YowIqProtocolLayer
        from yowsup.stacks import YowStack, YowStackBuilder
        import yowsup.stacks.yowstack as ys
        import yowsup.layers.protocol_iq.layer as iql
        World.N += 1
        core.shim_consonance()
        self.s = sched.Scheduler()
        self.inst = sched.Installation(self.s)
        self.saved = []
        w = self
        self.app, self.wire, self.problems = [], [], []
        self.ticks = 0
        self.pings = []          # ids of ping stanzas seen by the server, in order
        self.behind_hello = None
        self.behind_hello_used = False
        self.same_server = False
        self.raise_on_pong = False
        self.socket_like = False
        self.connect_via_event = False
        self.srv_static = None
        self.nevent = 0
        try:
            EV = {YowNetworkLayer.EVENT_STATE_CONNECTED: "connected", YowNetworkLayer.EVENT_STATE_DISCONNECTED: "disconnected",
                  YowAuthenticationProtocolLayer.EVENT_AUTH: "auth", YowAuthenticationProtocolLayer.EVENT_AUTHED: "authed"}

            class Rec(YowLayer):
                def onEvent(rec, ev):
                    name = EV.get(ev.getName())
                    if name == "auth":
                        w.fresh = w.noise._wa_noiseprotocol.state
                    if name:
                        w.app.append(name)
                    return False

            class Top(YowLayer):
                def receive(top, entity):
                    tag = entity.getTag()
                    if tag == "stream:error":
                        w.app.append("streamerror:%s" % entity.getErrorType())
                    elif tag == "iq":
                        w.app.append("pong")
                        if w.raise_on_pong:
                            raise RuntimeError("application callback raising for a pong")
                    else:
                        w.app.append(tag)
            core_layers = YowStackBuilder.getCoreLayers()
            rest = YowStackBuilder.getDefaultLayers()[len(core_layers):]
            layers = tuple(core_layers) + (Rec,) + tuple(rest) + (YowInterfaceLayer, Top)
            self.profile = e2ekit.make_profile("49157703%05d" % World.N)
            if World.N % 2 == 0:
                # the way applications configure a stack: built first, options set afterwards - and it is not the only stack of the process:
                # a second one, configured the opposite way, is set up right after it (its options are its own)
                self.stack = YowStack(layers, reversed=False)
                for k_, v_ in (("profile", self.profile), (YowInterfaceLayer.PROP_RECONNECT_ON_STREAM_ERR, reconnect_opt), (YowIqProtocolLayer.PROP_PING_INTERVAL, 1 if ping_opt else 0)):
                    self.stack.setProp(k_, v_)
                self.other_stack = YowStack((YowNetworkLayer, YowInterfaceLayer), reversed=False)
                self.other_stack.setProp(YowInterfaceLayer.PROP_RECONNECT_ON_STREAM_ERR, not reconnect_opt)
                self.other_stack.setProp(YowIqProtocolLayer.PROP_PING_INTERVAL, 0 if ping_opt else 1)
            else:
                self.stack = YowStack(layers, reversed=False, props={"profile": self.profile,
                                                                      YowInterfaceLayer.PROP_RECONNECT_ON_STREAM_ERR: reconnect_opt,
                                                                      YowIqProtocolLayer.PROP_PING_INTERVAL: 1 if ping_opt else 0})
            self.net, self.noise = self.stack.getLayer(0), self.stack.getLayer(2)
            n = 0
            while True:
                try:
                    self.stack.getLayer(n)
                    n += 1
                except IndexError:
                    break
            self.iface = self.stack.getLayer(n - 2)
            self.dispatchers = []
            self.srv = None
            self.pending = []

            def factory(_t):
                d = transportkit.FakeDispatcher(self.net, [], None)
                d.idx = len(self.dispatchers) + 1
                d.log = self.wire
                d.sendData = lambda data, d=d: w.client_wrote(d, data)
                d.connect = lambda host, d=d: w.wire.append(("connect", d.idx, d.open))

                def disc(d=d):
                    w.wire.append(("disconnect", d.idx, d.open))
                    if w.socket_like and not d.open:
                        return          # the socket dispatcher does not call back for a connection that is already closed
                    d.open = False
                    w.net.onDisconnected()
                d.disconnect = disc
                self.dispatchers.append(d)
                return d
            self.net._YowNetworkLayer__create_dispatcher = factory
            # stack loop: one deferred callback per call
            self._set(ys, "time", type("T", (), {"sleep": staticmethod(lambda s_: (_ for _ in ()).throw(_StopLoop()))})())
            core.drain_detached()
            # keep-alive thread: managed thread + virtual time
            vt = type("VT", (), {})()
            # virtual time: one ping period elapses per PingTick for EVERY sleeping keep-alive thread (also one that was told to stop
            # and has not noticed yet), as real time would
            def vsleep(sec):
                t0 = w.ticks
                w.s.wait_until("ping-due", lambda: w.ticks > t0)
            vt.sleep = vsleep
            vt.time = lambda: 1600000000.0
            self._set(iql, "time", vt)
            cls = iql.YowPingThread
            self.saved.append((cls, "start", cls.__dict__.get("start")))
            cls.start = lambda th: w.s.spawn("ping%d" % (sum(1 for t in w.s.threads if t.name.startswith("ping")) + 1), th.run)
            import yowsup.layers.protocol_iq.layer as L2
            self._set(L2, "Lock", lambda: w.s.Lock())
            e2ekit.small_batches(3, 1)
        except BaseException:
            self.close()
            raise

    def _consume_tick(self):
        self.ticks -= 1

    def _set(self, mod, name, val):
        self.saved.append((mod, name, getattr(mod, name)))
        setattr(mod, name, val)

    # ---- wire
    def client_wrote(self, d, data):
        from yowsup.layers.coder.decoder import ReadDecoder
        from yowsup.layers.coder.tokendictionary import TokenDictionary
        if not d.open:
            self.wire.append(("sendData", d.idx, False))
            self.problems.append(("write-when-down", "%d bytes written to dispatcher %d whose connection is not open" % (len(data), d.idx)))
            return
        if d is not self.dispatchers[-1] or self.srv is None:
            return
        before = len(self.srv.received)
        try:
            replies = self.srv.feed(bytes(data))
        except ProtocolError as e:
            self.problems.append(("client-bytes", "server double cannot follow the client: %s" % e))
            return
        if replies or (self.srv.state == "transport" and not getattr(self.srv, "announced", False)):
            if not getattr(self.srv, "hs_logged", False):
                self.srv.hs_logged = True
                self.wire.append(("handshake", d.idx, True))
        if replies and self.behind_hello is not None and self.srv.state == "transport":
            # the server's first stanza travels in the same chunk as its handshake reply (possible once the client logs in with the
            # cached server key: the server is in transport state right after its hello)
            node, self.behind_hello = self.behind_hello, None
            from yowsup.layers.coder.encoder import WriteEncoder
            from yowsup.layers.coder.tokendictionary import TokenDictionary as TD
            replies[-1] = replies[-1] + self.srv.send(bytes(bytearray(WriteEncoder(TD()).protocolTreeNodeToBytes(node))))
            self.behind_hello_used = True
        self.pending += replies
        for pt in self.srv.received[before:]:
            try:
                node = ReadDecoder(TokenDictionary()).getProtocolTreeNode(bytearray(pt))
            except Exception:
                continue
            if node.tag == "iq" and node["xmlns"] == "w:p":
                self.pings.append(node["id"])
                self.wire.append(("ping", d.idx, True))

    def pump(self):
        while True:
            self.s.wait_until("server-bytes", lambda: bool(self.pending) or self.closing)
            if self.closing:
                return
            data = self.pending.pop(0)
            try:
                self.net.onRecvData(data)
            except sched.Killed:
                raise
            except BaseException as e:
                self.problems.append(("receive-raised", "onRecvData raised %r" % (e,)))

    def server_stanza(self, node):
        from yowsup.layers.coder.encoder import WriteEncoder
        from yowsup.layers.coder.tokendictionary import TokenDictionary
        pt = bytes(bytearray(WriteEncoder(TokenDictionary()).protocolTreeNodeToBytes(node)))
        self.pending.append(self.srv.send(pt))

    def do(self, act):
        """Perform one environment event of the specification; returns after the stack is quiescent."""
        from yowsup.structs import ProtocolTreeNode
        name = act["name"]
        self.nevent += 1
        s = self.s

        def env():
            if name == "ConnectRequest":
                if self.connect_via_event:
                    from yowsup.layers import YowLayerEvent
                    from yowsup.layers.network import YowNetworkLayer
                    # the way applications and the demos ask for a connection: the CONNECT event broadcast through the stack
                    self.stack.broadcastEvent(YowLayerEvent(YowNetworkLayer.EVENT_STATE_CONNECT))
                else:
                    self.iface.connect()
            elif name == "DispatcherConnected":
                d = self.dispatchers[-1]
                d.open = True
                # same_server: the server keeps its static key, so that a later login with the cached key is an IK handshake
                # (otherwise every reconnect falls back to XX, as against a server whose key was rotated)
                self.srv = NoiseServer(static=self.srv_static) if (self.same_server and self.srv_static is not None) else NoiseServer()
                self.srv_static = self.srv.static
                if act.get("then") is not None:
                    self.behind_hello = self.first_stanza(act["then"])
                self.net.onConnected()
            elif name in ("Success", "Failure"):
                node = self.first_stanza(name)
                if act.get("malformed"):
                    # a success stanza the authentication layer cannot convert into its entity (attributes missing)
                    from yowsup.structs import ProtocolTreeNode as _N
                    node = _N("success", {"props": "2"})
                self.server_stanza(node)
            elif name == "StreamError":
                kids = [ProtocolTreeNode(act["kind"])]
                if act["kind"] == "conflict":
                    kids.append(ProtocolTreeNode("text", {}, None, b"Replaced by new connection"))
                self.server_stanza(ProtocolTreeNode("stream:error", {}, kids))
            elif name == "DisconnectRequest":
                self.iface.disconnect()
            elif name == "ConnectionLost":
                d = self.dispatchers[-1]
                d.open = False
                self.srv = None
                self.pending = []
                if act["why"] == "socket-error":
                    self.net.onConnectionError(IOError("connection reset"))
                else:
                    self.net.onDisconnected()
            elif name == "LoopStep":
                try:
                    self.stack.loop()
                except _StopLoop:
                    pass
            elif name == "PingTick":
                self.ticks += 1
            elif name == "Pong":
                pid = self.pings[act["id"] - 1] if act["id"] <= len(self.pings) else "unknown-%d" % act["id"]
                self.server_stanza(ProtocolTreeNode("iq", {"type": "result", "id": pid, "from": "s.whatsapp.net"}))
        t = s.spawn("env%d" % self.nevent, env)
        s.quiesce(lambda r, sc: ([x for x in r if x.name.startswith("env")] or r)[0])
        if t.error is not None:
            self.problems.append(("event-raised:%s" % name, "%s raised %r" % (name, t.error)))

    @staticmethod
    def first_stanza(name):
        from yowsup.structs import ProtocolTreeNode
        if name == "Success":
            return ProtocolTreeNode("success", {"t": "1600000000", "props": "2", "location": "atn", "creation": "1500000000"})
        return ProtocolTreeNode("failure", {"reason": "not-authorized"})

    def cached_key(self):
        return self.profile.config.server_static_public is not None

    def start(self):
        self.closing = False
        self.s.spawn("pump", self.pump)
        self.s.quiesce()

    def close(self):
        self.closing = True
        try:
            self.s.kill()
        finally:
            for obj, name, val in reversed(self.saved):
                if val is None and isinstance(obj, type):
                    try:
                        delattr(obj, name)
                    except AttributeError:
                        pass
                else:
                    setattr(obj, name, val)
            self.inst.undo()


def replay_path(run, g, path, ropt, popt, label, variant=False):
    w = World(ropt, popt)
    w.same_server = variant
    w.connect_via_event = variant
    try:
        w.start()
        init, steps = g.path_steps(path)
        trail = []
        skip = False
        for si, (act, to) in enumerate(steps):
            if skip:
                skip = False
                continue
            act = dict(act)
            if (act["name"] == "DispatcherConnected" and variant and w.cached_key() and si + 1 < len(steps)
                    and steps[si + 1][0]["name"] in ("Success", "Failure")):
                # variant: the server's reply to the login travels right behind its handshake message, in one chunk
                act["then"] = steps[si + 1][0]["name"]
            trail.append({k: v for k, v in act.items()})
            try:
                w.do(act)
                if act.get("then") and w.behind_hello_used:
                    w.behind_hello_used = False
                    run.notes["reply_behind_hello_cases"] = run.notes.get("reply_behind_hello_cases", 0) + 1
                    trail.append(dict(steps[si + 1][0], behind_hello=True))
                    to = steps[si + 1][1]
                    skip = True
                elif act.get("then"):
                    w.behind_hello = None
            except sched.Deadlock as e:
                run.violation("hang:%s" % act["name"], "%s: %s after %s" % (label, e, trail), {"trail": trail})
                return False
            problems = list(w.problems)
            exp_app = list(to["app"])
            if w.app != exp_app:
                problems.append(("app:%s" % act["name"], "application saw %s, specification %s" % (w.app[-6:], exp_app[-6:])))
            wire = [(x[0], x[1]) for x in w.wire if x[0] in ("connect", "disconnect", "handshake", "ping")]
            exp_wire = [(x["op"], x["d"]) for x in to["wire"]]
            if wire != exp_wire and not problems:
                problems.append(("wire:%s" % act["name"], "dispatcher calls %s, specification %s" % (wire[-5:], exp_wire[-5:])))
            if act["name"] == "DispatcherConnected" and getattr(w, "fresh", "init") != "init":
                problems.append(("stale-transport-state", "a new login started while the noise protocol state was still %r" % w.fresh))
            flags = (w.net.connected, w.iface.reconnect)
            if flags != (to["conn"], to["reconnect"]) and not problems:
                problems.append(("flags:%s" % act["name"], "connected/reconnect flags %s, specification %s" % (flags, (to["conn"], to["reconnect"]))))
            if problems:
                for sig, desc in problems[:2]:
                    run.violation(sig, "%s after %s: %s" % (label, [t["name"] + (":" + t["kind"] if "kind" in t else "") for t in trail], desc), {"trail": trail})
                return False
        # time passes: if the specification says no keep-alive thread is running, letting three more ping periods elapse must not
        # change anything the application or the dispatcher sees (a surviving thread would ping or close again)
        if steps and not steps[-1][1]["pingt"]:
            before = (list(w.app), len(w.wire))
            for _ in range(3):
                w.ticks += 1
                try:
                    w.s.quiesce()
                except sched.Deadlock:
                    pass
            if (list(w.app), len(w.wire)) != before or w.problems:
                run.violation("keepalive:survives", "%s after %s: with the keep-alive stopped, three more ping periods changed what the application / dispatcher see: %s %s %s" % (
                    label, [t["name"] for t in trail], w.app[len(before[0]):], w.wire[before[1]:], w.problems[:1]), {"trail": trail})
                return False
        return True
    finally:
        w.close()


def real_dispatchers(r, rng, thorough):
    """The REAL socket and asyncore dispatchers under the real network layer over loopback (harness/realnet.py): every scenario is
    recorded and validated by TLC against NetLayer_Trace.tla - the dispatcher contract that Lifecycle.tla and the doubles assume."""
    from harness import realnet
    for cfg in ("MC_NetLayer_sync.cfg", "MC_NetLayer_async.cfg"):
        r.add_tlc(core.must_clean(core.tlc("NetLayer", cfg, r.scratch, workers=8), cfg))
    core.must_violate(core.tlc("NetLayer", "MC_NetLayer_asread.cfg", r.scratch, workers=4), "OrderlyCloseComplete", "MC_NetLayer_asread")
    r.notes["selftest_netlayer_switch_violates"] = "OrderlyCloseComplete"
    num = 400 if thorough else 24
    res = core.tlc("NetLayer_Sim", "NetLayer_Sim.cfg", r.scratch, workers=1, simulate="num=%d" % num, depth=45, seed_=core.seed() + 16, timeout=1200)
    scheds = [p["sched"] for p in res.printed() if isinstance(p, dict) and "sched" in p]
    keep = []
    for s in scheds:
        if keep and s[:len(keep[-1])] == keep[-1]:
            keep[-1] = s
        else:
            keep.append(s)
    if len(keep) < num // 4:
        raise core.MachineryError("NetLayer_Sim produced %d schedules\n%s" % (len(keep), res.out[-1200:]))
    scripts = realnet.families() + [("tlc-sim", realnet.from_sched(s, rng)) for s in keep]
    r.notes["netlayer_schedules_from_tlc"] = len(keep)
    runs = []
    import asyncore
    orig_send = asyncore.dispatcher.send
    stats = {"whole": 0, "partial": 0, "refused": 0}

    def counting_send(self, data):
        n = orig_send(self, data)
        stats["whole" if n == len(data) else ("refused" if n == 0 else "partial")] += 1
        return n
    asyncore.dispatcher.send = counting_send        # observation only: how the socket took what it was given (non-vacuity of the partial-send paths)
    try:
        for kind in ("socket", "asyncore"):
            stuck = 0
            for i, (label, sc) in enumerate(scripts):
                ev, errs = realnet.run_scenario(kind, sc, rng, via_event=(i % 2 == 0))
                runs.append((kind, label, sc, realnet.coalesce(ev), errs))
                r.case(("real-dispatcher", kind, json.dumps(sc)))
                # every wait that times out costs half a minute: a dispatcher that keeps getting stuck is not run through all scenarios
                stuck += 1 if (errs or any(e["e"] == "Quiet" and e["what"] not in ("open", "over") for e in ev)) else 0
                if stuck >= 3:
                    r.notes["real_dispatcher_%s_stopped_after" % kind] = i + 1
                    break
    finally:
        asyncore.dispatcher.send = orig_send
    r.notes["asyncore_socket_sends"] = stats
    realnet.validate(r, runs)
    r.notes["netlayer_events_recorded"] = sum(len(x[3]) for x in runs)


def run():
    r = core.Run("C16", "model_checking")
    thorough = r.tier == "thorough"
    rng = random.Random(core.seed())
    r.cov["rule"] = ("case = one event history of Lifecycle.tla (connect request, connected, socket error, peer close, disconnect request, success, "
                     "failure, stream error kinds, ping tick, pong(id), stack loop step; options reconnect on/off x keep-alive on/off) replayed on the real "
                     "default stack (fake dispatcher, Noise server double, real interface layer) under the deterministic scheduler with virtual time; after "
                     "each event: application-visible notifications, dispatcher calls, connected / reconnect flags compared; distinct by (options, history); plus "
                     "the real socket and asyncore dispatchers under the real network layer against a scripted TCP peer on loopback (schedules from TLC "
                     "-simulate of NetLayer.tla and families), every recorded event validated by TLC against NetLayer_Trace")
    res = core.must_clean(core.tlc("Lifecycle", "MC_Lifecycle_thorough.cfg" if thorough else "MC_Lifecycle.cfg", r.scratch, workers=16, timeout=2000), "MC_Lifecycle")
    r.add_tlc(res)
    bad = core.tlc("Lifecycle", "MC_Lifecycle_asread.cfg", r.scratch, workers=8)
    if not bad.violated:
        raise core.MachineryError("self-test: a connect request overtaking the deferred DISCONNECTED event violates nothing in the model")
    r.notes["selftest_asread_switch_violates"] = bad.violated[:2]
    real_dispatchers(r, rng, thorough)       # real threads and sockets: before any deterministic scheduler is installed
    roots = e2ekit.Roots()
    try:
        for ropt, popt in ((True, True), (False, True), (True, False), (False, False)):
            tag = "r%s_p%s" % (str(ropt).upper(), str(popt).upper())
            rc = core.must_clean(core.tlc("Lifecycle", "MC_Lifecycle_%s.cfg" % tag, r.scratch, workers=8), tag)
            r.add_tlc(rc)
            eg = core.tlc("Lifecycle", "Edges_Lifecycle_%s.cfg" % tag, r.scratch, workers=1, timeout=1200)
            g = core.Graph(eg.printed())
            if len(g.edges) < 200:
                raise core.MachineryError("Lifecycle edge dump too small (%d)" % len(g.edges))
            paths = g.transition_cover(rng, tail=3)
            budget = len(paths) if thorough else (140 if (ropt and popt) else 50)
            if len(paths) > budget:
                paths = rng.sample(paths, budget)
            paths += g.random_walks(200 if thorough else (40 if (ropt and popt) else 12), 10, rng)      # other pasts for the same transitions
            for pi, p in enumerate(paths):
                replay_path(r, g, p, ropt, popt, "reconnect=%s keepalive=%s" % (ropt, popt), variant=(pi % 2 == 1))
                r.case((tag, tuple(p)))
                r.cov["traces_validated_against_impl"] += 1
                if pi == 0 and ropt and popt:
                    r.sample({"options": tag, "history": [g.edges[i][1] for i in p]})
        # ---- keep-alive in depth: no stream errors, histories of 9 events (answered, unanswered and REPLAYED pongs across several periods
        # and a reconnect), with random tails so that a step whose damage shows only at a later tick is still followed by ticks
        egk = core.tlc("Lifecycle", "Edges_Lifecycle_keepalive.cfg", r.scratch, workers=1, timeout=1200)
        gk = core.Graph(egk.printed())
        if len(gk.edges) < 500:
            raise core.MachineryError("Lifecycle keep-alive edge dump too small (%d)" % len(gk.edges))
        kp = [p for p in gk.transition_cover(rng, tail=3) if sum(1 for i in p if gk.edges[i][1]["name"] in ("PingTick", "Pong")) >= 3]
        if not thorough and len(kp) > 160:
            kp = rng.sample(kp, 160)
        for pi, p in enumerate(kp):
            replay_path(r, gk, p, True, True, "keep-alive", variant=(pi % 2 == 1))
            r.case(("keepalive", tuple(p)))
            r.cov["traces_validated_against_impl"] += 1
        r.notes["keepalive_histories"] = len(kp)
        # ---- a pong that is NOT the keep-alive's (the application's own ping answered, or the late pong of a ping of the previous connection)
        # does not excuse the unanswered keep-alive ping: the connection is still closed when the next ping is due
        from yowsup.layers.protocol_iq.protocolentities import PingIqProtocolEntity
        for kind in ("application-ping", "previous-connection"):
            r.case(("foreign-pong", kind))
            r.cov["traces_validated_against_impl"] += 1
            w = World(True, True)
            try:
                w.start()
                pre = [{"name": "ConnectRequest"}, {"name": "DispatcherConnected"}, {"name": "Success"}, {"name": "PingTick"}]
                if kind == "previous-connection":
                    pre += [{"name": "ConnectionLost", "why": "peer-close"}, {"name": "LoopStep"}, {"name": "ConnectRequest"}, {"name": "DispatcherConnected"},
                            {"name": "Success"}, {"name": "PingTick"}]
                for act in pre:
                    w.do(act)
                npings = len(w.pings)
                if kind == "application-ping":
                    ent = PingIqProtocolEntity()
                    w.s.spawn("appping", lambda: w.iface._sendIq(ent, lambda a, b: None, lambda a, b: None))
                    w.s.quiesce(lambda rr, sc: ([x for x in rr if x.name == "appping"] or rr)[0])
                    if len(w.pings) != npings + 1:
                        raise core.MachineryError("application ping not seen by the server double")
                    w.do({"name": "Pong", "id": npings + 1})
                else:
                    w.do({"name": "Pong", "id": 1})           # the pong of connection 1's ping arrives late, on connection 2
                before = len([x for x in w.wire if x[0] == "disconnect"])
                w.do({"name": "PingTick"})
                after = len([x for x in w.wire if x[0] == "disconnect"])
                if after != before + 1 or w.problems:
                    r.violation("keepalive:foreign-pong:%s" % kind, "keep-alive ping unanswered, a pong for another ping (%s) arrived, next ping due: the connection was %s (%s)" % (
                        kind, "not closed" if after == before else "closed %d times" % (after - before), w.problems[:1]), {"kind": kind})
            except sched.Deadlock as e:
                r.violation("hang:foreign-pong:%s" % kind, "%s" % e, {"kind": kind})
            finally:
                w.close()
        # ---- the recorded finding: a connect request that overtakes the deferred DISCONNECTED event of the previous connection
        for first_end in ("Failure", "DisconnectRequest", "ConnectionLost"):
            hist = [{"name": "ConnectRequest"}, {"name": "DispatcherConnected"}, {"name": "Success"} if first_end != "Failure" else None,
                    {"name": first_end, "why": "peer-close"}, {"name": "ConnectRequest"}, {"name": "DispatcherConnected"}, {"name": "LoopStep"}, {"name": "Success"}]
            hist = [h for h in hist if h]
            w = World(True, False)
            try:
                w.start()
                for act in hist:
                    w.do(act)
                r.case(("overtaking-connect", first_end))
                r.cov["traces_validated_against_impl"] += 1
                second = w.app[w.app.index("connected") + 1:] if "connected" in w.app else []
                ok = second.count("connected") == 1 and w.app.count("success") == (2 if first_end != "Failure" else 1) and w.noise._wa_noiseprotocol.state == "transport" and not w.problems
                if not ok:
                    r.violation("connect-before-loop:%s" % first_end, "history %s: the second login does not survive the late DISCONNECTED event (application saw %s, noise state %s, %s)" % (
                        [h["name"] for h in hist], w.app, w.noise._wa_noiseprotocol.state, w.problems[:1]), {"history": hist})
            except sched.Deadlock as e:
                r.violation("connect-before-loop:%s" % first_end, "history %s hangs: %s" % ([h["name"] for h in hist], e), {"history": hist})
            finally:
                w.close()
    finally:
        roots.close()
    r.assumptions += core.ENV_ASSUMPTIONS + [
        "the login handshake is atomic at this level (its interleavings are C04's subject); the server is the Noise double",
        "virtual time: the keep-alive thread's sleeps are released by PingTick events; the stack loop is stepped explicitly",
        "connect requests are issued while the network layer is down and the stack loop has delivered pending DISCONNECTED events (the other case is a recorded finding)"]
    return r.finish()


def replay(path):
    print(open(path).read()[:3000])
    return run()
