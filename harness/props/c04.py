"""C04 - encrypted transport: handshake variants, chunkings, interleavings, reconnects.  Spec: NoiseLayer.tla (+Segments.tla for framing);
binding D + B: the real network|segments|noise|coder stack is run against the Noise server double under the deterministic scheduler
(systematic + PCT-random schedules); every execution is checked on observables and its event trace is validated by TLC against
NoiseLayer_Trace.tla (claimed configuration)."""
import json, os, random, time
from harness import core, sched, e2ekit, transportkit
from harness.doubles.noise_server import NoiseServer, ProtocolError

VARIANTS = ("XX", "IK", "IKnew", "BAD")


class _StopLoop(Exception):
    pass


class World(object):
    N = 0

    def __init__(self, script, rng, edge=False, chunking="whole"):
        """script: list of attempts [{"v": variant, "cut": None | "early" | "afterhello" | "late"}], the last one is never cut."""
        from yowsup.layers import YowLayer
        from consonance.structs.publickey import PublicKey
        import yowsup.stacks.yowstack as ys
        World.N += 1
        self.script, self.rng, self.chunking = script, rng, chunking
        self.s = sched.Scheduler()
        self.inst = sched.Installation(self.s)
        self.ev = []
        self.att = 0
        self.problems = []
        try:
            # every second world: a profile that is not named after the phone number (what is stored is stored under the PROFILE's name)
            self.profile = e2ekit.make_profile("49157702%05d" % World.N, name=("acct-%d" % World.N) if World.N % 2 else None)
            self.server_key = None
            self.edge = os.urandom(12) if edge else None
            if edge:
                self.profile.config.edge_routing_info = self.edge

            class Top(YowLayer):
                def __init__(top):
                    YowLayer.__init__(top)
                    top.up, top.events = [], []

                def receive(top, node):
                    top.up.append(node)

                def onEvent(top, ev):
                    top.events.append(ev.getName())
                    return False
            self.rig = transportkit.TransportRig(self.profile, None, top_cls=Top, reply_inline=False)
            rig = self.rig
            rig._client_wrote = self._client_wrote
            nz = rig.noise
            self.nz = nz
            names = {1: "seg", 2: "noise", 3: "coder", 4: "logger", 5: "top"}
            for i, n in names.items():
                rig.stack.getLayer(i).lock.name = n
            self._name_objects()
            self.inflight = []          # (bytes, tag) produced by the server for the current connection, not yet delivered
            self.delivered_tags = []    # tags of complete segments handed to the noise layer, in order
            self.srv = None
            self.expected_up = {}
            self.gen = 0
            self._instrument()
            ys.time = type("T", (), {"sleep": staticmethod(lambda s: (_ for _ in ()).throw(_StopLoop()))})()
        except BaseException:
            self.close()
            raise

    def _name_objects(self):
        nz = self.nz
        nz._flush_lock.name = "flush"
        nz._incoming_segments_queue.name = "incomingQ"
        nz._stream._readqueue.name = "readQ"
        nz._stream._writequeue.name = "writeQ"

    # ---- thread identity for the specification: 0 = network thread, a = worker of attempt a
    def tid(self):
        me = self.s.me()
        if me is None:
            return None
        if me.name.startswith("worker"):
            return int(me.name[6:])
        if me.name == "net":
            return 0
        return me.name

    def log(self, name, gen=None, **kw):
        if gen is not None and gen != self.gen:
            return          # an operation on objects of a connection that is gone (a cut-off worker's private leftovers)
        self.ev.append(dict(kw, name=name))

    def _instrument(self):
        nz, s, w = self.nz, self.s, self
        orig_in = nz._in_handshake

        def in_handshake():
            s.yield_point(("readstate", "proto"))
            st = nz._wa_noiseprotocol.state
            if w.tid() == 0:
                w.log("NetRead", state=st)
            elif w.tid() == "env":
                w.login_read = st
                w.log("Login", a=w.att, v=w.cur_variant)      # linearisation point of on_auth: its read of the protocol state
            return orig_in()
        nz._in_handshake = in_handshake
        self._wrap_machine()
        q = nz._incoming_segments_queue
        self._wrap_queue_and_lock()
        orig_upper = nz.toUpper

    def _wrap_machine(self):
        nz, s, w = self.nz, self.s, self
        gen = self.gen
        proto = nz._wa_noiseprotocol
        m = proto._machine
        from transitions import MachineError
        for trig, evname in (("start", "WStart"), ("finish", "WFinish"), ("fail", "WFail"), ("reset", "WReset")):
            orig = getattr(m, trig)

            def wrapped(orig=orig, trig=trig, evname=evname):
                s.yield_point(("setstate", trig))
                t = w.tid()
                try:
                    r = orig()
                except MachineError:
                    if isinstance(t, int) and t > 0:
                        w.log("WDie", gen, a=t)
                    raise
                if isinstance(t, int) and t > 0:
                    if trig == "finish":
                        pass     # logged below, after the state change, before the callback flushes: transitions runs the callback inside orig()
                    w.log(evname, gen, a=t) if trig != "finish" else None
                elif trig == "reset" and t == "env":
                    w.log("Disconnect")
                    w.gen += 1          # from here on the old connection's objects are private leftovers of its worker
                return r
            setattr(m, trig, wrapped)
        # finish: the state callback (persist key, flush) runs inside the trigger; log WFinish at the callback's entry
        orig_cb = proto._protocol_state_callbacks      # whatever the layer installed (it may guard against stale protocol objects)

        def cb(state):
            t = w.tid()
            if state == "transport" and isinstance(t, int) and t > 0:
                w.log("WFinish", gen, a=t)
            return orig_cb(state)
        proto._protocol_state_callbacks = cb
        orig_recv = proto.receive

        def recv():
            t = w.tid()
            try:
                r = orig_recv()
            except BaseException:
                w.log("FlushDeliver", gen, t=t, ok=False)
                w.failed_flush = t
                raise
            w.log("FlushDeliver", gen, t=t, ok=True)
            return r
        proto.receive = recv

    def _wrap_queue_and_lock(self):
        nz, s, w = self.nz, self.s, self
        gen = self.gen
        q, fl = nz._incoming_segments_queue, nz._flush_lock
        oput, oget, osize = q.put, q.get, q.qsize

        def put(item, *a, **k):
            r = oput(item, *a, **k)
            tag = w.delivered_tags[-1] if w.delivered_tags else ("?", 0)
            w.log("NetPut", gen, k=tag[0], n=tag[1])
            return r

        def get(*a, **k):
            r = oget(*a, **k)
            t = w.tid()
            if fl.held and fl.owner == (s.me().name if s.me() else None):
                w.log("FlushGet", gen, t=t)
            else:
                w.log("WAwait", gen, a=t, k=w.tag_of.get(id(r), ("?", 0))[0])
            return r

        def qsize():
            n = osize()
            w.log("FlushSize", gen, t=w.tid(), n=n)
            return n
        q.put, q.get, q.qsize = put, get, qsize
        oacq, orel = fl.acquire, fl.release

        def acq(*a, **k):
            r = oacq(*a, **k)
            w.log("FlushAcq", gen, t=w.tid())
            return r

        def rel():
            t = w.tid()
            r = orel()
            if getattr(w, "failed_flush", None) == t:
                w.failed_flush = None       # the specification releases the lock in the failing FlushDeliver step
            else:
                w.log("FlushRel", gen, t=t)
            return r
        fl.acquire, fl.release = acq, rel
        self.tag_of = {}

    # ---- server side
    def _client_wrote(self, data):
        rig = self.rig
        rig.wire_out += data
        if self.srv is None:
            return
        try:
            replies = self.srv.feed(data)
        except ProtocolError as e:
            self.problems.append(("client-bytes", "server double cannot follow the client: %s" % e))
            return
        for rep in replies:
            self.inflight.append((rep, ("hello", 0)))
            self.log("ServerHello")
        self._maybe_data()

    def _maybe_data(self):
        srv = self.srv
        if srv is not None and srv.state == "transport" and not getattr(srv, "data_sent", False):
            srv.data_sent = True
            from yowsup.layers.coder.encoder import WriteEncoder
            from yowsup.layers.coder.tokendictionary import TokenDictionary
            from yowsup.structs import ProtocolTreeNode
            for n in range(1, self.ndata + 1):
                node = ProtocolTreeNode("ib", {"id": "c%d-f%d" % (self.att, n)})
                pt = bytes(bytearray(WriteEncoder(TokenDictionary()).protocolTreeNodeToBytes(node)))
                self.inflight.append((srv.send(pt), ("data", n)))
                self.log("ServerData", n=n)
                self.expected_up.setdefault(self.att, []).append("c%d-f%d" % (self.att, n))

    # ---- environment thread
    def env(self):
        from yowsup.layers import YowLayerEvent
        from yowsup.layers.auth.layer_authentication import YowAuthenticationProtocolLayer
        from consonance.structs.publickey import PublicKey
        s, rig = self.s, self.rig
        for i, step in enumerate(self.script):
            self.att = i + 1
            v = step["v"]
            self.ndata = step.get("data", 2)
            cfg = self.profile.config
            if self.server_key is None:
                import dissononce.dh.x25519.x25519 as x
                self.server_key = x.X25519DH().generate_keypair()
            if v in ("XX", "BAD"):
                cfg.server_static_public = None
            elif v == "IK":
                cfg.server_static_public = PublicKey(self.server_key.public.data)
            elif v == "IKnew":
                cfg.server_static_public = PublicKey(os.urandom(32))
            if step.get("login"):
                # the account changes between two logins of one process (the server-assigned login replaces the dialled number)
                cfg.login = step["login"]
            self.want_account = int(cfg.login or cfg.phone)     # read from the configuration itself, not through the profile
            self.key_before = cfg.server_static_public.data if cfg.server_static_public else None
            self.srv = NoiseServer(static=self.server_key, corrupt_hello=(v == "BAD"))
            self.srvs = getattr(self, "srvs", []) + [self.srv]
            self.inflight = []
            rig.connect()
            self.login_read = None
            self.passive = bool(step.get("passive", False))
            self.cur_variant = v
            self.login_index = len(self.ev)
            rig.top.broadcastEvent(YowLayerEvent(YowAuthenticationProtocolLayer.EVENT_AUTH, passive=self.passive))
            cut = step.get("cut")
            if cut is None:
                break
            # cut the connection at a point chosen by the script
            target = {"early": 0, "afterhello": 1, "late": 2}[cut]
            if target == 1:
                s.wait_until("server-hello-written", lambda: any(e["name"] == "ServerHello" for e in self.ev[self.login_index:]))
            elif target == 2:
                s.wait_until("hello-queued", lambda: any(e["name"] == "NetPut" for e in self.ev[self.login_index:]))
            else:
                s.yield_point(("env", "cut-early"))
            # the connection goes down between two receive() calls of the network thread (the thread that notices a closed socket)
            s.wait_until("net-between-receives", lambda: any(t.name == "net" and (t.finished or (t.pending and t.pending[0] == "wait")) for t in s.threads))
            self.disconnect()

    def ev_insert_login(self, v):
        # linearisation point of Login = the moment on_auth read the protocol state (recorded in login_read); the event
        # is placed where that read happened: it was the last thing the env thread did before the worker could be spawned
        idx = getattr(self, "login_pos", len(self.ev))
        self.login_index = len(self.ev)
        self.ev.insert(self.login_mark if hasattr(self, "login_mark") and self.login_mark is not None else len(self.ev), {"name": "Login", "a": self.att, "v": v})
        self.login_mark = None

    def disconnect(self):
        rig = self.rig
        d = rig.dispatchers[-1]
        d.open = False
        self.inflight = []
        self.srv = None
        rig.net.onDisconnected()          # DISCONNECTED is a detached event: the rest of its walk runs in the stack loop
        old = self.nz._wa_noiseprotocol
        for _ in range(4):
            try:
                rig.stack.loop()
            except _StopLoop:
                pass
        if self.nz._wa_noiseprotocol is old:
            self.gen -= 1       # the layer kept its objects (code as read at the pinned commit): same generation
        if self.nz._wa_noiseprotocol is not old or not hasattr(self.nz._incoming_segments_queue, "name") or self.nz._incoming_segments_queue.name != "incomingQ":
            # the layer replaced its per-connection objects: instrument the new ones (the old ones belong to the dead connection)
            self._name_objects()
            self._wrap_machine()
            self._wrap_queue_and_lock()

    def net(self):
        s, rig = self.s, self.rig
        idle = 0
        while True:
            if self.inflight:
                data, tag = self.inflight.pop(0)
                for chunk in self.chunks(data):
                    if chunk is data or chunk == data[-len(chunk):]:
                        pass
                    self.pending_tag = tag
                    self._deliver(chunk, tag, last=(chunk is None))
                idle = 0
            elif self.finished():
                return
            else:
                s.wait_until("net-input", lambda: bool(self.inflight) or self.finished())

    def chunks(self, data):
        if self.chunking == "whole":
            return [data]
        if self.chunking == "bytes":
            return [data[i:i + 1] for i in range(len(data))]
        cut = sorted(set(self.rng.randint(1, len(data) - 1) for _ in range(self.rng.randint(1, 3)))) if len(data) > 1 else []
        out, p = [], 0
        for c in cut + [len(data)]:
            out.append(data[p:c])
            p = c
        return out

    def _deliver(self, chunk, tag, last):
        # the tag of the segment becomes known to the queue wrapper when the segments layer completes the frame
        seg = self.rig.stack.getLayer(1)
        orig_up = seg.toUpper

        def up(frame, orig_up=orig_up):
            self.delivered_tags.append(tag)
            self.tag_of[id(frame)] = tag
            return orig_up(frame)
        seg.toUpper = up
        try:
            self.rig.net.onRecvData(chunk)
        except sched.Killed:
            raise
        except BaseException as e:
            self.net_errors = getattr(self, "net_errors", []) + [repr(e)]
        finally:
            seg.toUpper = orig_up

    def finished(self):
        last = len(self.script)
        if self.att < last:
            return False
        st = self.nz._wa_noiseprotocol.state
        workers = [t for t in self.s.threads if t.name.startswith("worker")]
        if any(t.name == "env" and not t.finished for t in self.s.threads):
            return False
        cur_worker_done = all(t.finished for t in workers[-1:]) if workers else False
        return (st in ("transport", "error") and cur_worker_done and not self.inflight and getattr(self, "app_done", False))

    def app(self):
        # an application thread that sends once the session is up
        from yowsup.structs import ProtocolTreeNode
        ready = lambda: self.att == len(self.script) and self.srv is not None and (
            (self.nz._wa_noiseprotocol.state == "transport" and self.srv.state == "transport") or self.nz._wa_noiseprotocol.state == "error")
        self.s.wait_until("session-up", ready)
        for _ in range(1):
            if self.nz._wa_noiseprotocol.state == "transport":
                for k in range(2):
                    try:
                        self.rig.top.toLower(ProtocolTreeNode("iq", {"id": "app-%d" % (k + 1), "type": "get"}))
                    except sched.Killed:
                        raise
                    except BaseException as e:
                        self.problems.append(("app-send", "send raised %r" % (e,)))
                self.app_done = True
                return
        self.app_done = True

    def early(self):
        # an application thread that does not wait for the session: it sends while the handshake of the last attempt is running.
        # The stack may refuse (raise) - then nothing of it may ever reach the wire; if it accepts, the stanza is transmitted once.
        from yowsup.structs import ProtocolTreeNode
        self.early_outcome = None
        self.s.wait_until("handshake-running", lambda: self.nz._wa_noiseprotocol.state == "handshake" or getattr(self, "app_done", False))
        if getattr(self, "app_done", False) or self.nz._wa_noiseprotocol.state != "handshake":
            return
        self.early_attempt = self.att
        try:
            self.rig.top.toLower(ProtocolTreeNode("iq", {"id": "early-1", "type": "get"}))
            self.early_outcome = "accepted"
        except sched.Killed:
            raise
        except BaseException as e:
            self.early_outcome = "refused"

    def close(self):
        try:
            self.s.kill()
        finally:
            self.inst.undo()


def run_one(script, rng, chooser_kind, edge, chunking, plan=None, record=None, early=False):
    w = World(script, rng, edge=edge, chunking=chunking)
    try:
        s = w.s
        s.spawn("env", w.env)
        s.spawn("net", w.net)
        s.spawn("app", w.app)
        if early:
            s.spawn("early", w.early)
        prio = {}
        state = {"n": 0}
        changes = set(rng.sample(range(1, 150), 4))

        last = {"t": None}

        def chooser(r, sc):
            state["n"] += 1
            busy = [t for t in r if t.pending[0] != "idle"]
            if chooser_kind == "plan":
                # non-preemptive default (keep the running thread while it can run), with forced switches at the planned steps
                step = state["n"]
                names = [t.name for t in r]
                pick = None
                if step in plan and plan[step] in names:
                    pick = [t for t in r if t.name == plan[step]][0]
                elif last["t"] in names:
                    pick = [t for t in r if t.name == last["t"]][0]
                else:
                    pick = sorted(r, key=lambda t: t.name)[0]
                if record is not None:
                    record.append((step, pick.name, names))
                last["t"] = pick.name
                return pick
            if chooser_kind == "fair":
                return (busy or r)[0]
            for t in r:
                prio.setdefault(t.name, rng.random())
            if state["n"] in changes:
                prio[rng.choice(sorted(prio))] = rng.random()
            pool = busy if (busy and rng.random() < 0.9) else r
            return max(pool, key=lambda t: prio[t.name])
        deadlock = None
        try:
            s.run(chooser, 30000)
        except sched.Deadlock as e:
            # the worker of a cut-off attempt may stay parked for ever on the objects of its dead connection: that is inertness,
            # not a hang of the stack; anything else blocked is
            blocked = [t.name for t in s.unfinished()]
            stale = ["worker%d" % a for a in range(1, len(script))]
            if any(b not in stale for b in blocked):
                deadlock = str(e)
        return w, deadlock
    except BaseException:
        w.close()
        raise


def verdict(w, deadlock, script):
    """Observable checks for the LAST attempt (the one that is not cut off)."""
    problems = list(w.problems)
    last = len(script)
    v = script[-1]["v"]
    cutoff = any(st.get("cut") for st in script)
    nz, rig = w.nz, w.rig
    state = nz._wa_noiseprotocol.state
    ups = [n for n in rig.top.up]
    data_ids = [n["id"] for n in ups if n.tag == "ib"]
    fails = [n for n in ups if n.tag == "failure"]
    if deadlock:
        problems.append(("hang", "threads blocked forever: %s" % deadlock))
    if v == "BAD":
        if state != "error" or not fails or not any("handshake_failed" in e for e in rig.top.events):
            problems.append(("failure-not-reported", "server reply fails authentication: state=%s, failure stanzas=%d, events=%s" % (state, len(fails), rig.top.events[-3:])))
    else:
        want = w.expected_up.get(last, [])
        mine = [i for i in data_ids if i.startswith("c%d-" % last)]
        if state != "transport":
            problems.append(("not-established", "attempt %d (%s) ended in state %s (failure stanzas: %d)" % (last, v, state, len(fails))))
        elif mine != want:
            problems.append(("frames-differ", "stanzas delivered upward %s, server sent %s" % (mine, want)))
        srv = w.srvs[-1] if getattr(w, "srvs", None) else None
        if srv is not None and state == "transport":
            p = srv.client_payload
            if p is None or p.username != w.want_account or bool(p.passive) != w.passive or p.push_name != "verif" \
                    or p.user_agent.mcc != "000" or not p.user_agent.app_version.primary:
                problems.append(("login-payload", "login payload does not present the configured account / passive flag / attributes: %s" % (str(p)[:200],)))
            from yowsup.layers.coder.decoder import ReadDecoder
            from yowsup.layers.coder.tokendictionary import TokenDictionary
            got = []
            for pt in srv.received:
                try:
                    got.append(ReadDecoder(TokenDictionary()).getProtocolTreeNode(bytearray(pt))["id"])
                except Exception:
                    got.append("?")
            # the early sender's stanza: refused -> never on the wire.  Accepted while the LAST attempt was current -> exactly once at this
            # server.  Accepted although the sender set out during an earlier attempt (it was held up on its way down and got through after
            # the reconnect, or that attempt's connection took it before it was cut): once at most here.
            outcome, att = getattr(w, "early_outcome", None), getattr(w, "early_attempt", None)
            accepted = ["early-1"] if outcome == "accepted" and (att == last or "early-1" in got) else []
            if sorted(got) != sorted(accepted + ["app-1", "app-2"]) or [g for g in got if g.startswith("app-")] != ["app-1", "app-2"]:
                problems.append(("client-frames", "client stanzas at the server %s, accepted for sending %s" % (got, accepted + ["app-1", "app-2"])))
            stored = w.profile.config.server_static_public
            from yowsup.config.manager import ConfigManager
            ondisk = ConfigManager().load(w.profile._profile_name, profile_only=True)
            want_key = srv.static.public.data
            if stored is None or stored.data != want_key:
                problems.append(("key-not-stored", "server key in the profile is not the one the server presented (variant %s)" % v))
            elif v in ("XX", "IKnew") and (ondisk is None or ondisk.server_static_public is None or ondisk.server_static_public.data != want_key):
                problems.append(("key-not-persisted", "changed server key was not written to the profile's config file (variant %s)" % v))
            if w.edge is not None and srv.edge_routing != w.edge:
                problems.append(("edge-routing", "edge routing info was not presented before the prologue"))
    return problems, cutoff


def run():
    r = core.Run("C04", "model_checking")
    thorough = r.tier == "thorough"
    rng = random.Random(core.seed())
    r.cov["rule"] = ("case = one execution of the real transport stack against the Noise server double under the deterministic scheduler: "
                     "(login script: variants XX / IK / IK-with-new-key / failing authentication, optional earlier attempts cut off before, during or after "
                     "the server's reply; chunking of the server's bytes: whole / byte-wise / random; edge routing on/off; schedule: fair or PCT-random with "
                     "preemption at queue / lock / protocol-state operations); checked on observables and by TLC trace validation against NoiseLayer_Trace; "
                     "distinct by (script, chunking, schedule)")
    for cfg in ("MC_NoiseLayer.cfg", "MC_NoiseLayer_reconnect.cfg"):
        res = core.must_clean(core.tlc("NoiseLayer", cfg, r.scratch, workers=16, timeout=1500), cfg)
        r.add_tlc(res)
    bad = core.tlc("NoiseLayer", "MC_NoiseLayer_reconnect_asread.cfg", r.scratch, workers=16, timeout=600)
    if not bad.violated:
        raise core.MachineryError("self-test: as-read NoiseLayer (shared queue / protocol object across attempts) violates nothing")
    r.notes["selftest_asread_switch_violates"] = bad.violated[:2]
    roots = e2ekit.Roots()
    e2ekit.small_batches(3, 1)
    traces, meta = [], []
    try:
        scripts = [[{"v": v}] for v in VARIANTS]
        scripts += [[{"v": "XX"}, ] , [{"v": "IK", "passive": True}], [{"v": "IK", "login": "4915770000777"}]]
        recon = []
        for cut in ("early", "afterhello", "late"):
            for v1 in ("XX", "IK"):
                for v2 in ("XX", "IK", "IKnew"):
                    recon.append([{"v": v1, "cut": cut}, {"v": v2}])
        nsched = 40 if thorough else 8
        for script in scripts:
            for chunking in ("whole", "bytes", "random"):
                for k in range(nsched if chunking != "bytes" else max(2, nsched // 4)):
                    kind = "fair" if k == 0 else "pct"
                    edge = (k % 3 == 2)
                    w, dl = run_one(script, rng, kind, edge, chunking, early=(k % 2 == 1))
                    try:
                        problems, cutoff = verdict(w, dl, script)
                        label = "%s:%s" % ("+".join(s_["v"] for s_ in script), chunking)
                        r.case((label, k, rng.random()))
                        for sig, desc in problems:
                            r.violation("single:%s:%s" % (sig, script[-1]["v"]), "%s schedule %d (%s): %s" % (label, k, kind, desc),
                                        {"script": script, "chunking": chunking, "events": w.ev[-60:]})
                        traces.append({"ev": w.ev})
                        meta.append((label, script, False))
                        if len(r.cov["samples"]) < 2 and kind == "pct":
                            r.sample({"script": script, "chunking": chunking, "events": w.ev[:40]})
                    finally:
                        w.close()
        # ---- systematic: every schedule with at most one preemption (CHESS-style), for the plain logins
        for script in ([{"v": "IK"}], [{"v": "XX"}]) + (([{"v": "IKnew"}], [{"v": "BAD"}]) if thorough else ()):
            rec = []
            w, dl = run_one(script, rng, "plan", False, "whole", plan={}, record=rec)
            w.close()
            plans = []
            for step, chosen, names in rec:
                for alt in names:
                    if alt != chosen:
                        plans.append({step: alt})
            if not thorough:
                plans = plans[:: max(1, len(plans) // 150)]
            for pl in plans:
                w, dl = run_one(script, rng, "plan", False, "whole", plan=pl, record=None)
                try:
                    problems, cutoff = verdict(w, dl, script)
                    label = "%s:preempt@%s" % (script[0]["v"], list(pl.items())[0])
                    r.case((label,))
                    for sig, desc in problems:
                        r.violation("single:%s:%s" % (sig, script[-1]["v"]), "%s: %s" % (label, desc), {"script": script, "plan": pl, "events": w.ev[-60:]})
                    traces.append({"ev": w.ev})
                    meta.append((label, script, False))
                finally:
                    w.close()
        for script in (recon if thorough else rng.sample(recon, 9)):
            for k in range(nsched // 2 if thorough else 3):
                edge = (k % 3 == 1)       # configs with edge routing info: the preamble of EVERY login is framed the same way
                if k % 3 == 2:
                    # the passive flag differs between the attempts (as when the control layer leaves passive mode after uploading keys)
                    script = [dict(script[0], passive=True), dict(script[1], passive=False)]
                elif k % 3 == 0 and k > 0:
                    script = [dict(script[0], passive=False), dict(script[1], passive=True)]
                if k % 2 == 1:
                    # the configured account differs between the attempts (histories x configurations)
                    script = [dict(script[0]), dict(script[1], login="4915770000%03d" % rng.randrange(1000))]
                # every second run: an application thread that sends while the handshake of the attempt that gets cut off is running
                w, dl = run_one(script, rng, "fair" if k == 0 else "pct", edge, "whole", early=(k % 2 == 1))
                try:
                    problems, cutoff = verdict(w, dl, script)
                    label = "%s(cut %s)->%s%s" % (script[0]["v"], script[0]["cut"], script[1]["v"], "+edge" if edge else "")
                    r.case((label, k, rng.random()))
                    for sig, desc in problems:
                        r.violation("reconnect-after-cutoff:%s" % sig, "%s schedule %d: %s" % (label, k, desc), {"script": script, "events": w.ev[-80:]})
                    traces.append({"ev": w.ev})
                    meta.append((label, script, True))
                finally:
                    w.close()
    finally:
        roots.close()
    # ---- code -> spec: every recorded execution must be a behaviour of the specification
    tf = os.path.join(r.scratch.path, "noise_traces.json")
    json.dump(traces, open(tf, "w"))
    res = core.tlc("NoiseLayer_Trace", "NoiseLayer_Trace.cfg", r.scratch, workers=1, env={"TRACE_FILE": tf}, timeout=3000, deque=True)
    rej = [p for p in res.printed() if isinstance(p, dict) and "rejected" in p]
    if not res.finished or (res.violated and not rej and "postcondition" not in res.violated and not any(v in ("InOrder", "NothingForeign", "KeyStored", "FailureReported") for v in res.violated)):
        raise core.MachineryError("trace validation failed to run:\n" + "\n".join(res.out.splitlines()[-25:]))
    r.add_tlc(res)
    r.cov["traces_validated_against_impl"] += len(traces)
    for x in rej:
        label, script, cutoff = meta[x["rejected"] - 1]
        evs = traces[x["rejected"] - 1]["ev"]
        nxt = evs[x["matched"]] if x["matched"] < len(evs) else None
        r.violation(("reconnect-after-cutoff:trace-rejected" if cutoff else "single:trace-rejected:%s" % script[-1]["v"]),
                    "%s: event %d %s is not allowed by NoiseLayer.tla after the preceding %d events" % (label, x["matched"] + 1, nxt, x["matched"]),
                    {"script": script, "events": evs[max(0, x["matched"] - 25):x["matched"] + 3]})
    for inv in res.violated:
        if inv in ("InOrder", "NothingForeign", "KeyStored", "FailureReported"):
            r.violation("trace:invariant:%s" % inv, "a recorded execution violates %s" % inv, {})
    r.notes["traces_rejected"] = len(rej)
    r.assumptions += core.ENV_ASSUMPTIONS + [
        "preemption only at queue / lock operations and at the protocol-state reads and writes instrumented by instance-level wrappers",
        "a connection is cut between two receive() calls of the network thread (a disconnect racing with a receive in progress is not explored)",
        "Noise is exercised with the real consonance/dissononce code against a dissononce-based server double; the model's Noise is symbolic"]
    return r.finish()


def replay(path):
    print(open(path).read()[:3000])
    return run()
