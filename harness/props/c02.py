"""C02 - wire-format conformance against the independent reference (WireFormat.tla evaluated by TLC, dictionary WADict.tla)."""
import json, random, zlib
from harness import core, wire


def run():
    r = core.Run("C02", "model_checking")
    thorough = r.tier == "thorough"
    rng = random.Random(core.seed() + 1)
    from yowsup.layers.coder.encoder import WriteEncoder
    from yowsup.layers.coder.decoder import ReadDecoder
    from yowsup.layers.coder.tokendictionary import TokenDictionary
    r.cov["rule"] = ("case = (abstract tree, encoder choice): the library's bytes must be the encoding the reference accepts for the tree, and every "
                     "single-position alternative the format permits (8/16-bit list header, 8/20/31-bit length, literal instead of token, packed or raw, "
                     "JID without user, string-valued content) plus all-alternatives-at-once and the deflated frame must decode to the tree; "
                     "dictionary compared entry by entry with the frozen reference; distinct by (tree, position, alternative)")
    primary, secondary = wire.load_dict(r)
    td = TokenDictionary()
    # ---- dictionary, entry by entry
    for i in range(236):
        r.case(("dict1", i))
        got = td.dictionary[i] if i < len(td.dictionary) else None
        if got != primary[i]:
            r.violation("dictionary:primary", "primary token %d is %r, reference %r" % (i, got, primary[i]), {"index": i})
        elif i >= 3:
            if td.getToken(i) != primary[i] or td.getIndex(primary[i]) != (i, False):
                r.violation("dictionary:lookup:primary", "getToken(%d) = %r, getIndex(%r) = %r" % (i, td.getToken(i), primary[i], td.getIndex(primary[i])), {"index": i})
    if len(td.dictionary) != 236:
        r.violation("dictionary:size", "primary dictionary has %d entries, reference 236" % len(td.dictionary), {})
    for i in range(1024):
        r.case(("dict2", i))
        got = td.secondaryDictionary[i] if i < len(td.secondaryDictionary) else None
        if got != secondary[i]:
            r.violation("dictionary:secondary", "secondary token %d is %r, reference %r" % (i, got, secondary[i]), {"index": i})
        elif td.getToken(i, True) != secondary[i] or td.getIndex(secondary[i]) != (i, True):
            r.violation("dictionary:lookup:secondary", "getToken(%d, True) = %r, getIndex(%r) = %r" % (i, td.getToken(i, True), secondary[i], td.getIndex(secondary[i])), {"index": i})
    if len(td.secondaryDictionary) != 1024:
        r.violation("dictionary:size", "secondary dictionary has %d entries, reference 1024" % len(td.secondaryDictionary), {})
    # ---- trees x choice vectors
    world = wire.World(primary, secondary, core.seed() + 1)
    cases = wire.generate(world, rng, thorough)
    outs, _ = wire.evaluate_cases(r, cases)
    nbad_design = 0
    conn = ReadDecoder(td)      # the decoder of one long connection
    for ci, (t, o) in enumerate(zip(cases, outs)):
        if not o["ok"]:
            nbad_design += 1
            continue
        segs = o["segs"]
        pol = [world.items(sg["pol"]) for sg in segs]
        body = b"".join(pol)
        node = world.node(t)
        big = len(body) >= 262144
        desc = {"tag": world.text(t["tag"])[:30], "attrs": len(t["attrs"]), "ckind": t["ckind"], "bytes": len(body) + 1}
        # (a) the library's bytes are accepted by the reference as this tree: they equal the encoding TLC computed and decoded
        try:
            got = bytes(bytearray(WriteEncoder(td).protocolTreeNodeToBytes(node)))
        except Exception as e:
            got = None
            r.violation("emit:exception:%s" % type(e).__name__, "encoder raised %r on %s" % (e, desc), {"case": ci})
        r.case(("emit", ci))
        if got is not None and got != b"\x00" + body:
            r.violation("emit:not-reference-encoding", "the library's bytes for %s are not the encoding the reference implementation accepts for this tree" % (desc,), {"case": ci})

        def check(frame, what, pos, decoder=None):
            r.case(("decode", ci, what, pos))
            r.cov["traces_validated_against_impl"] += 1
            try:
                back = (decoder or ReadDecoder(td)).getProtocolTreeNode(bytearray(frame))
            except Exception as e:
                r.violation("decode:%s:exception:%s" % (what, type(e).__name__), "decoder raised %r on a valid %s encoding (position %s) of %s" % (e, what, pos, desc),
                            {"case": ci, "what": what, "pos": pos})
                return
            d = wire.strict_equal(node, back)
            if d:
                r.violation("decode:%s:tree-differs" % what, "valid %s encoding (position %s) of %s decodes to a different tree: %s" % (what, pos, desc, d),
                            {"case": ci, "what": what, "pos": pos})
        # (b) every permitted single-position alternative
        nseg = len(segs)
        positions = range(nseg) if (nseg <= 60 or thorough) else sorted(rng.sample(range(nseg), 60))
        for si in positions:
            alts = segs[si]["alts"]
            if big and not thorough:
                alts = alts[:1]
            for a in alts:
                ab = world.items(a)
                kind = ("list16" if a[0] == 249 else "len31" if a[0] == 254 else "len20" if a[0] == 253 else "nouser-jid" if a[:2] == [250, 0] else
                        "literal-or-len8" if a[0] == 252 else "packed" if a[0] in (251, 255) else "jid-part" if a[0] == 250 else "token-content")
                check(b"\x00" + b"".join(pol[:si]) + ab + b"".join(pol[si + 1:]), kind, si)
        # all positions deviating at once
        if not big:
            allb = b"".join(world.items(sg["alts"][-1]) if sg["alts"] else pol[i] for i, sg in enumerate(segs))
            check(b"\x00" + allb, "all-alternatives", "*")
            # compressed frame
            check(b"\x02" + zlib.compress(body), "deflate", "*")
            # the frames of ONE connection go through one decoder object: plain and compressed frames in any mix, one after the other
            check(b"\x02" + zlib.compress(body, 1 + ci % 9), "stream-deflate", ci, conn)
            if ci % 3 == 0:
                check(b"\x00" + body, "stream-plain", ci, conn)
        else:
            # large trees: the compressed frame only (a server compresses large stanzas in particular)
            check(b"\x02" + zlib.compress(body, 1), "deflate-large", "*")
        if ci in (5, 400):
            r.sample({"tree": desc, "positions": nseg, "alternatives": sum(len(sg["alts"]) for sg in segs)})
    if nbad_design:
        raise core.MachineryError("%d cases: reference decoder disagrees with reference encoder (specification error)" % nbad_design)
    r.cov["states"] = len(cases) + 1260
    r.cov["transitions"] = sum(o["n"] for o in outs)
    r.assumptions += core.ENV_ASSUMPTIONS[:1] + ["the reference dictionary is a frozen transcription of the pinned table (no other copy exists offline): it detects any change of the table "
                      "and any index arithmetic error, it cannot certify the pinned table against WhatsApp's servers",
                      "alternatives are enumerated one position at a time plus all at once (the format is context-free per position)"]
    return r.finish()


def replay(path):
    print(open(path).read()[:3000])
    return run()
