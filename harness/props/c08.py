"""C08 - request/response correlation.  Spec: IqRegistry.tla; binding A (edge replay on the assembled protocol layers + interface layer)
and B (random longer histories recorded and validated by TLC)."""
import json, os, random
from harness import core, stackkit

FULL = ["out.iq.lastseen", "out.iq.picture.get", "out.iq.picture.set", "out.iq.statuses.get", "out.iq.status.set", "out.iq.privacy.get",
        "out.iq.privacy.set", "out.iq.groups.create", "out.iq.groups.info", "out.iq.groups.leave", "out.iq.groups.subject",
        "out.iq.groups.add", "out.iq.groups.remove", "out.iq.groups.promote", "out.iq.groups.demote", "out.iq.media.requestupload"]
OKONLY = ["out.iq.ping", "out.iq.groups.list", "out.iq.groups.participants"]
DIRECT = ["out.iq.sync.get"]
CLASS = {"full": FULL, "okonly": OKONLY, "direct": DIRECT}


class CallbackFailure(Exception):
    pass


class World(object):
    """One real stack + the bookkeeping that maps model ids to concrete requests."""
    def __init__(self, rng, cat):
        from yowsup.layers.interface import YowInterfaceLayer, ProtocolEntityCallback
        self.rng, self.cat = rng, cat
        World.N = getattr(World, "N", 0) + 1

        class AppWithIqHandler(YowInterfaceLayer):
            """An application that also declares a general handler for iq stanzas (as the bundled command-line client does): replies to its OWN
            requests still go to the callbacks registered with the request, everything else to the handler (which here hands it on upward, so
            that the probe above sees the same as with a plain interface layer)."""
            @ProtocolEntityCallback("iq")
            def on_iq(app, entity):
                app.toUpper(entity)
        self.st, self.bottom, self.group, self.app, self.top = stackkit.protocol_stack(app_cls=YowInterfaceLayer if World.N % 2 else AppWithIqHandler)
        self.reqs = []      # (kind, entity)
        self.calls = []     # (model id, which, original_is_same)
        self.unknown = 0

    def request(self, klass, app, ok, err, pick, retry=False, inline=None):
        """inline: None | "result" | "error" - the reply is handed up while the request is still being written (a loopback or very fast
        transport, or the writer preempted right after the write): the outcome must be that of request-then-reply."""
        names = CLASS[klass]
        kind = self.cat.BY_NAME[names[pick % len(names)]] if app else self.cat.BY_NAME["out.iq.ping"]
        ent = kind.make_entity(self.rng)
        # the id comes from the library itself, as for every request an application builds: through the public constructor where that
        # takes no id (pings), else from the library's own generator
        if kind.name == "out.iq.ping":
            from yowsup.layers.protocol_iq.protocolentities import PingIqProtocolEntity
            ent = PingIqProtocolEntity()
        else:
            ent._id = ent._generateId(True)
        self.id_collision = any(e.getId() == ent.getId() for _, e in self.reqs)
        mid = len(self.reqs) + 1
        self.reqs.append((kind, ent))
        before = len(self.bottom.down)
        state = {"retry": retry}

        def mk(which):
            def cb(reply, original):
                self.calls.append((mid, which, original is ent, reply.getId() == ent.getId()))
                if which == "err" and state["retry"]:
                    state["retry"] = False
                    self.app._sendIq(original, mk("ok") if ok else None, mk("err"))
                elif mid % 3 == 2:
                    # an application callback that fails: the reply was still its reply (it is not ALSO handed on as an ordinary stanza)
                    raise CallbackFailure("application callback of request %d fails" % mid)
            return cb
        orig_send = self.bottom.send
        if inline:
            def send_and_reply(data, orig_send=orig_send):
                orig_send(data)
                if data.tag == "iq" and data["id"] == ent.getId():
                    self.bottom.send = orig_send
                    try:
                        self.bottom.toUpper(self.reply_node(kind, ent, inline))
                    except CallbackFailure:
                        pass
            self.bottom.send = send_and_reply
        try:
            if app:
                self.app._sendIq(ent, mk("ok") if ok else None, mk("err") if err else None)
            else:
                stackkit.member(self.group, "YowIqProtocolLayer").sendIq(ent)
        finally:
            self.bottom.send = orig_send
        return kind, ent, self.bottom.down[before:]

    def reply_node(self, kind, ent, typ):
        if typ != "result":
            node = kind.iq_reply["error"](self.rng, ent)
            # the <error/> child of an error reply carries a numeric code as a rule - but also a text only, a symbolic code, or nothing
            c = self.rng.random()
            err = node.getChild("error")
            if err is not None and c < 0.3:
                if c < 0.12 and err["code"] is not None:
                    err.removeAttribute("code")
                elif c < 0.2:
                    err["code"] = "not-acceptable"
                elif err["text"] is not None:
                    err.removeAttribute("text")
            return self.vary_from(node)
        # every result shape the catalogue knows for this request (e.g. the <duplicate> form of an upload result)
        builders = [lambda: kind.iq_reply["result"](self.rng, ent)]
        for k in self.cat.KINDS:
            if k.direction == "in" and k.solicited_by == kind.name and k.name.startswith("in.iq.result"):
                builders.append(lambda k=k: k.make_node(self.rng, request=ent))
        node = self.rng.choice(builders)()
        return self.vary_from(node)

    def vary_from(self, node):
        """Replies are correlated by id: the sender attribute of a reply varies between servers and reply kinds (present, absent, the
        bare domain) and decides nothing."""
        c = self.rng.random()
        if c < 0.15 and node["from"] is not None:
            node.removeAttribute("from")
        elif c < 0.3:
            node["from"] = "s.whatsapp.net"
        return node

    def deliver(self, mid, typ):
        kind, ent = self.reqs[mid - 1]
        node = self.reply_node(kind, ent, typ)
        try:
            self.bottom.toUpper(node)
        except CallbackFailure:
            pass        # reported to whoever delivered the stanza (C12's subject); the routing of the reply is what is compared here
        return node

    def deliver_unknown(self, typ, shape):
        kind = self.cat.BY_NAME["out.iq.sync.get" if shape == "sync" else self.rng.choice(FULL[:4])]
        ent = kind.make_entity(self.rng)
        self.unknown += 1
        ent._id = "unknown-%d-%d" % (self.unknown, self.rng.randint(1000, 9999))
        node = kind.iq_reply["result" if typ == "result" else "error"](self.rng, ent)
        node["id"] = ent._id
        self.bottom.toUpper(node)
        return ent._id

    def server_ping(self, mid):
        from yowsup.structs import ProtocolTreeNode
        if mid == 0:
            self.unknown += 1
            pid = "srvping-%d" % self.unknown
        else:
            pid = self.reqs[mid - 1][1].getId()
        node = ProtocolTreeNode("iq", {"id": pid, "type": "get", "xmlns": "urn:xmpp:ping", "from": "s.whatsapp.net"})
        before = len(self.bottom.down)
        self.bottom.toUpper(node)
        return pid, self.bottom.down[before:]

    def model_id(self, concrete_id):
        for i, (k, e) in enumerate(self.reqs):
            if e.getId() == concrete_id:
                return i + 1
        return 0

    def observe(self):
        calls = [{"id": c[0], "which": c[1]} for c in self.calls]
        top = []
        for e in self.top.up:
            top.append({"id": self.model_id(e.getId()) if hasattr(e, "getId") else -1, "type": e.getType() if hasattr(e, "getType") else "?"})
        pongs = []
        for n in self.bottom.down:
            if n.tag == "iq" and n["type"] == "result":
                pongs.append(self.model_id(n["id"]))
        self.resent = len([n for n in self.bottom.down if n.tag == "iq" and n["type"] in ("get", "set")])
        return calls, top, pongs


def replay_path(run, g, path, cat, seed, pi):
    rng = random.Random(seed * 7919 + pi)
    w = World(rng, cat)
    init, steps = g.path_steps(path)
    trail = []
    skip = False
    for si, (act, to) in enumerate(steps):
        n = act["name"]
        if skip:
            skip = False
            continue
        try:
            if n == "Request":
                # every third request that is answered next: the reply arrives while the request is still being written
                inline = None
                nreq = len(w.reqs) + 1
                if si + 1 < len(steps) and steps[si + 1][0]["name"] == "Deliver" and steps[si + 1][0]["id"] == nreq and (pi + si) % 3 == 0 and not act.get("retry", False):
                    inline = steps[si + 1][0]["type"]
                kind, ent, sent = w.request(act["kind"], act["app"], act["ok"], act["err"], pi + si, act.get("retry", False), inline=inline)
                trail.append({"Request": kind.name, "app": act["app"], "ok": act["ok"], "err": act["err"], "retry": act.get("retry", False)})
                if inline:
                    trail.append({"Deliver": nreq, "type": inline, "kind": kind.name, "inline": True})
                    to = steps[si + 1][1]
                    skip = True
                if w.id_collision:
                    run.violation("request:id-not-unique", "request %s got id %r which an earlier request of this history already uses (%s)" % (
                        kind.name, ent.getId(), [(k.name, e.getId()) for k, e in w.reqs]), {"trail": trail})
                    return False
                exp = ent.toProtocolTreeNode()
                if len(sent) != 1 or sent[0] != exp:
                    run.violation("request:not-sent-once:%s" % kind.name, "request %s produced %d stanzas at the bottom" % (kind.name, len(sent)), {"trail": trail})
                    return False
            elif n == "Deliver":
                w.deliver(act["id"], act["type"])
                trail.append({"Deliver": act["id"], "type": act["type"], "kind": w.reqs[act["id"] - 1][0].name})
            elif n == "DeliverUnknown":
                w.deliver_unknown(act["type"], act["shape"])
                trail.append({"DeliverUnknown": act["type"], "shape": act["shape"]})
            elif n == "ServerPing":
                w.server_ping(act["id"])
                trail.append({"ServerPing": act["id"], "kind": w.reqs[act["id"] - 1][0].name if act["id"] else None})
        except Exception as e:
            run.violation("exception:%s:%s" % (n, type(e).__name__), "%s raised %r after %s" % (act, e, trail), {"trail": trail})
            return False
        calls, top, pongs = w.observe()
        exp_top = [{"id": t["id"], "type": t["type"]} for t in to["top"]]
        problems = []
        if calls != to["calls"]:
            problems.append(("callbacks", "application callbacks %s, specification %s" % (calls, to["calls"])))
        if any(not c[2] or not c[3] for c in w.calls):
            problems.append(("original", "a callback was invoked with a different original request / reply id"))
        if pongs != to["pongs"]:
            problems.append(("pong", "pongs sent for %s, specification %s" % (pongs, to["pongs"])))
        if sorted(map(json.dumps, top)) != sorted(map(json.dumps, exp_top)):
            problems.append(("top", "unclaimed entities at the top %s, specification %s" % (top, exp_top)))
        if problems:
            kinds = [k.name for k, _ in w.reqs]
            last = trail[-1]
            what = problems[0][0]
            detail = ""
            if "Deliver" in last:
                detail = ":%s:%s" % (last["type"], last["kind"])
            elif "ServerPing" in last:
                detail = ":collision:%s" % last["kind"] if last["ServerPing"] else ":nocollision"
            run.violation("%s:%s%s" % (what, n, detail), "after %s: %s" % (trail, "; ".join(p[1] for p in problems)), {"trail": trail, "kinds": kinds})
            return False
    return True


def app_ping_with_keepalive(r):
    """An application-issued ping while a keep-alive ping of the library is still unanswered (full default stack, virtual time): the pong
    for the application's ping reaches its callback once, whichever pong arrives first, and the keep-alive's own pong invokes nothing."""
    from harness import e2ekit, sched
    from harness.props import c16
    from yowsup.layers.protocol_iq.protocolentities import PingIqProtocolEntity
    roots = e2ekit.Roots()
    try:
        for order in ("app-first", "keepalive-first"):
            r.case(("app-ping-with-keepalive", order))
            r.cov["traces_validated_against_impl"] += 1
            w = c16.World(True, True)
            calls = []
            try:
                w.start()
                for act in ({"name": "ConnectRequest"}, {"name": "DispatcherConnected"}, {"name": "Success"}, {"name": "PingTick"}):
                    w.do(act)
                if len(w.pings) != 1:
                    raise core.MachineryError("keep-alive ping not seen by the server double (%s)" % w.pings)
                ent = PingIqProtocolEntity()

                def submit():
                    w.iface._sendIq(ent, lambda res, orig: calls.append(("ok", res.getId(), orig is ent)), lambda res, orig: calls.append(("err", res.getId(), orig is ent)))
                t = w.s.spawn("appping", submit)
                w.s.quiesce(lambda rr, sc: ([x for x in rr if x.name == "appping"] or rr)[0])
                if len(w.pings) != 2 or w.pings[1] != ent.getId():
                    r.violation("request:not-sent:app-ping", "the application's ping did not reach the server (pings seen: %s)" % w.pings, {"order": order})
                    continue
                for idx in ((2, 1) if order == "app-first" else (1, 2)):
                    w.do({"name": "Pong", "id": idx})
                want = [("ok", ent.getId(), True)]
                if calls != want or w.problems:
                    r.violation("callbacks:app-ping-with-keepalive:%s" % order, "application ping answered while a keep-alive ping was outstanding (%s): callbacks %s, expected %s %s" % (
                        order, calls, want, w.problems[:1]), {"order": order})
            except sched.Deadlock as e:
                r.violation("hang:app-ping-with-keepalive", "%s: %s" % (order, e), {"order": order})
            finally:
                w.close()
    finally:
        roots.close()


def run():
    r = core.Run("C08", "model_checking")
    thorough = r.tier == "thorough"
    rng = random.Random(core.seed())
    from harness import catalogue as cat
    r.cov["rule"] = ("case = one behaviour of IqRegistry.tla (requests of every kind class with/without application callbacks, library-issued ping, "
                     "result/error/replayed/unknown-id replies in any order, server pings with colliding ids) replayed on the real protocol-layer "
                     "group + interface layer with concrete request kinds rotated over the 20 catalogue kinds; distinct by (behaviour, concrete kinds)")
    cfg = "MC_IqRegistry_thorough.cfg" if thorough else "MC_IqRegistry.cfg"
    res = core.must_clean(core.tlc("IqRegistry", cfg, r.scratch, workers=16, timeout=3000), cfg)
    r.add_tlc(res)
    for sw, inv in (("MatchRepliesOnly", None), ("HolderForwardsErrors", None), ("DirectErrorsForwarded", None)):
        bad = core.tlc("IqRegistry", "MC_IqRegistry_asread_%s.cfg" % sw, r.scratch, workers=8)
        if not bad.violated:
            raise core.MachineryError("self-test: switch %s=FALSE violates nothing" % sw)
    r.notes["selftest_switches_violate"] = ["MatchRepliesOnly", "HolderForwardsErrors", "DirectErrorsForwarded"]
    eg = core.tlc("IqRegistry", "Edges_IqRegistry_thorough.cfg" if thorough else "Edges_IqRegistry.cfg", r.scratch, workers=1, timeout=3000)
    g = core.Graph(eg.printed())
    if len(g.edges) < 3000:
        raise core.MachineryError("IqRegistry edge dump too small (%d)" % len(g.edges))
    r.notes["spec_transitions"] = len(g.edges)
    paths = g.transition_cover(rng, tail=2)
    covered = set()
    reps = 3 if thorough else 1
    for pi, p in enumerate(paths):
        if not thorough and (pi + core.seed()) % 2:
            continue          # quick: every other path of the cover (the other half with the next seed); thorough: all
        covered.update(p)
        for rep in range(reps):
            replay_path(r, g, p, cat, core.seed() + rep, pi * reps + rep)
            r.case((tuple(p), rep))
            r.cov["traces_validated_against_impl"] += 1
        if pi < 2:
            r.sample({"behaviour": [g.edges[i][1] for i in p]})
    r.notes["spec_transitions_replayed"] = len(covered)
    # every concrete kind at least once in the straight-line scenarios result / error (kind coverage independent of the rotation)
    if not thorough:
        eg2 = core.tlc("IqRegistry", "Edges_IqRegistry_thorough.cfg", r.scratch, workers=1, timeout=3000)
        g = core.Graph(eg2.printed())
    walks = g.random_walks(6000 if thorough else 1500, 6, rng)
    for wi, p in enumerate(walks):
        replay_path(r, g, p, cat, core.seed() + 17, 100000 + wi)
        r.case(("walk", tuple(p), wi))
        r.cov["traces_validated_against_impl"] += 1
    app_ping_with_keepalive(r)
    r.assumptions += core.ENV_ASSUMPTIONS[:1] + ["library-internal key fetch / key upload / group-info requests are exercised by the end-to-end checks (C03, C14), not here",
                      "concrete result/error stanzas come from the hand-written catalogue (harness/catalogue.py)"]
    return r.finish()


def replay(path):
    print(open(path).read()[:3000])
    return run()
