"""C20 - registration requests.  Spec: RegRequest.tla; binding C (TLC evaluates the reference encoding / terms) + B (freshness traces)."""
import base64, hashlib, hmac, json, os, random, urllib.parse
from harness import core


def eval_term(t, env):
    """Interpreter for the crypto terms printed by TLC, with independent primitives."""
    if isinstance(t, list):
        return b"".join(eval_term(x, env) for x in t)
    fn = t["fn"]
    if fn == "b64":
        return base64.b64encode(eval_term(t["of"], env))
    if fn == "sha1":
        return hashlib.sha1(eval_term(t["of"], env)).digest()
    if fn == "xorpad":
        k = base64.b64decode(t["key"])[:t["n"]]
        return bytes(bytearray(x ^ t["pad"] for x in bytearray(k)))
    if fn == "b64dec":
        return base64.b64decode(env[t["sym"]] if "sym" in t else t["lit"])
    if fn == "utf8":
        v = env[t["var"]]
        return v.encode("utf-8") if isinstance(v, str) else v
    if fn == "var":
        return env[t["var"]]
    raise core.MachineryError("unknown term fn %s" % fn)


def gen_value(rng):
    c = rng.random()
    if c < 0.35:
        n = rng.choice([0, 1, 2, 3, 8, 20])
        pool = [0, 0x20, 0x25, 0x26, 0x2b, 0x2d, 0x2e, 0x2f, 0x3d, 0x41, 0x5f, 0x7a, 0x7e, 0x7f, 0x80, 0xe9, 0x7ff, 0x800, 0x20ac, 0xffff,
                0x10000, 0x1f600] + [rng.randint(1, 0x10ffff) for _ in range(4)]
        cps = [c for c in (rng.choice(pool) for _ in range(n)) if not (0xd800 <= c <= 0xdfff)]
        return {"t": "str", "b": cps}, "".join(chr(c) for c in cps)
    if c < 0.75:
        n = rng.choice([0, 1, 2, 5, 16, 32])
        bs = [rng.choice([0, 0x25, 0x2d, 0x5f, 0x7e, 0x7f, 0x80, 0xc3, 0xff, rng.randint(0, 255)]) for _ in range(n)]
        return {"t": "bytes", "b": bs}, bytes(bytearray(bs))
    neg = rng.random() < 0.25
    mag = rng.choice([0, 1, 9, 10, 4711, 2147483647, rng.randint(0, 10 ** 9)])
    if mag == 0:
        neg = False
    return {"t": "int", "b": [1 if neg else 0, mag]}, (-mag if neg else mag)


def request_pipeline(r, rng, tables, sig, thorough):
    """The real request objects end to end (code / register / exists requests built from a profile, sent through a stubbed HTTPS connection,
    the server key replaced by a key pair of the harness): what reaches the connection decrypts to the request's own parameter list, every
    value decodable with standard percent-decoding, in the original order, with the token of the national number, under a fresh key."""
    from harness import e2ekit
    import yowsup.common.http.warequest as wr
    from yowsup.registration.coderequest import WACodeRequest
    from yowsup.registration.regrequest import WARegRequest
    from yowsup.registration.existsrequest import WAExistsRequest
    from yowsup.config.v1.config import Config
    from yowsup.profile.profile import YowProfile
    from cryptography.hazmat.primitives.asymmetric.x25519 import X25519PrivateKey, X25519PublicKey
    from cryptography.hazmat.primitives.ciphers.aead import AESGCM
    from cryptography.hazmat.primitives import serialization
    from axolotl.ecc.curve import Curve
    roots = e2ekit.Roots()
    e2ekit.small_batches(3, 1)
    priv = X25519PrivateKey.generate()
    pub = priv.public_key().public_bytes(serialization.Encoding.Raw, serialization.PublicFormat.Raw)
    sent = []

    class Resp(object):
        status = 200

        def read(self):
            return b'{"status": "sent", "length": 6, "method": "sms", "retry_after": 64}'

    class Conn(object):
        def __init__(self, host, port=None, *a, **kw):
            self.host = host

        def request(self, method, path, body=None, headers=None):
            sent.append((self.host, method, path, body, headers))

        def getresponse(self):
            return Resp()
    saved = (wr.WARequest.ENC_PUBKEY, wr.httplib.HTTPSConnection, wr.httplib.HTTPConnection)
    wr.WARequest.ENC_PUBKEY = Curve.decodePoint(bytearray(b"\x05" + pub), 0)
    wr.httplib.HTTPSConnection = wr.httplib.HTTPConnection = Conn
    ephs = []
    try:
        n = 40 if thorough else 10
        for i in range(n):
            cc = rng.choice(["49", "1", "351", "7"])
            national = "".join(rng.choice("0123456789") for _ in range(rng.randint(5, 11)))
            if i % 4 == 0:
                national = cc + national[:6]          # a national number that itself starts with the country code digits
            phone = cc + national
            cfg = Config(phone=phone, cc=cc, mcc=rng.choice(["262", "1", "20"]), mnc=rng.choice(["2", "07", "410"]), sim_mcc=rng.choice(["000", "26"]),
                         sim_mnc=rng.choice(["000", "1"]), pushname=u"verif \xe9")
            if i % 5 == 3:
                cfg.login = cc + "1" + national      # the stored login may differ from the phone number (number formats changed): requests go by the phone
            kind = ("code", "register", "exists")[i % 3]
            if kind != "code" or i % 2:
                cfg.id = os.urandom(20)        # a code request with an id first asks whether the account exists
            del sent[:]
            try:
                if kind == "code":
                    req = WACodeRequest(rng.choice(["sms", "voice"]), cfg)
                elif kind == "register":
                    req = WARegRequest(cfg, "%06d" % rng.randint(0, 999999))
                else:
                    req = WAExistsRequest(cfg)
                req.send()
            except Exception as e:
                r.violation("request:exception:%s:%s" % (kind, type(e).__name__), "%s request for cc=%s number=%s raised %r" % (kind, cc, national, e), {"kind": kind})
                continue
            r.case(("request", kind, i, phone))
            r.cov["traces_validated_against_impl"] += 1
            if not sent:
                r.violation("request:nothing-sent:%s" % kind, "%s request wrote nothing to the connection" % kind, {"kind": kind})
                continue
            host, method, path, body, headers = sent[-1]
            params = list(req.params)
            problems = []
            try:
                q = path.split("?", 1)[1]
                pairs = [kv.split("=", 1) for kv in q.split("&")]
                if [k for k, _ in pairs] != ["ENC"]:
                    problems.append(("query", "the query carries %s, expected the single ENC parameter" % [k for k, _ in pairs]))
                blob = base64.b64decode(urllib.parse.unquote_to_bytes(pairs[0][1]))
                ephs.append(bytes(blob[:32]))
                shared = priv.exchange(X25519PublicKey.from_public_bytes(bytes(blob[:32])))
                inner = AESGCM(shared).decrypt(b"\x00" * 12, bytes(blob[32:]), b"").decode("ascii")
            except Exception as e:
                problems.append(("undecryptable", "what was sent does not decrypt with the private key matching the server key used: %r" % (e,)))
                inner = None
            if inner is not None:
                got = [kv.split("=", 1) for kv in inner.split("&")]
                names = [k for k, _ in got]
                if len(set(names)) != len(names):
                    problems.append(("duplicate", "parameter names occur more than once in what was sent: %s" % sorted(set(k for k in names if names.count(k) > 1))))
                if [k for k, _ in got] != [k for k, _ in params]:
                    problems.append(("order", "decrypted parameter names %s, the request holds %s" % ([k for k, _ in got], [k for k, _ in params])))
                else:
                    for (k, enc), (_, v) in zip(got, params):
                        raw = v if isinstance(v, bytes) else (v if isinstance(v, str) else str(v)).encode("utf-8")
                        if urllib.parse.unquote_to_bytes(enc) != raw:
                            problems.append(("value", "parameter %s decodes to %r, the request holds %r" % (k, urllib.parse.unquote_to_bytes(enc)[:40], raw[:40])))
                            break
                d = dict(params)
                if str(d.get("cc")) != cc or str(d.get("in")) != national:
                    problems.append(("number", "cc / in parameters are %r / %r for cc=%s national number=%s" % (d.get("cc"), d.get("in"), cc, national)))
                if kind in ("code", "exists"):
                    exp = eval_term(tables["token"], {"SIGNATURE": sig, "phone": national})
                    tok = d.get("token")
                    tok = tok if isinstance(tok, bytes) else str(tok).encode()
                    if tok != exp:
                        problems.append(("token", "token parameter %r is not the token of the national number %s (%r)" % (tok, national, exp)))
            for sg, desc in problems:
                r.violation("request:%s:%s" % (sg, kind), "%s request for cc=%s number=%s: %s" % (kind, cc, national, desc), {"kind": kind, "cc": cc, "national": national})
        if len(set(ephs)) != len(ephs):
            r.violation("fresh:ephemeral-key-reused:requests", "two requests were encrypted under the same ephemeral key", {})
        r.notes["whole_requests"] = len(ephs)
    finally:
        wr.WARequest.ENC_PUBKEY, wr.httplib.HTTPSConnection, wr.httplib.HTTPConnection = saved
        roots.close()


def run():
    r = core.Run("C20", "model_checking")
    thorough = r.tier == "thorough"
    rng = random.Random(core.seed())
    from yowsup.common.http.warequest import WARequest
    from yowsup.env.env_android import AndroidYowsupEnv
    from axolotl.ecc.curve import Curve
    from cryptography.hazmat.primitives.asymmetric.x25519 import X25519PrivateKey, X25519PublicKey
    from cryptography.hazmat.primitives.ciphers.aead import AESGCM
    from cryptography.hazmat.primitives import serialization
    r.cov["rule"] = ("case = one value / parameter list / phone number / encryption whose expected encoding (or term) is computed by TLC from "
                     "RegRequest.tla and compared with WARequest.urlencode / urlencodeParams / encryptParams (decrypted with the recipient's "
                     "private key) / AndroidYowsupEnv.getToken; distinct by input")
    # ---- cases for TLC to evaluate
    ncases = 3000 if thorough else 400
    cases, concrete = [], []
    for i in range(ncases):
        n = rng.choice([0, 1, 1, 2, 3, 6])
        ps, cp = [], []
        for j in range(n):
            key = rng.choice(["cc", "in", "lg", "id", "e_ident", "token", "p%d" % j, "fdid"])
            mv, cv = gen_value(rng)
            ps.append({"k": key, "v": mv})
            cp.append((key, cv))
        cases.append(ps)
        concrete.append(cp)
    cf = os.path.join(r.scratch.path, "cases.json")
    json.dump(cases, open(cf, "w"))
    # ---- freshness traces recorded from the implementation
    req = WARequest.__new__(WARequest)
    ntr = 40 if thorough else 8
    traces, blobs = [], []
    case_i = 0
    for t in range(ntr):
        priv = X25519PrivateKey.generate()
        pub = priv.public_key().public_bytes(serialization.Encoding.Raw, serialization.PublicFormat.Raw)
        key = Curve.decodePoint(bytearray(b"\x05" + pub), 0)
        seen, tr = {}, []
        for k in range(50):
            ci = case_i % ncases
            case_i += 1
            try:
                out = req.encryptParams(concrete[ci], key)
            except Exception as e:
                r.violation("encrypt:exception:%s" % type(e).__name__, "encryptParams(%r) raised %r" % (concrete[ci], e), {"case": cases[ci]})
                continue
            if not (isinstance(out, list) and len(out) == 1 and out[0][0] == "ENC"):
                r.violation("encrypt:shape", "encryptParams returned %r" % (out,), {"case": cases[ci]})
                continue
            blob = base64.b64decode(out[0][1])
            eph = bytes(blob[:32])
            tr.append(seen.setdefault(eph, len(seen) + 1))
            blobs.append((ci, priv, blob))
        traces.append(tr)
    tf = os.path.join(r.scratch.path, "fresh.json")
    json.dump(traces, open(tf, "w"))
    res = core.tlc("RegRequest_Design", "RegRequest_Design.cfg", r.scratch, workers=1, env={"CASES_FILE": cf, "TRACE_FILE": tf}, timeout=1800)
    printed = res.printed()
    tables = [p for p in printed if isinstance(p, dict) and "single" in p]
    results = {p["i"]: p["r"] for p in printed if isinstance(p, dict) and "r" in p and "i" in p}
    if not res.finished or not tables or "assume" in res.violated:
        raise core.MachineryError("RegRequest_Design run failed:\n" + "\n".join(res.out.splitlines()[-25:]))
    r.add_tlc(res)
    r.cov["states"] += 256 * 256 + 256   # design-level round-trip obligations evaluated by TLC in ASSUMEs
    r.cov["transitions"] += 256 * 256
    tables, results = tables[0], [results.get(i + 1) for i in range(ncases)]
    for x in [p for p in printed if isinstance(p, dict) and "rejected" in p]:
        tr = traces[x["rejected"] - 1]
        r.violation("fresh:ephemeral-key-reused", "encryption %d of a run reused the ephemeral key of encryption %d" % (
            x["matched"] + 1, tr.index(tr[x["matched"]]) + 1), {"trace": tr})
    r.cov["traces_validated_against_impl"] += len(traces)
    # ---- single bytes and code points
    for b in range(256):
        exp = tables["single"][str(b)]
        for val in (bytes(bytearray([b])),) + ((chr(b),) if b < 128 else ()):
            try:
                got = WARequest.urlencode(val)
            except Exception as e:
                got = repr(e)
            r.case(("byte", b, type(val).__name__))
            if got != exp:
                r.violation("urlencode:byte", "urlencode(%r) = %r, specification %r" % (val, got, exp), {"value": repr(val)})
            elif urllib.parse.unquote_to_bytes(got) != bytes(bytearray([b])):
                r.violation("urlencode:undecodable", "standard decoding of %r is not %r" % (got, val), {"value": repr(val)})
    for e in tables["cps"]:
        cp = e["cp"]
        if 0xd800 <= cp <= 0xdfff:
            continue
        got = WARequest.urlencode(chr(cp))
        r.case(("cp", cp))
        if got != e["enc"] or urllib.parse.unquote_to_bytes(got) != chr(cp).encode("utf-8"):
            r.violation("urlencode:codepoint", "urlencode(chr(%d)) = %r, specification %r" % (cp, got, e["enc"]), {"cp": cp})
    # ---- parameter lists (order, separators, all value kinds)
    if any(x is None for x in results):
        raise core.MachineryError("TLC evaluated %d of %d cases" % (len(results), ncases))
    for i in range(ncases):
        try:
            got = WARequest.urlencodeParams(concrete[i])
        except Exception as e:
            got = repr(e)
        r.case(("params", json.dumps(cases[i])), nontrivial=len(cases[i]) > 0)
        if got != results[i]:
            r.violation("urlencodeParams:differs", "urlencodeParams(%r) = %r, specification %r" % (concrete[i], got, results[i]), {"case": cases[i]})
        if i < 2:
            r.sample({"params": cases[i], "expected": results[i]})
    # ---- many more ephemeral keys on one short parameter list: a treatment of the key bytes that goes wrong for one first byte in 256
    # (a key-type prefix stripped by value instead of by position) shows within a few thousand keys
    many_priv = X25519PrivateKey.generate()
    many_key = Curve.decodePoint(bytearray(b"\x05" + many_priv.public_key().public_bytes(serialization.Encoding.Raw, serialization.PublicFormat.Raw)), 0)
    ci0 = min(range(ncases), key=lambda i: len(results[i]))
    firsts = set()
    for k in range(12000 if thorough else 3000):
        try:
            blob = base64.b64decode(req.encryptParams(concrete[ci0], many_key)[0][1])
            firsts.add(blob[0])
            shared = many_priv.exchange(X25519PublicKey.from_public_bytes(bytes(blob[:32])))
            ok_ = AESGCM(shared).decrypt(b"\x00" * 12, bytes(blob[32:]), b"") == results[ci0].encode()
            why = "decrypts to something else"
        except Exception as e:
            ok_, why = False, "%r" % (e,)
        if not ok_:
            r.violation("encrypt:undecryptable:some-keys", "encryption #%d of one short parameter list under fresh ephemeral keys: the blob (%d bytes, first key byte 0x%02x) %s" % (
                k + 1, len(blob), blob[0], why), {"case": cases[ci0]})
            break
    r.case(("many-ephemeral-keys", len(firsts)))
    r.notes["distinct_first_bytes_of_ephemeral_keys"] = len(firsts)
    # ---- encrypted blobs decrypt to the encoded parameter string
    for ci, priv, blob in blobs:
        r.case(("blob", ci, blob[:8].hex()))
        try:
            shared = priv.exchange(X25519PublicKey.from_public_bytes(bytes(blob[:32])))
            pt = AESGCM(shared).decrypt(b"\x00" * 12, bytes(blob[32:]), b"")
        except Exception as e:
            r.violation("encrypt:undecryptable", "blob does not decrypt with the recipient's private key: %r" % (e,), {"case": cases[ci]})
            continue
        if pt != results[ci].encode():
            r.violation("encrypt:plaintext", "blob decrypts to %r, specification %r" % (pt[:200], results[ci][:200]), {"case": cases[ci]})
    # ---- token
    sig = open(os.path.join(core.SPEC, "RegRequest_signature.txt")).read().strip()
    phones = ["".join(rng.choice("0123456789") for _ in range(n)) for n in range(1, 16) for _ in range(6 if thorough else 2)]
    phones += ["", "+49 157", "4915770000001", u"é€", "0" * 40] + ["".join(chr(rng.randint(32, 0x2000)) for _ in range(rng.randint(1, 12))) for _ in range(20)]
    env = AndroidYowsupEnv()
    for rep in range(2):      # same environment object used repeatedly, and a fresh one
        for ph in phones:
            exp = eval_term(tables["token"], {"SIGNATURE": sig, "phone": ph})
            indep = base64.b64encode(hmac.new(base64.b64decode(tables["token"]["of"]["of"][0]["key"])[:64],
                                              base64.b64decode(sig) + base64.b64decode("WuFH18yXKRVezywQm+S24A==") + ph.encode("utf-8"), hashlib.sha1).digest())
            if exp != indep:
                raise core.MachineryError("term evaluator disagrees with hmac formulation")
            try:
                got = env.getToken(ph)
            except Exception as e:
                got = repr(e)
            r.case(("token", ph, rep))
            if got != exp:
                r.violation("token:differs", "getToken(%r) = %r, construction gives %r (call #%d on this environment)" % (ph, got, exp, rep + 1), {"phone": ph})
        if rep == 0:
            r.sample({"phone": phones[3], "token": exp.decode()})
    # ---- an environment derived from the stock one with constants of its own (another client build), used in the same process after,
    # between and before the stock environment: each computes its tokens from ITS constants
    own_key = base64.b64encode(bytes(bytearray(rng.getrandbits(8) for _ in range(80)))).decode()
    own_cls = base64.b64encode(bytes(bytearray(rng.getrandbits(8) for _ in range(16)))).decode()
    own_sig = base64.b64encode(bytes(bytearray(rng.getrandbits(8) for _ in range(300)))).decode()
    Derived = type("VerifDerivedEnv", (AndroidYowsupEnv,), {"_KEY": own_key, "_MD5_CLASSES": own_cls, "_SIGNATURE": own_sig, "_VERSION": "2.99.1"})
    KeyOnly = type("VerifKeyOnlyEnv", (AndroidYowsupEnv,), {"_KEY": own_key})
    stock_sig, stock_cls, stock_key = sig, "WuFH18yXKRVezywQm+S24A==", tables["token"]["of"]["of"][0]["key"]

    def hm(key, sg, cl, ph):
        return base64.b64encode(hmac.new(base64.b64decode(key)[:64], base64.b64decode(sg) + base64.b64decode(cl) + ph.encode("utf-8"), hashlib.sha1).digest())
    order = [("stock", AndroidYowsupEnv, stock_key, stock_sig, stock_cls), ("derived", Derived, own_key, own_sig, own_cls), ("stock", AndroidYowsupEnv, stock_key, stock_sig, stock_cls),
             ("key-only", KeyOnly, own_key, stock_sig, stock_cls), ("derived", Derived, own_key, own_sig, own_cls)]
    for oi, (label, cls_, k_, s_, c_) in enumerate(order):
        for ph in phones[:6]:
            r.case(("token-env", label, oi, ph))
            try:
                got = cls_().getToken(ph)
            except Exception as e:
                got = repr(e)
            if got != hm(k_, s_, c_, ph):
                r.violation("token:environment:%s" % label, "%s environment (use #%d in this process, after %s): getToken(%r) = %r, its own constants give %r" % (
                    label, oi + 1, [o[0] for o in order[:oi]], ph, got, hm(k_, s_, c_, ph)), {"phone": ph, "env": label})
    # ---- the CURRENT environment (what the request classes use) follows setEnv: derived -> stock -> derived
    from yowsup.env import YowsupEnv
    RegDerived = type("VerifRegisteredYowsupEnv", (AndroidYowsupEnv,), {"_KEY": own_key, "_MD5_CLASSES": own_cls, "_SIGNATURE": own_sig})
    YowsupEnv.registerEnv(RegDerived)
    try:
        for oi, (name, k_, s_, c_) in enumerate((("verifregistered", own_key, own_sig, own_cls), ("android", stock_key, stock_sig, stock_cls), ("verifregistered", own_key, own_sig, own_cls),
                                               ("android", stock_key, stock_sig, stock_cls))):
            YowsupEnv.setEnv(name)
            for ph in phones[:4]:
                r.case(("token-current-env", name, oi, ph))
                try:
                    got = YowsupEnv.getCurrent().getToken(ph)
                except Exception as e:
                    got = repr(e)
                if got != hm(k_, s_, c_, ph):
                    r.violation("token:current-environment:%s" % name, "after setEnv(%r) (switch #%d) the current environment's getToken(%r) = %r, that environment's constants give %r" % (
                        name, oi + 1, ph, got, hm(k_, s_, c_, ph)), {"phone": ph, "env": name})
    finally:
        YowsupEnv.setEnv("android")
    request_pipeline(r, rng, tables, sig, thorough)
    # ---- self-test: a trace with a repeated ephemeral key must be rejected by the specification
    bad = [[1, 2, 3, 2, 4]] + traces[:1]
    bf = os.path.join(r.scratch.path, "bad.json")
    json.dump(bad, open(bf, "w"))
    json.dump([], open(cf, "w"))
    res2 = core.tlc("RegRequest_Design", "RegRequest_Design.cfg", r.scratch, workers=1, env={"CASES_FILE": cf, "TRACE_FILE": bf})
    rej = [p for p in res2.printed() if isinstance(p, dict) and p.get("rejected") == 1]
    if not rej or rej[0]["matched"] != 3:
        raise core.MachineryError("self-test: corrupted freshness trace not rejected at event 4")
    r.notes["selftest_corrupted_trace_rejected_at"] = 4
    r.assumptions += core.ENV_ASSUMPTIONS[:1] + ["token constants (key, signature, classes digest) are frozen copies in spec/RegRequest.tla and spec/RegRequest_signature.txt",
                      "AES-GCM / X25519 / SHA-1 are evaluated with cryptography / hashlib (not by the code under test)"]
    return r.finish()


def replay(path):
    print(open(path).read()[:3000])
    return run()
