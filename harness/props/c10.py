"""C10 - message payloads: attribute objects <-> protobuf bytes.  Spec: Payload.tla + PayloadSchema.tla (frozen from e2e.proto's descriptor);
binding C: TLC computes the expected wire fields of every generated object; a generic protobuf reader/writer (no generated classes) compares."""
import json, os, random, struct
from harness import core

DL = ("url", "mimetype", "file_sha256", "file_length", "media_key", "context_info")
DLTYPES = ("Message_ImageMessage", "Message_DocumentMessage", "Message_AudioMessage", "Message_VideoMessage", "Message_StickerMessage")
REQUIRED = {"Message_ImageMessage": ["mimetype", "file_length", "file_sha256", "width", "height"],
            "Message_ContactMessage": ["display_name", "vcard"], "Message_LocationMessage": ["degrees_latitude", "degrees_longitude"],
            "Message_DocumentMessage": ["mimetype", "file_length", "file_sha256", "file_name"],
            "Message_AudioMessage": ["mimetype", "file_length", "file_sha256", "seconds", "ptt"],
            "Message_VideoMessage": ["mimetype", "file_length", "file_sha256", "width", "height", "seconds"],
            "Message_StickerMessage": ["mimetype", "file_length", "file_sha256", "width", "height"],
            "Message_SenderKeyDistributionMessage": ["group_id", "axolotl_sender_key_distribution_message"],
            "Message_ProtocolMessage": ["key", "type"], "MessageKey": ["remote_jid", "from_me", "id", "participant"],
            "Message_ExtendedTextMessage": [], "ContextInfo": [], "Message": []}
CONTENT = {"image": "Message_ImageMessage", "contact": "Message_ContactMessage", "location": "Message_LocationMessage",
           "extended_text": "Message_ExtendedTextMessage", "document": "Message_DocumentMessage", "audio": "Message_AudioMessage",
           "video": "Message_VideoMessage", "sticker": "Message_StickerMessage", "sender_key_distribution_message": "Message_SenderKeyDistributionMessage",
           "protocol": "Message_ProtocolMessage"}


# ------------------------------------------------------------------ generic protobuf wire reader / writer
def rd_varint(b, i):
    v = s = 0
    while True:
        c = b[i]
        i += 1
        v |= (c & 0x7F) << s
        s += 7
        if not c & 0x80:
            return v, i


def read_fields(b):
    i, out = 0, []
    b = bytearray(b)
    while i < len(b):
        key, i = rd_varint(b, i)
        num, wt = key >> 3, key & 7
        if wt == 0:
            v, i = rd_varint(b, i)
        elif wt == 1:
            v, i = bytes(b[i:i + 8]), i + 8
        elif wt == 5:
            v, i = bytes(b[i:i + 4]), i + 4
        elif wt == 2:
            n, i = rd_varint(b, i)
            v, i = bytes(b[i:i + n]), i + n
            if i > len(b):
                raise ValueError("truncated")
        else:
            raise ValueError("wire type %d" % wt)
        out.append((num, wt, v))
    return out


def wr_varint(v):
    out = bytearray()
    while True:
        c = v & 0x7F
        v >>= 7
        out.append(c | (0x80 if v else 0))
        if not v:
            return bytes(out)


def enc_scalar(kind, val):
    if kind == "str":
        return val.encode("utf-8")
    if kind == "bytes":
        return val
    if kind == "bool":
        return 1 if val else 0
    if kind in ("uint", "enum"):
        return val
    if kind == "int":
        return val & 0xFFFFFFFFFFFFFFFF
    if kind == "double":
        return struct.pack("<d", val)
    if kind == "float":
        return struct.pack("<f", val)
    raise core.MachineryError("kind %s" % kind)


def flatten(b, expected_paths, prefix=()):
    """Parse bytes into [(path, wt, value)] descending into the len-delimited fields the specification says are messages."""
    out = []
    for num, wt, v in read_fields(b):
        path = prefix + (num,)
        if wt == 2 and path in expected_paths:
            out.append((path, 2, "msg"))
            out += flatten(v, expected_paths, path)
        else:
            out.append((path, wt, v))
    return out


def write_wire(wire, values, prefix=()):
    """Generic writer: the specification's wire fields -> bytes (a peer's serialiser)."""
    out = bytearray()
    i = 0
    n = len(prefix)
    while i < len(wire):
        e = wire[i]
        p = tuple(e["path"])
        if len(p) != n + 1 or p[:n] != prefix:
            i += 1
            continue
        key = wr_varint((p[-1] << 3) | e["wt"])
        if e["kind"] == "msg":
            sub = write_wire(wire, values, p)
            out += key + wr_varint(len(sub)) + sub
        else:
            v = enc_scalar(e["kind"], values[e["v"]])
            if e["wt"] == 0:
                out += key + wr_varint(v)
            elif e["wt"] == 2:
                out += key + wr_varint(len(v)) + v
            else:
                out += key + v
        i += 1
    return bytes(out)


# ------------------------------------------------------------------ objects
class Gen(object):
    def __init__(self, rng, table):
        self.rng, self.table = rng, table     # table: type -> {attr: field record}
        self.values = {}

    def val(self, kind, attr, ev=(), bits=32):
        r = self.rng
        if kind == "enum":
            vid = "v%d" % len(self.values)
            self.values[vid] = r.choice(list(ev))
            return vid
        if kind == "str":
            v = r.choice(["", u"plain text", u"h\xe9llo ✓ \U0001f600", u"x" * 300, u"line1\nline2\t "])
            if attr in ("conversation",) and v == "":
                v = u"."
        elif kind == "bytes":
            v = r.choice([b"", b"\x00", bytes(bytearray(r.getrandbits(8) for _ in range(32))), b"\xff\xd8\xff\xe0" + bytes(bytearray(r.getrandbits(8) for _ in range(200)))])
        elif kind == "bool":
            v = r.choice([True, False])
        elif kind == "uint":
            v = r.choice([0, 1, 127, 128, 65536, 2 ** 31, 2 ** 32 - 1, r.randint(0, 2 ** 32 - 1)] +
                         ([2 ** 32, 2 ** 32 + 1, 5 * 2 ** 40 + 3, 2 ** 63, 2 ** 64 - 1] if bits == 64 else []))
        elif kind == "int":
            v = r.choice([0, 1, 5, 2 ** 31 - 1] + ([2 ** 31, 2 ** 40 + 7, 2 ** 63 - 1] if bits == 64 else []))
        elif kind == "double":
            v = r.choice([0.0, -33.123456789, 52.5200066, 1e-7, 179.999999])
        elif kind == "float":
            v = r.choice([0.0, 1.5, -2.25, 1024.0])
        else:
            raise core.MachineryError(kind)
        vid = "v%d" % len(self.values)
        self.values[vid] = v
        return vid

    def obj(self, typ, depth, mode):
        fields = {}
        for attr, f in self.table[typ].items():
            req = attr in REQUIRED[typ]
            if f["kind"] == "msg":
                continue
            take = req or (mode == "all") or (mode == "rand" and self.rng.random() < 0.5) or (mode == attr)
            if not take:
                continue
            if f["rep"]:
                fields[attr] = [self.val(f["kind"], attr, f["ev"], f.get("bits", 32)) for _ in range(self.rng.choice([1, 2, 3]))]
            else:
                fields[attr] = self.val(f["kind"], attr, f["ev"], f.get("bits", 32))
        if typ == "Message_ProtocolMessage":
            fields["key"] = self.obj("MessageKey", depth, mode)
        if "context_info" in self.table[typ] and depth > 0 and (mode in ("all", "context_info") or (mode == "rand" and self.rng.random() < 0.6)):
            fields["context_info"] = self.ctx(depth, mode)
        if typ in ("Message_DocumentMessage",) and "file_length" in fields:
            pass
        return {"type": typ, "fields": fields}

    def ctx(self, depth, mode):
        o = self.obj("ContextInfo", 0, mode)
        if depth > 0 and (mode == "all" or self.rng.random() < 0.7):
            o["fields"]["quoted_message"] = self.message(depth - 1, mode)
        return o

    def message(self, depth, mode, content=None):
        content = content or self.rng.choice(["conversation"] + sorted(CONTENT))
        if content == "conversation":
            return {"type": "Message", "fields": {"conversation": self.val("str", "conversation")}}
        return {"type": "Message", "fields": {content: self.obj(CONTENT[content], depth, mode)}}


def build(o, values):
    """Abstract object -> the library's attribute objects, through their public constructors."""
    from yowsup.layers.protocol_messages.protocolentities.attributes import attributes_message, attributes_image, attributes_contact, attributes_location, \
        attributes_extendedtext, attributes_document, attributes_audio, attributes_video, attributes_sticker, attributes_downloadablemedia, \
        attributes_context_info, attributes_protocol, attributes_sender_key_distribution_message
    t, f = o["type"], o["fields"]

    def g(a):
        v = f.get(a)
        if v is None:
            return None
        if isinstance(v, dict):
            return build(v, values)
        if isinstance(v, list):
            return [values[x] for x in v]
        return values[v]
    if t in DLTYPES:
        dl = attributes_downloadablemedia.DownloadableMediaMessageAttributes(g("mimetype"), g("file_length"), g("file_sha256"), g("url"), g("media_key"), g("context_info"))
    if t == "Message":
        return attributes_message.MessageAttributes(g("conversation"), g("image"), g("contact"), g("location"), g("extended_text"), g("document"), g("audio"),
                                                    g("video"), g("sticker"), g("sender_key_distribution_message"), g("protocol"))
    if t == "Message_ImageMessage":
        return attributes_image.ImageAttributes(dl, g("width"), g("height"), g("caption"), g("jpeg_thumbnail"))
    if t == "Message_ContactMessage":
        return attributes_contact.ContactAttributes(g("display_name"), g("vcard"), g("context_info"))
    if t == "Message_LocationMessage":
        return attributes_location.LocationAttributes(g("degrees_latitude"), g("degrees_longitude"), g("name"), g("address"), g("url"), g("duration"), g("accuracy_in_meters"),
                                                      g("speed_in_mps"), g("degrees_clockwise_from_magnetic_north"), g("axolotl_sender_key_distribution_message"), g("jpeg_thumbnail"))
    if t == "Message_ExtendedTextMessage":
        return attributes_extendedtext.ExtendedTextAttributes(g("text"), g("matched_text"), g("canonical_url"), g("description"), g("title"), g("jpeg_thumbnail"), g("context_info"))
    if t == "Message_DocumentMessage":
        return attributes_document.DocumentAttributes(dl, g("file_name"), g("file_length"), g("title"), g("page_count"), g("jpeg_thumbnail"))
    if t == "Message_AudioMessage":
        return attributes_audio.AudioAttributes(dl, g("seconds"), g("ptt"))
    if t == "Message_VideoMessage":
        return attributes_video.VideoAttributes(dl, g("width"), g("height"), g("seconds"), g("gif_playback"), g("jpeg_thumbnail"), g("gif_attribution"), g("caption"), g("streaming_sidecar"))
    if t == "Message_StickerMessage":
        return attributes_sticker.StickerAttributes(dl, g("width"), g("height"), g("png_thumbnail"))
    if t == "Message_SenderKeyDistributionMessage":
        return attributes_sender_key_distribution_message.SenderKeyDistributionMessageAttributes(g("group_id"), g("axolotl_sender_key_distribution_message"))
    if t == "Message_ProtocolMessage":
        return attributes_protocol.ProtocolAttributes(g("key"), g("type"))
    if t == "MessageKey":
        return attributes_protocol.MessageKeyAttributes(g("remote_jid"), g("from_me"), g("id"), g("participant"))
    if t == "ContextInfo":
        # composed as an application would: optional parts it does not set are simply not passed
        kw = {a: g(a) for a in ("stanza_id", "participant", "quoted_message", "remote_jid", "mentioned_jid", "edit_version", "revoke_message")}
        return attributes_context_info.ContextInfoAttributes(**{a: v for a, v in kw.items() if v is not None})
    raise core.MachineryError("type %s" % t)


def project(attr_obj, typ, table):
    """Attribute object -> {attr: value | nested projection}: what the application reads back."""
    out = {}
    for attr, f in table[typ].items():
        src = attr_obj
        if typ in DLTYPES and attr in DL and not (typ == "Message_DocumentMessage" and attr == "file_length" and False):
            src = attr_obj.downloadablemedia_attributes
        v = getattr(src, attr)
        if v is None or (f["rep"] and len(v) == 0):
            continue
        if f["kind"] == "msg":
            out[attr] = project(v, f["sub"], table)
        elif f["rep"]:
            out[attr] = list(v)
        else:
            out[attr] = v
    return out


def concrete(o, values):
    out = {}
    for a, v in o["fields"].items():
        out[a] = concrete(v, values) if isinstance(v, dict) else ([values[x] for x in v] if isinstance(v, list) else values[v])
    return out


def approx_equal(a, b):
    if isinstance(a, dict) and isinstance(b, dict):
        return set(a) == set(b) and all(approx_equal(a[k], b[k]) for k in a)
    if isinstance(a, float) or isinstance(b, float):
        return struct.pack("<d", float(a)) == struct.pack("<d", float(b)) or struct.pack("<f", float(a)) == struct.pack("<f", float(b))
    return a == b and (type(a) is type(b) or isinstance(a, (int, bool)))


def diff_paths(a, b, path=""):
    if isinstance(a, dict) and isinstance(b, dict):
        out = []
        for k in sorted(set(a) | set(b)):
            if k not in a:
                out.append("%s.%s added" % (path, k))
            elif k not in b:
                out.append("%s.%s lost" % (path, k))
            else:
                out += diff_paths(a[k], b[k], path + "." + k)
        return out
    return [] if approx_equal(a, b) else ["%s altered" % path]


def entity_histories(r, gen, table, rng, thorough):
    """PayloadEntity.tla: edit / replace / serialise / forward histories on real message entities."""
    from yowsup.layers.protocol_messages.protocolentities.protomessage import ProtomessageProtocolEntity
    from yowsup.layers.protocol_messages.protocolentities.attributes.attributes_message_meta import MessageMetaAttributes
    from yowsup.layers.protocol_messages.protocolentities.attributes.converter import AttributesConverter
    res = core.must_clean(core.tlc("PayloadEntity", "MC_PayloadEntity.cfg", r.scratch, workers=4), "MC_PayloadEntity")
    r.add_tlc(res)
    eg = core.tlc("PayloadEntity", "Edges_PayloadEntity.cfg", r.scratch, workers=1)
    g = core.Graph(eg.printed())
    if len(g.edges) < 100:
        raise core.MachineryError("PayloadEntity edge dump too small")
    conv = AttributesConverter.get()
    contents = ["conversation", "extended_text", "image", "location", "contact", "video", "document"]
    for pi, path in enumerate(g.transition_cover(rng)):
        content = contents[pi % len(contents)]
        init, steps = g.path_steps(path)
        versions = {}

        def new_version(v):
            o = gen.message(0, "all", content)
            versions[v] = o
            return o
        o = new_version(1)
        ent = ProtomessageProtocolEntity("text" if content in ("conversation", "extended_text") else "media", build(o, gen.values),
                                         MessageMetaAttributes(id="1632400000-%d" % pi, recipient="4915770000002@s.whatsapp.net"))
        copy = None
        trail = []
        for act, to in steps:
            name = act["name"]
            trail.append(name)
            try:
                if name == "Replace":
                    ent.message_attributes = build(new_version(to["cur"]), gen.values)
                elif name == "EditInPlace":
                    # the same attribute object, changed through its own setters
                    new = new_version(to["cur"])
                    fresh = build(new, gen.values)
                    tgt, src = ent.message_attributes, fresh
                    if content != "conversation":
                        tgt, src = getattr(tgt, content), getattr(src, content)
                    edited = 0
                    for nm in dir(type(tgt)):
                        if isinstance(getattr(type(tgt), nm, None), property) and getattr(type(tgt), nm).fset is not None:
                            setattr(tgt, nm, getattr(src, nm))
                            edited += 1
                    if not edited:
                        ent.message_attributes = fresh
                elif name == "Forward":
                    copy = ent.forward("4915770000003@s.whatsapp.net")
                elif name in ("Serialise", "SerialiseCopy"):
                    who = ent if name == "Serialise" else copy
                    node = who.toProtocolTreeNode()
                    got = project(conv.protobytes_to_message(node.getChild("proto").getData()), "Message", table)
                    want = concrete(versions[to["sent"][-1]["v"]], gen.values)
                    d = diff_paths(want, got)
                    r.case(("entity", pi, len(trail)))
                    if d:
                        r.violation("entity:stale-payload:%s" % name, "after %s the %s serialises content that is not its current content (%s): %s" % (
                            trail, "entity" if name == "Serialise" else "forwarded copy", content, d[:3]), {"trail": trail, "content": content})
                        break
            except core.TooManyViolations:
                raise
            except Exception as e:
                r.violation("entity:exception:%s:%s" % (name, type(e).__name__), "%s raised %r after %s (%s)" % (name, e, trail, content), {"trail": trail})
                break
        r.cov["traces_validated_against_impl"] += 1


def object_isolation(r, gen, table, rng):
    """Attribute objects composed one after the other are independent: editing one of them in place (appending to its list fields,
    editing nested objects) does not change what another one - composed without those optional parts - serialises to."""
    from yowsup.layers.protocol_messages.protocolentities.attributes.converter import AttributesConverter
    conv = AttributesConverter.get()
    for content in ["extended_text", "image", "contact", "location", "video", "document"]:
        for depth in (1, 2):
            r.case(("isolation", content, depth))
            try:
                # two messages whose context carries only required parts (no mention list, no quoted message)
                o1, o2 = gen.message(depth, "context_info", content), gen.message(depth, "context_info", content)
                a1, a2 = build(o1, gen.values), build(o2, gen.values)
                before = conv.message_to_protobytes(a2)
                stack = [a1]
                seen = set()
                while stack:
                    x = stack.pop()
                    if id(x) in seen or x is None:
                        continue
                    seen.add(id(x))
                    for nm, val in list(vars(x).items()) if hasattr(x, "__dict__") else []:
                        if isinstance(val, list):
                            val.append("4915770009999@s.whatsapp.net")
                        elif hasattr(val, "__dict__"):
                            stack.append(val)
                after = conv.message_to_protobytes(a2)
            except Exception as e:
                r.violation("isolation:exception:%s:%s" % (content, type(e).__name__), "composing two %s messages and editing the first raised %r" % (content, e), {"content": content})
                continue
            if before != after:
                r.violation("isolation:shared-state:%s" % content, "editing one composed %s message in place changed what another, independently composed one serialises to" % content,
                            {"content": content, "depth": depth})


def failures_leave_no_trace(r, gen, table, rng):
    """The converter is one object per process.  Conversions that FAIL (a field value of the wrong type deep inside a quoted message, a payload
    that is not a payload) must leave nothing behind: a well-formed message with nested quotes converted afterwards serialises to the same
    bytes, and parses back to the same object, as before the failures."""
    from yowsup.layers.protocol_messages.protocolentities.attributes.converter import AttributesConverter
    from yowsup.layers.protocol_messages.protocolentities.attributes import attributes_message, attributes_contact, attributes_context_info, attributes_extendedtext
    conv = AttributesConverter.get()
    for content in ["extended_text", "image", "contact"]:
        r.case(("after-failures", content))
        o = gen.message(3, "all", content)
        try:
            good = build(o, gen.values)
            before = bytes(conv.message_to_protobytes(good))
            parsed_before = project(conv.protobytes_to_message(before), "Message", table)
        except Exception as e:
            r.violation("after-failures:exception:%s" % content, "converting a well-formed %s message with nested quotes raised %r" % (content, e), {"content": content})
            continue
        failed = 0
        for k in range(14):
            # a reply quoting a contact whose vcard is text where bytes are required (serialising) / a truncated payload (parsing)
            bad_contact = attributes_contact.ContactAttributes(u"name", u"BEGIN:VCARD" if k % 2 == 0 else 12345, None)
            ctx = attributes_context_info.ContextInfoAttributes(stanza_id="3EB0%04d" % k, participant="4915770000001@s.whatsapp.net",
                                                                quoted_message=attributes_message.MessageAttributes(contact=bad_contact))
            bad = attributes_message.MessageAttributes(extended_text=attributes_extendedtext.ExtendedTextAttributes(u"reply", None, None, None, None, None, ctx))
            try:
                conv.message_to_protobytes(bad)
            except Exception:
                failed += 1
            try:
                conv.protobytes_to_message(before[:max(1, len(before) - 1 - k)])
            except Exception:
                failed += 1
        r.notes["after_failures_conversions_that_failed"] = r.notes.get("after_failures_conversions_that_failed", 0) + failed
        try:
            after = bytes(conv.message_to_protobytes(build(o, gen.values)))
            parsed_after = project(conv.protobytes_to_message(before), "Message", table)
        except Exception as e:
            r.violation("after-failures:exception:%s" % content, "after %d failed conversions, converting the well-formed %s message raised %r" % (failed, content, e), {"content": content})
            continue
        if after != before or parsed_after != parsed_before:
            r.violation("after-failures:%s:%s" % ("serialise" if after != before else "parse", content),
                        "after %d failed conversions the same well-formed %s message with nested quotes %s" % (
                            failed, content, "serialises to different bytes" if after != before else "parses to a different object: %s" % diff_paths(parsed_before, parsed_after)[:4]),
                        {"content": content})


def parsed_objects_are_independent(r, gen, table, rng):
    """Two messages with byte-identical payloads (a forwarded sticker, the same caption twice) parse into two objects: editing what was parsed
    first - as an application does before forwarding - changes neither what the second parse returns nor what it serialises to.  And an
    empty-but-present context (a peer's context holding only fields this library does not model; an application's ContextInfoAttributes())
    stays present."""
    from yowsup.layers.protocol_messages.protocolentities.attributes.converter import AttributesConverter
    from yowsup.layers.protocol_messages.protocolentities.attributes import attributes_message, attributes_context_info, attributes_extendedtext
    conv = AttributesConverter.get()
    for content in ["extended_text", "image", "contact", "location"]:
        r.case(("same-bytes-twice", content))
        try:
            o = gen.message(1, "all", content)
            data = bytes(conv.message_to_protobytes(build(o, gen.values)))
            first = conv.protobytes_to_message(data)
            before = project(conv.protobytes_to_message(data), "Message", table)
            _scramble_any(first)
            second = conv.protobytes_to_message(data)
            after = project(second, "Message", table)
            again = bytes(conv.message_to_protobytes(second))
        except Exception as e:
            r.violation("same-bytes:exception:%s" % content, "parsing one %s payload twice and editing the first result raised %r" % (content, e), {"content": content})
            continue
        if first is second or after != before or again != data:
            r.violation("same-bytes:shared:%s" % content, "one %s payload parsed twice: after editing the first result in place the second parse %s" % (
                content, "IS the same object" if first is second else ("differs: %s" % diff_paths(before, after)[:3] if after != before else "re-serialises differently")), {"content": content})
    # empty but present context
    r.case(("empty-context",))
    try:
        m = attributes_message.MessageAttributes(extended_text=attributes_extendedtext.ExtendedTextAttributes(u"reply", None, None, None, None, None, attributes_context_info.ContextInfoAttributes()))
        data = bytes(conv.message_to_protobytes(m))
        fields = parse_generic(data)
        ctx = [v for (num, wt, v) in parse_generic(dict_first(fields, 6)) if num == 17]
        back = conv.protobytes_to_message(data)
        kept = back.extended_text is not None and back.extended_text.context_info is not None
        again = bytes(conv.message_to_protobytes(back))
    except Exception as e:
        r.violation("empty-context:exception", "an extended text with an empty context raised %r" % (e,), {})
        return
    if not ctx or not kept or again != data:
        r.violation("empty-context:dropped", "an extended text composed with an empty ContextInfoAttributes(): context field on the wire %s, after parsing %s, re-serialised %s" % (
            "present" if ctx else "ABSENT", "present" if kept else "absent", "unchanged" if again == data else "changed"), {})


def _scramble_any(x, depth=0):
    """Edit every editable part of a parsed attribute object in place."""
    if x is None or depth > 6 or not hasattr(x, "__dict__"):
        return
    for nm, val in list(vars(x).items()):
        if isinstance(val, list):
            val.append("4915770009999@s.whatsapp.net")
        elif isinstance(val, str):
            try:
                setattr(x, nm, val + u" (edited)")
            except Exception:
                pass
        elif hasattr(val, "__dict__"):
            _scramble_any(val, depth + 1)


def parse_generic(data):
    """[(field number, wire type, value)] of one protobuf message (generic reader)."""
    out, i = [], 0
    data = bytes(data)

    def varint(i):
        v, sh = 0, 0
        while True:
            b = data[i]
            i += 1
            v |= (b & 0x7F) << sh
            sh += 7
            if not b & 0x80:
                return v, i
    while i < len(data):
        key, i = varint(i)
        num, wt = key >> 3, key & 7
        if wt == 0:
            v, i = varint(i)
        elif wt == 2:
            n, i = varint(i)
            v = data[i:i + n]
            i += n
        elif wt == 1:
            v = data[i:i + 8]
            i += 8
        elif wt == 5:
            v = data[i:i + 4]
            i += 4
        else:
            raise ValueError("wire type %d" % wt)
        out.append((num, wt, v))
    return out


def dict_first(fields, num):
    for n, wt, v in fields:
        if n == num:
            return v
    return b""


def run():
    r = core.Run("C10", "exploration")
    thorough = r.tier == "thorough"
    rng = random.Random(core.seed())
    from yowsup.layers.protocol_messages.protocolentities.attributes.converter import AttributesConverter
    r.cov["rule"] = ("case = one attribute object (content kind x optional-field subset {required only, all, each optional alone, random} x value classes "
                     "{empty, unicode, zero, large, binary} x quoting depth 0..3); TLC (Payload.tla) computes its wire fields from the frozen e2e.proto "
                     "schema; checked: library bytes parsed by a generic reader == expected fields; parse-back == object; peer-written bytes -> parse -> "
                     "re-serialise == same fields; distinct by object")
    res0 = core.tlc("Payload_Eval", "Payload_Eval.cfg", r.scratch, workers=1, env={"DUMP_TABLE": "1"})
    tabs = [p for p in res0.printed() if isinstance(p, dict) and "table" in p]
    if not tabs:
        raise core.MachineryError("schema table not printed:\n" + res0.out[-1500:])
    table = {t: {e["attr"]: e for e in es} for t, es in tabs[0]["table"].items()}
    gen = Gen(rng, table)
    cases = []
    contents = ["conversation"] + sorted(CONTENT)
    for content in contents:
        typ = CONTENT.get(content)
        modes = ["required", "all"] + ([a for a in table[typ] if a not in REQUIRED[typ] and table[typ][a]["kind"] != "msg"] if typ else [])
        for mode in modes:
            for depth in ((0, 1, 2, 3) if mode == "all" else (0, 1)):
                for rep in range(2 if thorough else 1):
                    cases.append(gen.message(depth, mode, content))
        for _ in range(60 if thorough else 12):
            cases.append(gen.message(rng.choice([0, 1, 2, 3]), "rand", content))
    # payloads that carry two kinds of content at once: a sender-key distribution riding with the message (what a group member sends
    # in answer to a retry request, or with the first group message)
    for content in contents:
        if content in ("sender_key_distribution_message", "protocol"):
            continue
        for mode in ("required", "all"):
            o = gen.message(0, mode, content)
            o["fields"]["sender_key_distribution_message"] = gen.obj(CONTENT["sender_key_distribution_message"], 0, "all")
            cases.append(o)
    cf = os.path.join(r.scratch.path, "payload_cases.json")
    json.dump(cases, open(cf, "w"))
    res = core.tlc("Payload_Eval", "Payload_Eval.cfg", r.scratch, workers=1, env={"CASES_FILE": cf}, timeout=1800)
    outs = {p["i"]: p for p in res.printed() if isinstance(p, dict) and "wire" in p}
    if not res.finished or len(outs) != len(cases) or "assume" in res.violated:
        raise core.MachineryError("Payload_Eval failed (%d of %d)\n%s" % (len(outs), len(cases), "\n".join(res.out.splitlines()[-15:])))
    r.add_tlc(res)
    r.cov["states"] = len(cases)
    r.cov["transitions"] = sum(len(o["wire"]) for o in outs.values())
    conv = AttributesConverter.get()
    for ci, o in enumerate(cases):
        out = outs[ci + 1]
        if not out["ok"]:
            raise core.MachineryError("model round trip fails for case %d" % ci)
        wire = out["wire"]
        content = "+".join(sorted(o["fields"]))
        depth = json.dumps(o).count('"quoted_message"')
        r.case(ci)
        label = "%s:depth%d" % (content, depth)

        def expect_list(w):
            return sorted([(tuple(e["path"]), e["wt"], "msg" if e["kind"] == "msg" else enc_scalar(e["kind"], gen.values[e["v"]])) for e in w], key=lambda x: (x[0],))
        exp = expect_list(wire)
        msgpaths = set(tuple(e["path"]) for e in wire if e["kind"] == "msg")
        want_obj = concrete(o, gen.values)
        # (a) sender direction
        try:
            attrs = build(o, gen.values)
            data = conv.message_to_protobytes(attrs)
            got = sorted(flatten(data, msgpaths), key=lambda x: (x[0],))
        except Exception as e:
            r.violation("serialise:exception:%s:%s" % (content, type(e).__name__), "message_to_protobytes raised %r for %s" % (e, json.dumps(o)[:300]), {"case": o})
            continue
        if got != exp:
            miss = [x[0] for x in exp if x not in got][:4]
            extra = [x[0] for x in got if x not in exp][:4]
            r.violation("serialise:wire-differs:%s" % content, "%s: wire fields differ from the schema's: missing/changed %s, unexpected %s" % (label, miss, extra), {"case": o})
        try:
            back = conv.protobytes_to_message(data)
            got_obj = project(back, "Message", table)
        except Exception as e:
            r.violation("parse:exception:%s:%s" % (content, type(e).__name__), "protobytes_to_message raised %r" % (e,), {"case": o})
            continue
        d = diff_paths(want_obj, got_obj)
        if d:
            r.violation("roundtrip:%s:%s" % (content, d[0].split(" ")[-1]), "%s: parse(serialise(o)) differs from o: %s" % (label, d[:4]), {"case": o})
        # (b) peer direction: bytes written by the generic writer from the specification's fields
        try:
            peer = write_wire(wire, gen.values)
            again = conv.message_to_protobytes(conv.protobytes_to_message(peer))
            got2 = sorted(flatten(again, msgpaths), key=lambda x: (x[0],))
        except Exception as e:
            r.violation("peer:exception:%s:%s" % (content, type(e).__name__), "parsing / re-serialising a peer's payload raised %r" % (e,), {"case": o})
            continue
        if got2 != exp:
            miss = [x[0] for x in exp if x not in got2][:4]
            extra = [x[0] for x in got2 if x not in exp][:4]
            r.violation("peer:reserialise-differs:%s" % content, "%s: a peer's payload is re-serialised with different fields: missing/changed %s, unexpected %s" % (label, miss, extra), {"case": o})
        r.cov["traces_validated_against_impl"] += 1
        if ci in (1, 30):
            r.sample({"object": o, "expected_wire_paths": [list(x[0]) for x in exp][:12]})
    object_isolation(r, gen, table, rng)
    failures_leave_no_trace(r, gen, table, rng)
    parsed_objects_are_independent(r, gen, table, rng)
    entity_histories(r, gen, table, rng, thorough)
    r.assumptions += core.ENV_ASSUMPTIONS[:1] + ["field numbers / wire types are frozen from the protobuf descriptor embedded in e2e_pb2.py (spec/PayloadSchema.tla)",
                      "document file_length lives both on the document and on its downloadable-media attributes; the generator sets them equal",
                      "an empty conversation string is not generated (an empty text message is not a composed message)"]
    return r.finish()


def replay(path):
    print(open(path).read()[:3000])
    return run()
