"""C13 - key store durability and crash atomicity.  Spec: KeyStore.tla; binding A (edge replay) + E (crash injection)."""
import zlib, json, os, random, shutil, sqlite3, tempfile
from harness import core


class _Crash(BaseException):
    pass


class ConnProxy(object):
    """sqlite3 connection proxy: numbers data statements and commits; at the armed boundary it snapshots the
    database file and its rollback journal byte for byte (what a killed process leaves) and aborts the call."""
    def __init__(self, conn, ctl):
        object.__setattr__(self, "_c", conn)
        object.__setattr__(self, "_ctl", ctl)

    def __getattr__(self, n):
        return getattr(self._c, n)

    def __setattr__(self, n, v):
        setattr(self._c, n, v)

    def _boundary(self, kind):
        ctl = self._ctl
        if ctl["armed"] is not None and ctl["count"] == ctl["armed"]:
            ctl["snap"]()
            ctl["armed"] = None
            raise _Crash()
        ctl["count"] += 1
        ctl["kinds"].append(kind)

    def execute(self, sql, *a):
        k = sql.strip().split()[0].upper()
        if k in ("INSERT", "DELETE", "UPDATE"):
            self._boundary(k)
        return self._c.execute(sql, *a)

    def cursor(self):
        return CursorProxy(self._c.cursor(), self)

    def commit(self):
        self._boundary("COMMIT")
        return self._c.commit()

    def executemany(self, sql, *a):
        k = sql.strip().split()[0].upper()
        if k in ("INSERT", "DELETE", "UPDATE"):
            self._boundary(k)
        return self._c.executemany(sql, *a)

    # "with connection:" = commit on success, roll back on an exception (sqlite3's own protocol), through the same boundaries
    def __enter__(self):
        return self

    def __exit__(self, et, ev, tb):
        if et is None:
            self.commit()
        else:
            self._c.rollback()
        return False


class CursorProxy(object):
    def __init__(self, cur, conn):
        self._cur = cur
        self._conn = conn

    def __getattr__(self, n):
        return getattr(self._cur, n)

    def execute(self, sql, *a):
        k = sql.strip().split()[0].upper()
        if k in ("INSERT", "DELETE", "UPDATE"):
            self._conn._boundary(k)
        return self._cur.execute(sql, *a)

    def executemany(self, sql, *a):
        k = sql.strip().split()[0].upper()
        if k in ("INSERT", "DELETE", "UPDATE"):
            self._conn._boundary(k)
        return self._cur.executemany(sql, *a)


class Harness(object):
    def __init__(self, base):
        import yowsup.axolotl.store.sqlite.liteaxolotlstore as las
        self.las = las
        self.base = base
        self.n = 0
        self.ctl = {"armed": None, "count": 0, "kinds": [], "snap": None}
        self.real_connect = sqlite3.connect
        harness = self

        class _Sqlite(object):
            def __getattr__(self, n):
                return getattr(sqlite3, n)

            def connect(self, db, *a, **kw):
                c = harness.real_connect(db, *a, **kw)
                c.execute("PRAGMA synchronous=OFF")
                return ConnProxy(c, harness.ctl)
        las.sqlite3 = _Sqlite()
        self.values = {}
        self.blobs = {}

    def fresh_path(self):
        self.n += 1
        d = os.path.join(self.base, "db%d" % self.n)
        os.makedirs(d)
        return os.path.join(d, "axolotl.db")

    def open(self, path):
        self.ctl["armed"] = None
        return self.las.LiteAxolotlStore(path)

    def snapshot(self, path):
        dst = self.fresh_path()
        shutil.copyfile(path, dst)
        for suf in ("-journal", "-wal", "-shm"):
            if os.path.exists(path + suf):
                shutil.copyfile(path + suf, dst + suf)
        return dst

    # ---- concrete values, distinguishable by content
    def value(self, table, v, key=None):
        k = (table, v, key if table in ("prekeys", "signed") else None)
        if k in self.values:
            # records are mutable objects: every use gets its own copy, rebuilt from the bytes frozen when the value was made
            # (a store that edits the record it is handed must not thereby edit what the harness compares with)
            return self.copy_of(table, k)
        from axolotl.ecc.curve import Curve
        from axolotl.identitykey import IdentityKey
        from axolotl.state.sessionrecord import SessionRecord
        from axolotl.state.prekeyrecord import PreKeyRecord
        from axolotl.state.signedprekeyrecord import SignedPreKeyRecord
        from axolotl.groups.state.senderkeyrecord import SenderKeyRecord
        n = int(v[1:])
        if table == "sessions":
            r = SessionRecord()
            r.getSessionState().setLocalRegistrationId(1000 + n)
            r.getSessionState().setRemoteRegistrationId(2000 + n)
            r.getSessionState().setSessionVersion(3)
            val = r
        elif table == "identities":
            val = IdentityKey(Curve.generateKeyPair().getPublicKey())
        elif table == "prekeys":
            val = PreKeyRecord(KEYID[key], Curve.generateKeyPair())
        elif table == "signed":
            val = SignedPreKeyRecord(KEYID[key], 1600000000 + n, Curve.generateKeyPair(), bytes(bytearray([n] * 64)))
        else:
            r = SenderKeyRecord()
            # v1: one state; the others: as many states as that participant distributed keys (key rotations, reinstalls) - 7 for v2
            for j in range(1 if n == 1 else 5 + n):
                r.addSenderKeyState(n * 10 + j, j, bytes(bytearray([n + j] * 32)), Curve.generateKeyPair().getPublicKey())
            val = r
        self.values[k] = val
        self.blobs[k] = bytes(val.getPublicKey().serialize()) if table == "identities" else bytes(val.serialize())
        return self.copy_of(table, k)

    def copy_of(self, table, k):
        from axolotl.state.sessionrecord import SessionRecord
        from axolotl.state.prekeyrecord import PreKeyRecord
        from axolotl.state.signedprekeyrecord import SignedPreKeyRecord
        from axolotl.groups.state.senderkeyrecord import SenderKeyRecord
        if table == "identities":
            return self.values[k]
        cls = {"sessions": SessionRecord, "prekeys": PreKeyRecord, "signed": SignedPreKeyRecord, "senderkeys": SenderKeyRecord}[table]
        return cls(serialized=self.blobs[k])


KEYID = {"k1": 0, "k2": 12, "k3": 13}       # 0 is a key id like any other (an account's first signed prekey has it)
RECIP = {"k1": 4915770000001, "k2": 4915770000002, "k3": 4915770000003}


def sender_name(k):
    from axolotl.groups.senderkeyname import SenderKeyName
    from axolotl.axolotladdress import AxolotlAddress
    return SenderKeyName("4915770000001-14000000%02d@g.us" % KEYID[k], AxolotlAddress(str(RECIP[k]), 0))


INNER = {"sessions": "sessionStore", "identities": "identityKeyStore", "prekeys": "preKeyStore", "signed": "signedPreKeyStore",
         "senderkeys": "senderKeyStore"}


def surf(store, table, inner):
    """The object an operation on `table` is called on: the store facade, or - as GroupCipher, the prekey bookkeeping and python-axolotl's
    own builders do - the table's own store object that the facade exposes."""
    return getattr(store, INNER[table]) if inner else store


def apply_op(h, store, o, inner=False):
    op, k, v = o["op"], o["k"], o["v"]
    if op == "storeSession":
        surf(store, "sessions", inner).storeSession(RECIP[k], 1, h.value("sessions", v))
    elif op == "saveIdentity":
        surf(store, "identities", inner).saveIdentity(RECIP[k], h.value("identities", v))
    elif op == "deleteSession":
        surf(store, "sessions", inner).deleteSession(RECIP[k], 1)
    elif op == "storePreKey":
        surf(store, "prekeys", inner).storePreKey(KEYID[k], h.value("prekeys", v, k))
    elif op == "removePreKey":
        surf(store, "prekeys", inner).removePreKey(KEYID[k])
    elif op == "setAsSent":
        store.preKeyStore.setAsSent([KEYID[k]])
    elif op == "setAllAsSent":
        store.preKeyStore.setAsSent([KEYID[x] for x in sorted(KEYS)])
    elif op == "setSentEnds":
        ks = sorted(KEYS)
        store.preKeyStore.setAsSent([KEYID[ks[0]], KEYID[ks[-1]]])
    elif op == "storeSignedPreKey":
        surf(store, "signed", inner).storeSignedPreKey(KEYID[k], h.value("signed", v, k))
    elif op == "removeSignedPreKey":
        surf(store, "signed", inner).removeSignedPreKey(KEYID[k])
    elif op == "storeSenderKey":
        surf(store, "senderkeys", inner).storeSenderKey(sender_name(k), h.value("senderkeys", v))
    else:
        raise core.MachineryError("unknown op %s" % op)


KEYS = ["k1", "k2"]


def project(h, path, live=None, inner=False):
    """Read everything back through a FRESH store on `path` - or, with `live`, through the store object the history was applied to, by
    its facade or (inner) by the per-table stores it exposes; map concrete records to model values."""
    st = live if live is not None else h.open(path)
    S = lambda t: surf(st, t, inner)
    out = {t: {} for t in ("identities", "sessions", "prekeys", "signed", "senderkeys")}
    problems = []

    def ident(table, blob, key=None):
        for (t, v, kk), ser in h.blobs.items():
            if t == table and (kk is None or kk == key):
                if ser == bytes(blob):
                    return v
        return "UNKNOWN"
    unsent = set(r.getId() for r in st.preKeyStore.loadUnsentPendingPreKeys())
    for k in KEYS:
        # sessions
        if S("sessions").containsSession(RECIP[k], 1):
            out["sessions"][k] = [ident("sessions", S("sessions").loadSession(RECIP[k], 1).serialize())]
        else:
            out["sessions"][k] = []
        # identities (raw read of the pinned key + the API's verdicts)
        row = st.identityKeyStore.dbConn.cursor().execute(
            "SELECT public_key FROM identities WHERE recipient_id=?", (RECIP[k],)).fetchone()
        if row is None:
            out["identities"][k] = []
        else:
            v = ident("identities", row[0])
            out["identities"][k] = [v]
            for (t, vv, _), val in h.values.items():
                if t == "identities":
                    if S("identities").isTrustedIdentity(RECIP[k], val) != (vv == v):
                        problems.append("isTrustedIdentity(%s, %s) wrong while %s is pinned" % (k, vv, v))
        if S("prekeys").containsPreKey(KEYID[k]):
            out["prekeys"][k] = [ident("prekeys", S("prekeys").loadPreKey(KEYID[k]).serialize(), k), KEYID[k] not in unsent]
        else:
            out["prekeys"][k] = []
        if S("signed").containsSignedPreKey(KEYID[k]):
            out["signed"][k] = [ident("signed", S("signed").loadSignedPreKey(KEYID[k]).serialize(), k)]
        else:
            out["signed"][k] = []
        r = S("senderkeys").loadSenderKey(sender_name(k))
        out["senderkeys"][k] = [] if r.isEmpty() else [ident("senderkeys", r.serialize())]
    ikp = S("identities").getIdentityKeyPair()
    local = (bytes(ikp.getPublicKey().serialize()), bytes(ikp.getPrivateKey().serialize()), S("identities").getLocalRegistrationId())
    if live is None:
        st.identityKeyStore.dbConn.close()
    return out, local, problems


def replay_path(run, h, g, path, full_crash):
    init, steps = g.path_steps(path)
    db = h.fresh_path()
    store = h.open(db)
    _, local0, _ = project(h, db)
    trail = []
    i = 0
    ok = True
    while i < len(steps) and ok:
        act, to = steps[i]
        if act["name"] == "Reopen":
            store.identityKeyStore.dbConn.close()
            store = h.open(db)
            trail.append("Reopen")
            i += 1
            continue
        if act["name"] != "Begin":
            i += 1
            continue
        o = act["o"]
        trail.append(o)
        # specification's view: committed database before, after each statement, and after the operation
        j = i + 1
        disks = [g.states[g.edges[path[i]][0]]["disk"]]
        while j < len(steps) and steps[j][0]["name"] == "Step":
            disks.append(steps[j][1]["disk"])
            j += 1
        spec_prog = to["progs"]
        complete = len(disks) - 1 == len(spec_prog)
        before, after = disks[0], (disks[-1] if complete else None)
        # dry run on a copy to learn the implementation's own statement boundaries
        probe = h.snapshot(db)
        ps = h.open(probe)
        h.ctl["count"] = 0
        h.ctl["kinds"] = []
        try:
            apply_op(h, ps, o)
            err = None
        except Exception as e:
            err = e
        kinds = list(h.ctl["kinds"])
        ps.identityKeyStore.dbConn.close()
        if err is not None:
            run.violation("api:exception:%s:%s" % (o["op"], type(err).__name__), "%s raised %r after %s" % (o, err, trail),
                          {"trail": trail})
            return False
        aligned = [k if k == "COMMIT" else "STMT" for k in kinds] == ["COMMIT" if s == "commit" else "STMT" for s in spec_prog]
        if not aligned:
            run.notes["drift_statement_sequences"] = run.notes.get("drift_statement_sequences", 0) + 1
        # crash at every statement / commit boundary of the implementation
        points = range(len(kinds) + 1) if full_crash else sorted(set([0, len(kinds)] + [x for x in range(len(kinds)) if kinds[x] == "COMMIT"] + [x + 1 for x in range(len(kinds)) if kinds[x] == "COMMIT"]))
        if complete:
            for cp in points:
                if cp >= len(kinds):
                    continue
                victim = h.snapshot(db)
                vs = h.open(victim)
                snap = {}
                h.ctl["count"] = 0
                h.ctl["kinds"] = []
                h.ctl["snap"] = lambda: snap.setdefault("p", h.snapshot(victim))
                h.ctl["armed"] = cp
                try:
                    apply_op(h, vs, o)
                except _Crash:
                    pass
                h.ctl["armed"] = None
                try:
                    vs.identityKeyStore.dbConn.close()
                except Exception:
                    pass
                if "p" not in snap:
                    continue
                got, local, problems = project(h, snap["p"])
                run.case(("crash", json.dumps(trail, sort_keys=True), cp))
                bad = []
                for t in got:
                    for k in got[t]:
                        if got[t][k] != before[t][k] and got[t][k] != after[t][k]:
                            bad.append("%s[%s] = %s, neither previous %s nor new %s" % (t, k, got[t][k], before[t][k], after[t][k]))
                if local != local0:
                    bad.append("local identity / registration id changed")
                bad += problems
                if bad:
                    lost = any("= []" in b for b in bad)
                    run.violation("crash:%s:%s" % (o["op"], "record-lost" if lost else "mixed-state"),
                                  "crash after %d of %s statements %s of %s (history %s): %s" % (cp, len(kinds), kinds, o["op"], trail, "; ".join(bad)),
                                  {"trail": trail, "crash_after_statements": cp, "statements": kinds})
                    ok = False
                elif aligned and got != disks[cp]:
                    # both outcomes satisfy the property (previous or new value); the commit granularity differs from the
                    # specification's: model drift, not an alarm
                    run.notes["drift_commit_granularity"] = run.notes.get("drift_commit_granularity", 0) + 1
                shutil.rmtree(os.path.dirname(snap["p"]), ignore_errors=True)
                shutil.rmtree(os.path.dirname(victim), ignore_errors=True)
        shutil.rmtree(os.path.dirname(probe), ignore_errors=True)
        # now really perform the operation
        h.ctl["count"] = 0
        h.ctl["kinds"] = []
        # the surface the live operation goes through alternates pseudo-randomly: yowsup itself mixes them (GroupCipher is handed the
        # sender key table's store, GroupSessionBuilder and SessionCipher the facade)
        inner = (zlib.crc32(json.dumps(trail, sort_keys=True).encode()) >> 3) % 3 == 0
        apply_op(h, store, o, inner)
        if complete:
            for via in (False, True):                 # read-your-writes in the live process, through either surface
                got, local, problems = project(h, db, live=store, inner=via)
                if got != after or local != local0 or problems:
                    run.violation("live-read:%s" % o["op"], "after %s (%s; history %s) the store object itself reads %s through its %s, expected %s %s" % (
                        o, "table store" if inner else "facade", trail, got, "table stores" if via else "facade", after, problems), {"trail": trail})
                    ok = False
                    break
            got, local, problems = project(h, db)     # durability: fresh store sees the committed result
            if got != after or local != local0 or problems:
                run.violation("durable:%s" % o["op"], "after %s (history %s) a fresh store reads %s, expected %s %s" % (o, trail, got, after, problems),
                              {"trail": trail})
                ok = False
        i = j
    try:
        store.identityKeyStore.dbConn.close()
    except Exception:
        pass
    shutil.rmtree(os.path.dirname(db), ignore_errors=True)
    return ok


def second_device(r, h):
    """The store API takes a device id.  Storing a session for another device of a contact either keeps both sessions or is refused:
    it never silently destroys the session that exists (checked after reopening)."""
    db = h.fresh_path()
    st = h.open(db)
    r.case(("second-device",))
    rec1, rec2 = h.value("sessions", "v1"), h.value("sessions", "v2")
    st.storeSession(RECIP["k1"], 1, rec1)
    refused = None
    try:
        st.storeSession(RECIP["k1"], 2, rec2)
    except Exception as e:
        refused = e
    st.identityKeyStore.dbConn.close()
    st2 = h.open(db)
    try:
        ok1 = st2.containsSession(RECIP["k1"], 1) and bytes(st2.loadSession(RECIP["k1"], 1).serialize()) == bytes(rec1.serialize())
        ok2 = refused is not None or (st2.containsSession(RECIP["k1"], 2) and bytes(st2.loadSession(RECIP["k1"], 2).serialize()) == bytes(rec2.serialize()))
    finally:
        st2.identityKeyStore.dbConn.close()
    if not ok1:
        r.violation("durable:storeSession:second-device", "storing a session for device 2 of a contact (%s) destroyed the contact's device-1 session" % (
            "refused: %r" % refused if refused else "accepted"), {})
    elif not ok2:
        r.violation("durable:storeSession:second-device-lost", "a session stored (without error) for device 2 of a contact is not read back", {})


def own_identity_first_open(r, work):
    """Own identity and registration id: whatever an opener of the store handed out is what every later open reads back - also when a
    second opener (another process / thread of the same account) initialises the brand-new store while the first one is between its
    'nothing stored yet' read and its write.  The late writer may fail, it must not silently replace what the other one already uses."""
    from yowsup.axolotl.store.sqlite.liteaxolotlstore import LiteAxolotlStore
    import yowsup.axolotl.store.sqlite.liteidentitykeystore as lik
    for nested in (False, True):
        db = os.path.join(work, "first_open_%d.db" % nested)
        r.case(("own-identity", nested))
        handed = []
        orig = lik.KeyHelper.generateIdentityKeyPair
        state = {"depth": 0}

        def gen(orig=orig):
            state["depth"] += 1
            try:
                if nested and state["depth"] == 1:
                    # the other opener runs to completion right here
                    st2 = LiteAxolotlStore(db)
                    handed.append(("second", bytes(st2.getIdentityKeyPair().getPublicKey().serialize()), st2.getLocalRegistrationId()))
                return orig()
            finally:
                state["depth"] -= 1
        lik.KeyHelper.generateIdentityKeyPair = staticmethod(gen)
        try:
            try:
                st1 = LiteAxolotlStore(db)
                handed.append(("first", bytes(st1.getIdentityKeyPair().getPublicKey().serialize()), st1.getLocalRegistrationId()))
            except Exception as e:
                handed.append(("first-failed", type(e).__name__, None))
        finally:
            lik.KeyHelper.generateIdentityKeyPair = orig
        try:
            st3 = LiteAxolotlStore(db)
            now = (bytes(st3.getIdentityKeyPair().getPublicKey().serialize()), st3.getLocalRegistrationId())
        except Exception as e:
            r.violation("own-identity:reopen-fails", "reopening the store after its first initialisation raised %r" % (e,), {"nested": nested})
            continue
        for who, pub, reg in handed:
            if who == "first-failed":
                continue
            if (pub, reg) != now:
                r.violation("own-identity:replaced", "the %s opener of a brand-new store was handed identity %s.. / registration id %s, a later open reads %s.. / %s%s" % (
                    who, pub.hex()[:12], reg, now[0].hex()[:12], now[1], " (two openers initialising concurrently)" if nested else ""), {"nested": nested, "handed": [h[0] for h in handed]})


def profiles_of_one_number(r):
    """factory.py: the store a profile's manager uses is that profile's own axolotl.db.  Two profiles configured for one number (one left
    from an earlier installation next to a new one; an application's "work" and "test" profile) each keep their own identity, and what
    is stored through a profile's manager is what a later process opening that profile reads."""
    from harness import e2ekit
    from yowsup.axolotl.store.sqlite.liteaxolotlstore import LiteAxolotlStore
    from yowsup.common.tools import StorageTools
    from yowsup.axolotl.factory import AxolotlManagerFactory
    roots = e2ekit.Roots()
    try:
        for n, names in enumerate((("4915770009901", "second-install"), ("old-install", "new-install", "4915770009902"))):
            phone = "491577000990%d" % (n + 1)
            r.case(("profiles-of-one-number", names))
            r.cov["traces_validated_against_impl"] += 1
            seen = {}
            for name in names:
                prof = e2ekit.make_profile(phone, name)
                mgr = prof.axolotl_manager
                ident = bytes(mgr.identity.getPublicKey().serialize())
                reg = mgr.registration_id
                mgr.generate_signed_prekey()
                seen[name] = (ident, reg)
            for name in names:
                dbpath = StorageTools.constructPath(name, AxolotlManagerFactory.DB)
                if not os.path.exists(dbpath):
                    r.violation("factory:profile-without-store", "profile %r for number %s was used, yet has no %s afterwards (profiles used: %s)" % (
                        name, phone, AxolotlManagerFactory.DB, list(names)), {"names": list(names)})
                    continue
                st = LiteAxolotlStore(dbpath)
                now = (bytes(st.getIdentityKeyPair().getPublicKey().serialize()), st.getLocalRegistrationId())
                st.identityKeyStore.dbConn.close()
                if now != seen[name]:
                    r.violation("factory:other-profiles-store", "profile %r for number %s worked with identity %s.., a later open of that profile's store reads %s.. (profiles used: %s)" % (
                        name, phone, seen[name][0].hex()[:12], now[0].hex()[:12], list(names)), {"names": list(names)})
    finally:
        roots.close()


def after_refused_bundle(r):
    """Durability does not depend on what happened earlier in the process: after the manager refused a contact's key bundle (changed
    identity, automatic trust off - an error the layers expect and handle), whatever is stored afterwards is read back by a fresh store
    opened on a copy of the database files taken at that moment (= the process killed there)."""
    from harness import e2ekit
    from yowsup.common.tools import StorageTools
    from yowsup.axolotl.store.sqlite.liteaxolotlstore import LiteAxolotlStore
    from yowsup.axolotl import exceptions
    from axolotl.state.prekeybundle import PreKeyBundle
    roots = e2ekit.Roots()
    try:
        r.case(("after-refused-bundle",))
        r.cov["traces_validated_against_impl"] += 1
        me = e2ekit.make_profile("4915770008801").axolotl_manager
        peers = [e2ekit.make_profile("4915770008802", "peer-install-%d" % i).axolotl_manager for i in (1, 2)]
        other = e2ekit.make_profile("4915770008803").axolotl_manager

        def bundle(m):
            m.level_prekeys(force=True)
            pk = m.load_unsent_prekeys()[0]
            spk = m.load_latest_signed_prekey(generate=True)
            return PreKeyBundle(m.registration_id, 1, pk.getId(), pk.getKeyPair().getPublicKey(), spk.getId(), spk.getKeyPair().getPublicKey(),
                                spk.getSignature(), m.identity.getPublicKey())
        me.create_session("4915770008802", bundle(peers[0]))
        refused = False
        try:
            me.create_session("4915770008802", bundle(peers[1]))     # the contact re-installed: another identity
        except exceptions.UntrustedIdentityException:
            refused = True
        me.create_session("4915770008803", bundle(other))
        me.encrypt("4915770008803", b"first message")
        db = StorageTools.constructPath("4915770008801", "axolotl.db")
        snap = tempfile.mkdtemp(prefix="verif_c13_snap_", dir=os.path.dirname(os.path.dirname(db)))
        try:
            for f in os.listdir(os.path.dirname(db)):
                if f.startswith("axolotl.db"):
                    shutil.copy(os.path.join(os.path.dirname(db), f), os.path.join(snap, f))
            st = LiteAxolotlStore(os.path.join(snap, "axolotl.db"))
            have = st.containsSession("4915770008803", 1)
            have_first = st.containsSession("4915770008802", 1)
            st.identityKeyStore.dbConn.close()
        finally:
            shutil.rmtree(snap, ignore_errors=True)
        if not refused:
            r.notes["after_refused_bundle_not_refused"] = True
        if not have or not have_first:
            r.violation("durable:after-refused-bundle", "after a refused key bundle (changed identity), a session created and used afterwards is %s and the earlier one %s in the database files as they are on disk at that moment" % (
                "present" if have else "MISSING", "present" if have_first else "MISSING"), {})
    finally:
        roots.close()


def journal_and_locks(r):
    """(a) Crash atomicity at EVERY instant - also in the middle of a commit that has written some pages - rests on SQLite's rollback
    journal being on disk: the store's connection must not have been switched to a journal that dies with the process (journal_mode
    MEMORY / OFF).  (b) A database that is merely BUSY (another connection of the account holds it) is not a damaged one: opening the
    profile's store meanwhile may fail, it must not replace the database - afterwards the identity on file is the one from before.
    (c) A write whose commit fails because a reader holds the database is REPORTED to the caller: a store call that returns normally has
    stored (a fresh connection sees the record)."""
    import sqlite3, threading
    from harness import e2ekit
    from yowsup.common.tools import StorageTools
    from yowsup.axolotl.factory import AxolotlManagerFactory
    from yowsup.axolotl.store.sqlite.liteaxolotlstore import LiteAxolotlStore
    from axolotl.util.keyhelper import KeyHelper
    roots = e2ekit.Roots()
    try:
        phone = "4915770006601"
        prof = e2ekit.make_profile(phone)
        m = prof.axolotl_manager
        ident0 = bytes(m.identity.getPublicKey().serialize())
        conn = m._store.identityKeyStore.dbConn
        r.case(("journal-mode",))
        mode = getattr(conn, "_c", conn).execute("PRAGMA journal_mode").fetchone()[0]
        mode = (mode.decode() if isinstance(mode, bytes) else str(mode)).lower()
        if mode not in ("delete", "truncate", "persist", "wal"):
            r.violation("crash:journal-not-on-disk", "the store's connection runs with journal_mode=%s: a process death in the middle of a commit leaves a database that cannot be rolled back" % mode, {"mode": mode})
        conn.close()
        db = StorageTools.constructPath(phone, "axolotl.db")
        # (b) the database is busy while the profile is opened
        r.case(("busy-database-open",))
        r.cov["traces_validated_against_impl"] += 1
        holder = sqlite3.connect(db, timeout=0.1)
        holder.execute("BEGIN EXCLUSIVE")
        opened = None
        try:
            try:
                opened = AxolotlManagerFactory().get_manager(phone, phone)
                outcome = "opened"
            except Exception as e:
                outcome = "refused (%s)" % type(e).__name__
        finally:
            holder.rollback()
            holder.close()
        try:
            if opened is not None:
                opened._store.identityKeyStore.dbConn.close()
        except Exception:
            pass
        files = sorted(os.listdir(os.path.dirname(db)))
        st = LiteAxolotlStore(db)
        now = bytes(st.getIdentityKeyPair().getPublicKey().serialize())
        st.identityKeyStore.dbConn.close()
        if now != ident0:
            r.violation("durable:busy-database-replaced", "the profile's store was opened while another connection held the database (%s): afterwards the identity on file is a different one (files: %s)" % (
                outcome, files), {"outcome": outcome})
        # (c) a commit that fails because a reader holds the database
        r.case(("busy-database-commit",))
        r.cov["traces_validated_against_impl"] += 1
        st = LiteAxolotlStore(db)
        reader = sqlite3.connect(db, timeout=0.1)
        reader.execute("BEGIN")
        reader.execute("SELECT count(*) FROM prekeys").fetchall()      # holds a shared lock until the transaction ends
        key = KeyHelper.generatePreKeys(7001, 1)[0]
        try:
            st.storePreKey(key.getId(), key)
            returned = True
        except Exception:
            returned = False
        reader.rollback()
        reader.close()
        try:
            st.identityKeyStore.dbConn.close()      # the process ends here: what was not committed is gone
        except Exception:
            pass
        fresh = sqlite3.connect(db, timeout=5)
        try:
            there = fresh.execute("SELECT count(*) FROM prekeys WHERE prekey_id = 7001").fetchone()[0] == 1
        finally:
            fresh.close()
        if returned and not there:
            r.violation("durable:failed-commit-unreported", "storePreKey returned normally while a reader held the database; a fresh connection does not see the key (the commit failed and nobody was told)", {})
    finally:
        roots.close()


def several_stores_and_session_rewrite(r):
    """(a) Two accounts' key stores open in one process (both parties of a conversation, a multi-account application): each has its OWN
    identity and registration id - what the API hands out is what that store's database holds.  (b) deleteAllSessions followed by storing
    the very record that was there before: the record is there again (the store does not skip a write because it remembers the bytes)."""
    import sqlite3
    from harness import e2ekit
    from yowsup.common.tools import StorageTools
    from yowsup.axolotl.store.sqlite.liteaxolotlstore import LiteAxolotlStore
    roots = e2ekit.Roots()
    try:
        r.case(("several-stores",))
        r.cov["traces_validated_against_impl"] += 1
        seen = {}
        for phone in ("4915770005501", "4915770005502", "4915770005503"):
            m = e2ekit.make_profile(phone).axolotl_manager
            api = (bytes(m.identity.getPublicKey().serialize()), m.registration_id)
            c = sqlite3.connect(StorageTools.constructPath(phone, "axolotl.db"))
            try:
                row = c.execute("SELECT registration_id, public_key FROM identities WHERE recipient_id = -1").fetchone()
            finally:
                c.close()
            ondisk = (bytes(row[1]), row[0]) if row else None
            if ondisk is None or ondisk != api or api in seen.values():
                r.violation("durable:stores-share-identity", "store of account %s opened as #%d in this process: the API hands out identity %s.. / registration id %s, its database holds %s; other stores' identities %s" % (
                    phone, len(seen) + 1, api[0].hex()[:10], api[1], ("%s.. / %s" % (ondisk[0].hex()[:10], ondisk[1])) if ondisk else "nothing",
                    [v[0].hex()[:10] for v in seen.values()]), {"phone": phone})
                break
            seen[phone] = api
        # (b)
        r.case(("session-rewrite-after-delete-all",))
        h = Harness(tempfile.mkdtemp(prefix="verif_c13_rw_", dir=roots.root))
        db = h.fresh_path()
        st = h.open(db)
        rec = h.value("sessions", "v2")
        st.storeSession(RECIP["k1"], 1, rec)
        st.loadSession(RECIP["k1"], 1)
        st.deleteAllSessions(RECIP["k1"])
        st.storeSession(RECIP["k1"], 1, h.value("sessions", "v2"))
        st.identityKeyStore.dbConn.close()
        st2 = h.open(db)
        there = st2.containsSession(RECIP["k1"], 1)
        st2.identityKeyStore.dbConn.close()
        if not there:
            r.violation("durable:storeSession:after-delete-all", "storeSession(X), deleteAllSessions, storeSession(X again): after reopening, the session is missing", {})
    finally:
        roots.close()


def run():
    r = core.Run("C13", "model_checking")
    thorough = r.tier == "thorough"
    rng = random.Random(core.seed())
    r.cov["rule"] = ("case = one (operation history from KeyStore.tla, crash boundary) executed on the real LiteAxolotlStore: database + journal "
                     "copied at the boundary, reopened by a fresh store and compared with the specification's committed state; plus one "
                     "durability read-back per operation; distinct by (history, crash index)")
    res = core.must_clean(core.tlc("KeyStore", "MC_KeyStore_thorough.cfg" if thorough else "MC_KeyStore.cfg", r.scratch, workers=16, timeout=3000), "MC_KeyStore")
    r.add_tlc(res)
    # self-test: the as-read statement order (delete, COMMIT, insert, COMMIT) must violate AllOrNothing in the model
    bad = core.tlc("KeyStore", "MC_KeyStore_asread.cfg", r.scratch, workers=8)
    core.must_violate(bad, "AllOrNothing", "MC_KeyStore_asread")
    r.notes["selftest_asread_switch_violates"] = "AllOrNothing"
    eg = core.tlc("KeyStore", "Edges_KeyStore_thorough.cfg" if thorough else "Edges_KeyStore.cfg", r.scratch, workers=1, timeout=3000)
    edges = [e for e in eg.printed() if isinstance(e, dict) and "act" in e]
    g = core.Graph([e for e in edges if e["act"]["name"] != "Crash"])
    if len(g.edges) < 2000:
        raise core.MachineryError("KeyStore edge dump too small (%d)" % len(g.edges))
    r.notes["spec_transitions"] = len(edges)
    r.notes["spec_crash_transitions"] = len([e for e in edges if e["act"]["name"] == "Crash"])
    global KEYS
    base = "/dev/shm" if os.path.isdir("/dev/shm") and os.access("/dev/shm", os.W_OK) else r.scratch.path
    work = tempfile.mkdtemp(prefix="verif_c13_", dir=base)
    try:
        h = Harness(work)
        paths = g.transition_cover(rng)
        covered = set()
        for pi, p in enumerate(paths):
            covered.update(p)
            replay_path(r, h, g, p, full_crash=True)
            r.cov["traces_validated_against_impl"] += 1
            if pi < 2:
                r.sample({"history": [g.edges[i][1] for i in p]})
        r.notes["spec_transitions_replayed"] = len(covered)
        # the cover reaches every transition through ONE past; random walks reach them through others (a store that remembers more than the
        # specification's state - caches, row ids drifting apart from key ids - shows only then)
        for p in g.random_walks(1500 if thorough else 120, 40 if thorough else 16, rng):
            if True:
                replay_path(r, h, g, p, full_crash=True)
                r.cov["traces_validated_against_impl"] += 1
        # prekey-focused configuration: 3 key ids, subsets confirmed (non-contiguous ids), longer histories
        rp = core.must_clean(core.tlc("KeyStore", "MC_KeyStore_pk.cfg", r.scratch, workers=16, timeout=3000), "MC_KeyStore_pk")
        r.add_tlc(rp)
        ep = core.tlc("KeyStore", "Edges_KeyStore_pk.cfg", r.scratch, workers=1, timeout=3000)
        gp = core.Graph([e for e in ep.printed() if isinstance(e, dict) and "act" in e and e["act"]["name"] != "Crash"])
        if len(gp.edges) < 1000:
            raise core.MachineryError("KeyStore pk edge dump too small (%d)" % len(gp.edges))
        KEYS = ["k1", "k2", "k3"]
        for p in gp.transition_cover(rng):
            replay_path(r, h, gp, p, full_crash=True)
            r.cov["traces_validated_against_impl"] += 1
        r.notes["spec_transitions_pk"] = len(gp.edges)
        # one contact, sessions and identities only, histories of 4 operations: an update of one table must leave the contact's records in
        # the other table alone (replacing a pinned identity while a session exists, and the like)
        ex = core.tlc("KeyStore", "Edges_KeyStore_cross.cfg", r.scratch, workers=1, timeout=3000)
        gx = core.Graph([e for e in ex.printed() if isinstance(e, dict) and "act" in e and e["act"]["name"] != "Crash"])
        if len(gx.edges) < 300:
            raise core.MachineryError("KeyStore cross edge dump too small (%d)" % len(gx.edges))
        KEYS = ["k1"]
        for p in gx.transition_cover(rng):
            replay_path(r, h, gx, p, full_crash=True)
            r.cov["traces_validated_against_impl"] += 1
        r.notes["spec_transitions_cross"] = len(gx.edges)
        KEYS = ["k1", "k2"]
        second_device(r, h)
        own_identity_first_open(r, work)
        profiles_of_one_number(r)
        after_refused_bundle(r)
        journal_and_locks(r)
        several_stores_and_session_rewrite(r)
    finally:
        shutil.rmtree(work, ignore_errors=True)
    r.assumptions += core.ENV_ASSUMPTIONS[:1] + [
        "a process crash is modelled as: database file and rollback journal copied byte for byte at a statement boundary, then opened by a new connection (SQLite's own recovery runs)",
        "PRAGMA synchronous=OFF in the harness connection (process crash, not power loss)", "device id is always 1 (sessions.recipient_id is UNIQUE)"]
    return r.finish()


def replay(path):
    print(open(path).read()[:3000])
    return run()
