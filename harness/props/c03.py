"""C03 - end-to-end messaging.  Spec: E2E.tla (server = FIFO queues, client steps judged by local rules; TLC proves rules => exactly-once /
only-recipients / receipts / completeness on the bounded design model).  Binding A: environment schedules (who submits what, which queue the
server advances, which delivery is duplicated / corrupted) come from TLC -simulate behaviours of that model (E2E_Sim) plus systematic families,
and are performed on 2-4 real stacks against the server double (harness/e2e.py).  Binding B: every step of every execution is recorded and
validated by TLC against E2E_Trace.tla, which names the rule a client step breaks."""
import json, os, random
from harness import core, e2e, e2ekit
from harness.props import c10

REORDER = 2
KINDS = ("text", "xtext", "url", "image", "location", "contact")
CONTENT = {"xtext": "extended_text", "url": "extended_text", "image": "image", "location": "location", "contact": "contact"}
MARKED = {"extended_text": "text", "image": "caption", "location": "name", "contact": "display_name"}


class Payloads(object):
    """Message entities with generated field values (C10's generator over the frozen e2e.proto schema)."""
    def __init__(self, rng, scratch):
        res0 = core.tlc("Payload_Eval", "Payload_Eval.cfg", scratch, workers=1, env={"DUMP_TABLE": "1"})
        tabs = [p for p in res0.printed() if isinstance(p, dict) and "table" in p]
        if not tabs:
            raise core.MachineryError("schema table not printed:\n" + res0.out[-1500:])
        self.table = {t: {e["attr"]: e for e in es} for t, es in tabs[0]["table"].items()}
        self.rng = rng
        self.gen = c10.Gen(rng, self.table)

    def make(self, kind, mid, recipient, mode=None):
        from yowsup.layers.protocol_messages.protocolentities import TextMessageProtocolEntity, ExtendedTextMessageProtocolEntity
        from yowsup.layers.protocol_media.protocolentities import ImageDownloadableMediaMessageProtocolEntity, LocationMediaMessageProtocolEntity, \
            ContactMediaMessageProtocolEntity, ExtendedTextMediaMessageProtocolEntity
        from yowsup.layers.protocol_messages.protocolentities.attributes.attributes_message_meta import MessageMetaAttributes
        marker = u"secret-%s-%08x" % (mid or "lib", self.rng.getrandbits(32))
        # mid None: the id is left to the library, as applications do
        meta = MessageMetaAttributes(id=mid, recipient=recipient)
        gen, table = self.gen, self.table
        if kind == "text":
            body = marker + self.rng.choice([u"", u" h\xe9llo ✓ \U0001f600", u" " + u"x" * 300, u"\nline2\t "])
            ent = TextMessageProtocolEntity(body, meta)
            want = {"conversation": body}
            secrets = [marker.encode("utf-8")]
        else:
            content = CONTENT[kind]
            mode = mode or self.rng.choice(["required", "all", "rand"])
            o = gen.message(self.rng.choice([0, 0, 1]), mode, content)
            f = o["fields"][content]["fields"]
            attr = MARKED[content]
            if attr not in f:
                f[attr] = gen.val("str", attr)
            gen.values[f[attr]] = marker + u" " + gen.values[f[attr]]
            sub = c10.build(o["fields"][content], gen.values)
            cls = {"xtext": ExtendedTextMessageProtocolEntity, "url": ExtendedTextMediaMessageProtocolEntity, "image": ImageDownloadableMediaMessageProtocolEntity,
                   "location": LocationMediaMessageProtocolEntity, "contact": ContactMediaMessageProtocolEntity}[kind]
            ent = cls(sub, meta)
            want = c10.concrete(o, gen.values)
            secrets = [marker.encode("utf-8")]
            for v in _leaves(want):
                if isinstance(v, str) and len(v) >= 12:
                    secrets.append(v.encode("utf-8"))
                elif isinstance(v, bytes) and len(v) >= 16:
                    secrets.append(v)
        payload = ent.toProtocolTreeNode().getChild("proto").getData()
        if len(payload) >= 8:
            secrets.append(bytes(payload))

        def check(entity, want=want, table=table):
            got = c10.project(entity.message_attributes, "Message", table)
            # a key distribution riding along with a re-sent group message is protocol data, not message content
            return [d for d in c10.diff_paths(want, got) if d != ".sender_key_distribution_message added"]
        return ent, check, secrets


def _leaves(d):
    for v in d.values():
        if isinstance(v, dict):
            for x in _leaves(v):
                yield x
        elif isinstance(v, list):
            for x in v:
                yield x
        else:
            yield v


# ------------------------------------------------------------------ scripts
def run_script(script, payloads, roots, rng):
    """script = {"n": accounts, "ops": [...]}.  ops:
         ["send", sender, dest, kind]            the application submits a message
         ["process", c] / ["deliver", c, fault]  one server step (skipped when the real world does not enable it)
         ["settle", policy]                      server steps until quiescent; policy: "fifo" | "lifo" | "rr" | ["rand", seed]
         ["fault", msg number, recipient, "dup" | "corrupt"]   the first delivery of that message to that recipient is faulted
         ["until-retry", c]                      server steps until c has written a retry receipt
         ["restart", c]                          at a quiescent point
         ["join", c] / ["leave", c]              the group's membership changes, at a quiescent point
       Returns (world, outcome) - outcome: None | ("exception", step, exc) | ("diverged", n)."""
    try:
        w = e2e.World(roots, script["n"])
    except core.MachineryError:
        raise
    except Exception as ex:
        import traceback
        # an account cannot even log in and publish its keys
        return _Stillborn(), ("exception", ["boot"], "%s: %s @ %s" % (type(ex).__name__, ex, traceback.format_exc().splitlines()[-3].strip()))
    plan = {}
    used = set()
    nmsg = 0
    outcome = None

    def fault_for(name, hd):
        if hd and hd["k"] == "msg" and (hd["i"], name) in plan and (hd["i"], name) not in used:
            used.add((hd["i"], name))
            return plan[(hd["i"], name)]
        return None

    def chooser(policy):
        if policy == "fifo":
            return lambda en: en[0]
        if policy == "lifo":
            return lambda en: en[-1]
        if policy == "rr":
            st = {"k": 0}

            def rr(en):
                st["k"] += 1
                return en[st["k"] % len(en)]
            return rr
        if policy == "deliver-first":
            return lambda en: ([e for e in en if e[0] == "deliver"] or en)[0]
        if policy == "process-first":
            return lambda en: ([e for e in en if e[0] == "process"] or en)[-1]
        r2 = random.Random(policy[1])       # ["rand", seed] and ["reorder", seed]
        return lambda en: r2.choice(en)
    step = None
    try:
        for op in script["ops"]:
            step = op
            k = op[0]
            if k == "send" and op[2] == "G" and op[1] not in w.members():
                continue        # only members write to the group
            if k == "send":
                nmsg += 1
                dest = op[2]
                to = w.gjid if dest == "G" else w.acc(dest).jid
                if script.get("library_ids"):
                    ent, check, secrets = payloads.make(op[3], None, to)
                    mid = ent.getId()
                    if mid in w.mids:
                        raise DuplicateId("message %d (%s) got the id %r, which the library already gave to message %d" % (nmsg, op[3], mid, w.mids[mid]))
                else:
                    mid = "m%d" % nmsg
                    ent, check, secrets = payloads.make(op[3], mid, to)
                w.do_submit(op[1], mid, dest, ent, check, secrets)
            elif k == "fault":
                plan[(op[1], op[2])] = op[3]
            elif k == "process":
                if w.server.inq[op[1]]:
                    w.do_process(op[1])
            elif k == "deliver":
                j = op[3] if len(op) > 3 else 1
                if len(w.server.outq[op[1]]) >= j and j > 1:
                    x = w.head(op[1], j)
                    if any(x["k"] != "ctl" and y["k"] != "ctl" and x["p"] == y["p"] for y in (w.head(op[1], m) for m in range(1, j))):
                        j = 1
                if len(w.server.outq[op[1]]) >= j:
                    hd = w.head(op[1], j)
                    f = op[2] or None
                    if f and not (hd["k"] == "msg" and (hd["i"], op[1]) not in used):
                        f = None
                    if f:
                        used.add((hd["i"], op[1]))
                    else:
                        f = fault_for(op[1], hd)
                    w.do_deliver(op[1], f, j)
            elif k == "settle":
                pj = None
                if isinstance(op[1], list) and op[1][0] == "reorder":
                    r3 = random.Random(op[1][1] + 1)

                    def pj(name, n, r3=r3):
                        # one of the first REORDER stanzas, but never overtaking an earlier stanza of the same origin
                        ok = []
                        for j in range(1, min(n, REORDER) + 1):
                            x = w.head(name, j)
                            if not any(x["k"] != "ctl" and y["k"] != "ctl" and x["p"] == y["p"] for y in (w.head(name, m) for m in range(1, j))):
                                ok.append(j)
                        return r3.choice(ok)
                w.settle(chooser(op[1]), fault_for=fault_for, pick_j=pj)
            elif k == "until-retry":
                # server steps (oldest first) until account op[1] has written a retry receipt; what is queued then stays queued
                for _ in range(200):
                    if any(x["k"] == "rcpt" and x["f"] == 1 for rec in w.trace if rec["t"] == "Deliver" and rec["c"] == op[1] for x in rec["out"]["sent"]):
                        break
                    en = w.enabled()
                    if not en:
                        break
                    kind, name = en[0]
                    if kind == "process":
                        w.do_process(name)
                    else:
                        w.do_deliver(name, fault_for(name, w.head(name, 1)), 1)
            elif k == "restart":
                if not w.enabled():
                    w.do_restart(op[1])
            elif k in ("join", "leave"):
                # only while nothing is in flight, and only a change that is one
                if not w.enabled() and ((op[1] in w.members()) == (k == "leave")):
                    (w.do_join if k == "join" else w.do_leave)(op[1])
        step = ["settle", "final"]
        w.settle(chooser(["rand", rng.getrandbits(30)]), fault_for=fault_for)
        w.do_end()
    except e2e.Diverged as d:
        outcome = ("diverged", step, None)
    except core.MachineryError:
        raise
    except Exception as ex:
        import traceback
        outcome = ("exception", step, "%s: %s @ %s" % (type(ex).__name__, ex, traceback.format_exc().splitlines()[-3].strip()))
    return w, outcome


class DuplicateId(Exception):
    pass


class _Stillborn(object):
    """Stands in for a world whose accounts could not be started."""
    trace, shown, leaks, frames = [], [], [], []

    def close(self):
        pass


def families(thorough, rng):
    """Systematic script families (the TLC-simulated schedules are added by run())."""
    out = []
    pol = ["fifo", "lifo", "rr", "deliver-first", "process-first"]

    def add(n, ops, label):
        out.append({"n": n, "ops": ops, "label": label})
    # first contact / reply / each payload kind, 1:1 and group, every policy once
    for ki, kind in enumerate(KINDS):
        add(2, [["send", "a", "b", kind], ["settle", pol[ki % 5]], ["send", "b", "a", kind], ["settle", pol[(ki + 1) % 5]], ["send", "a", "b", "text"]], "direct-%s" % kind)
        add(3, [["send", "a", "G", kind], ["settle", pol[(ki + 2) % 5]], ["send", "b", "G", kind], ["settle", pol[ki % 5]], ["send", "a", "G", "text"]], "group-%s" % kind)
    # bursts before the server answers
    for p in pol:
        add(2, [["send", "a", "b", "text"], ["send", "a", "b", "image"], ["send", "b", "a", "text"], ["settle", p]], "burst-direct")
        add(3, [["send", "a", "G", "text"], ["send", "a", "G", "location"], ["send", "b", "G", "text"], ["send", "c", "a", "text"], ["settle", p]], "burst-group")
        add(3, [["send", "a", "b", "text"], ["settle", p], ["send", "a", "G", "text"], ["send", "b", "G", "contact"], ["settle", p], ["send", "c", "G", "text"]], "group-after-direct")
    # faults
    for f in ("dup", "corrupt"):
        for p in pol[:3] if not thorough else pol:
            add(2, [["fault", 1, "b", f], ["send", "a", "b", "text"], ["settle", p], ["send", "b", "a", "text"]], "direct-first-%s" % f)
            add(2, [["send", "a", "b", "text"], ["settle", p], ["send", "b", "a", "text"], ["settle", p], ["fault", 3, "b", f], ["send", "a", "b", "image"]], "direct-later-%s" % f)
            add(3, [["fault", 1, "b", f], ["send", "a", "G", "text"], ["settle", p], ["send", "b", "G", "text"]], "group-first-%s" % f)
            add(3, [["send", "a", "G", "text"], ["settle", p], ["fault", 2, "c", f], ["send", "a", "G", "text"], ["settle", p], ["send", "c", "G", "text"]], "group-later-%s" % f)
            add(4, [["fault", 1, "d", f], ["send", "a", "G", "text"], ["settle", p], ["fault", 2, "a", f], ["send", "d", "G", "location"]], "group4-%s" % f)
    # two messages of a burst both damaged on their way to the same recipient: both retry requests are with the author before its first
    # key query is answered (server orders that deliver before they process), each is served
    for p in pol:
        add(2, [["fault", 1, "b", "corrupt"], ["fault", 2, "b", "corrupt"], ["send", "a", "b", "text"], ["send", "a", "b", "image"], ["settle", p], ["send", "b", "a", "text"]], "burst-both-corrupt")
        add(2, [["send", "a", "b", "text"], ["settle", p], ["send", "b", "a", "text"], ["settle", p], ["fault", 3, "b", "corrupt"], ["fault", 4, "b", "corrupt"], ["fault", 5, "b", "dup"],
                ["send", "a", "b", "text"], ["send", "a", "b", "location"], ["send", "a", "b", "text"], ["settle", p]], "burst-later-both-corrupt")
        add(3, [["send", "a", "G", "text"], ["settle", p], ["fault", 2, "b", "corrupt"], ["fault", 3, "b", "corrupt"], ["fault", 3, "c", "corrupt"], ["send", "a", "G", "text"], ["send", "a", "G", "contact"],
                ["settle", p]], "burst-group-both-corrupt")
    # the recipient of a damaged first-contact message writes to its author while its retry request is still on its way
    for p in pol[:3] if not thorough else pol:
        add(2, [["fault", 1, "b", "corrupt"], ["send", "a", "b", "text"], ["until-retry", "b"], ["send", "b", "a", "text"], ["settle", p], ["send", "a", "b", "image"]], "reply-during-retry")
        add(3, [["fault", 1, "b", "corrupt"], ["send", "a", "G", "text"], ["until-retry", "b"], ["send", "b", "G", "text"], ["send", "b", "a", "location"], ["settle", p], ["send", "c", "G", "text"]], "group-reply-during-retry")
    # restarts between messages
    for p in pol[:3] if not thorough else pol:
        add(2, [["send", "a", "b", "text"], ["settle", p], ["restart", "a"], ["send", "a", "b", "text"], ["settle", p], ["restart", "b"], ["send", "b", "a", "text"],
                ["settle", p], ["send", "a", "b", "contact"]], "restart-direct")
        add(3, [["send", "a", "G", "text"], ["settle", p], ["restart", "a"], ["send", "a", "G", "text"], ["settle", p], ["restart", "b"], ["send", "c", "G", "text"],
                ["settle", p], ["send", "b", "G", "text"]], "restart-group")
        add(3, [["send", "a", "G", "text"], ["settle", p], ["restart", "b"], ["fault", 2, "b", "corrupt"], ["send", "a", "G", "text"], ["settle", p], ["send", "b", "a", "text"]], "restart-then-fault")
    # membership changes: a newcomer has nobody's sender key (its retry receipt makes the author re-send with the key), a member that left
    # gets nothing any more, one that comes back still holds the keys it had
    for p in pol[:3] if not thorough else pol:
        add(3, [["leave", "c"], ["send", "a", "G", "text"], ["settle", p], ["join", "c"], ["send", "a", "G", "image"], ["settle", p], ["send", "c", "G", "text"], ["settle", p],
                ["send", "b", "G", "text"]], "join-after-first-message")
        add(3, [["send", "a", "G", "text"], ["settle", p], ["leave", "b"], ["send", "a", "G", "location"], ["send", "b", "a", "text"], ["settle", p], ["join", "b"],
                ["send", "b", "G", "text"], ["send", "a", "G", "text"]], "leave-and-return")
        add(4, [["leave", "d"], ["send", "a", "G", "text"], ["send", "b", "G", "contact"], ["settle", p], ["join", "d"], ["fault", 3, "d", "corrupt"], ["send", "a", "G", "text"],
                ["settle", p], ["fault", 4, "c", "dup"], ["send", "d", "G", "text"], ["settle", p], ["leave", "a"], ["send", "b", "G", "text"]], "group4-membership-faults")
        add(3, [["leave", "b"], ["leave", "c"], ["send", "a", "G", "text"], ["settle", p], ["join", "b"], ["join", "c"], ["send", "a", "G", "text"], ["settle", p],
                ["restart", "a"], ["send", "a", "G", "text"]], "alone-then-joined")
    return out


def from_sched(n, sched, rng):
    ops = []
    nm = 0
    for a in sched:
        if a["t"] == "Submit":
            nm += 1
            ops.append(["send", a["c"], a["d"], rng.choice(KINDS) if nm > 1 else "text"])
        elif a["t"] == "Process":
            ops.append(["process", a["c"]])
        elif a["t"] in ("Join", "Leave"):
            ops.append([a["t"].lower(), a["c"]])
        else:
            ops.append(["deliver", a["c"], a["f"], a.get("j", 1)])
    return {"n": n, "ops": ops, "label": "tlc-sim"}


def context(w, rec, script):
    """group|direct and the fault planned for the message a record is about."""
    i = 0
    if rec is not None:
        if rec["hd"]["k"] in ("msg", "rcpt"):
            i = rec["hd"]["i"]
        elif rec["out"]["shown"]:
            i = rec["out"]["shown"][0]["i"]
        elif rec["t"] == "Submit":
            i = len([x for x in w.trace[:w.trace.index(rec) + 1] if x["t"] == "Submit"])
    dests = [x["d"] for x in w.trace if x["t"] == "Submit"]
    kind = "any"
    if 1 <= i <= len(dests):
        kind = "group" if dests[i - 1] == "G" else "direct"
    faults = sorted(set(op[3] for op in script["ops"] if op[0] == "fault") | set(op[2] for op in script["ops"] if op[0] == "deliver" and op[2]))
    return "%s:%s" % (kind, "+".join(faults) or "nofault")


def validate(r, runs, thorough):
    """runs: [(script, world, outcome)].  TLC validates the recorded traces, grouped by number of accounts."""
    for n in (2, 3, 4):
        grp = [(s, w, o) for (s, w, o) in runs if s["n"] == n and w.trace]
        if not grp:
            continue
        tf = os.path.join(r.scratch.path, "e2e_traces_%d.json" % n)
        json.dump([{"ev": w.trace} for (_, w, _) in grp], open(tf, "w"))
        res = core.tlc("E2E_Trace", "E2E_Trace_%d.cfg" % n, r.scratch, workers=1, env={"TRACE_FILE": tf}, timeout=3000)
        pr = res.printed()
        rej = [p for p in pr if isinstance(p, dict) and "rejected" in p]
        lab = [p for p in pr if isinstance(p, dict) and "rules" in p]
        if not res.finished or (res.violated and not rej and res.violated != ["postcondition"]):
            raise core.MachineryError("E2E trace validation failed to run (n=%d):\n%s" % (n, "\n".join(res.out.splitlines()[-25:])))
        r.add_tlc(res)
        r.cov["traces_validated_against_impl"] += len(grp)
        seen = set()
        for p in lab:
            s, w, o = grp[p["trace"] - 1]
            rec = w.trace[p["at"] - 1]
            for rule in p["rules"]:
                key = (p["trace"], rule)
                if key in seen:
                    continue
                seen.add(key)
                detail = ""
                if rule == "content-altered":
                    detail = "; ".join(x[6] for x in w.shown if not x[5])[:300]
                r.violation("rule:%s:%s" % (rule, context(w, rec, s)),
                            "script %s (%s): step %d %s breaks the rule '%s' of E2E.tla %s" % (s["label"], s["ops"], p["at"], _brief(rec), rule, detail),
                            {"script": s, "step": p["at"], "record": rec})
        for x in rej:
            s, w, o = grp[x["rejected"] - 1]
            if o is not None and x["matched"] >= len(w.trace) - 1:
                continue    # the execution itself stopped (reported below)
            nxt = w.trace[x["matched"]] if x["matched"] < len(w.trace) else None
            r.notes.setdefault("drift", []).append({"script": s["label"], "at": x["matched"], "record": _brief(nxt)})
        if len(r.notes.get("drift", [])) > max(2, len(runs) // 20) and not r.violations:
            raise core.MachineryError("E2E.tla's server model does not match the server double on %d traces: %s" % (len(r.notes["drift"]), r.notes["drift"][:3]))
    for s, w, o in runs:
        if o is not None:
            kind, step, what = o
            r.violation("%s:%s:%s" % (kind, (what or "").split(":")[0], context(w, w.trace[-1] if w.trace else None, s)),
                        "script %s (%s): %s at %s: %s" % (s["label"], s["ops"], kind, step, what), {"script": s})
        if w.leaks and not any(rec["out"]["leak"] for rec in w.trace):
            r.violation("leak-outside-steps", "script %s: plaintext left a client during login: %s" % (s["label"], w.leaks[:3]), {"script": s})


def _brief(rec):
    if rec is None:
        return "-"
    return "%s(%s%s%s) out=%s" % (rec["t"], rec["c"], (" " + json.dumps(rec["hd"])) if rec["hd"]["k"] != "none" else "", (" " + rec["fault"]) if rec["fault"] else "",
                                  json.dumps(rec["out"]))


def run(only=None):
    r = core.Run("C03", "model_checking")
    thorough = r.tier == "thorough"
    rng = random.Random(core.seed())
    r.cov["rule"] = ("case = one conversation script over 2-4 real stacks and the server double: (who submits which payload kind - text, extended text, "
                     "link preview, image, location, contact with generated field values - to whom, 1:1 or group; which queue the server advances next; "
                     "duplicate / corrupted deliveries; restarts and group membership changes at quiescent points); schedules from TLC -simulate behaviours of E2E.tla plus systematic "
                     "families x queue policies; every step recorded and validated by TLC against E2E_Trace (rules: exactly once, only recipients, original "
                     "content / sender / group, receipts, re-acknowledged duplicates, retry after corruption, only ciphertext on the wire, completeness at "
                     "quiescence); distinct by script")
    for cfg in (("MC_E2E.cfg", "MC_E2E_group.cfg", "MC_E2E_reorder.cfg", "MC_E2E_members.cfg", "MC_E2E_members3.cfg") + (("MC_E2E_thorough.cfg", "MC_E2E_members_thorough.cfg") if thorough else ())):
        res = core.must_clean(core.tlc("E2E", cfg, r.scratch, workers=16, timeout=6000), cfg)
        r.add_tlc(res)
    bad = core.tlc("E2E", "MC_E2E_asread.cfg", r.scratch, workers=8)
    core.must_violate(bad, "AtMostOnce", "MC_E2E_asread")
    r.notes["selftest_asread_switch_violates"] = "AtMostOnce"
    payloads = Payloads(rng, r.scratch)
    scripts = families(thorough, rng)
    # the same families with the server delivering one of the first REORDER queued stanzas instead of the oldest
    base = list(scripts)
    for si, s in enumerate(base):
        if thorough or si % 3 == 0:
            scripts.append({"n": s["n"], "label": s["label"] + "+reorder",
                            "ops": [(["settle", ["reorder", si]] if op[0] == "settle" else op) for op in s["ops"]]})
    nsim = {2: 60, 3: 60, 4: 20} if not thorough else {2: 1500, 3: 1500, 4: 400}
    for n, num in nsim.items():
        res = core.tlc("E2E_Sim", "E2E_Sim_%d.cfg" % n, r.scratch, workers=1, simulate="num=%d" % num, depth=70, seed_=core.seed() + n, timeout=3000)
        scheds = [p["sched"] for p in res.printed() if isinstance(p, dict) and "sched" in p]
        if len(scheds) < num // 4:
            raise core.MachineryError("E2E_Sim_%d produced %d schedules\n%s" % (n, len(scheds), res.out[-1200:]))
        # keep the longest of the prefixes of one behaviour
        keep = []
        for s in scheds:
            if keep and s[:len(keep[-1])] == keep[-1]:
                keep[-1] = s
            else:
                keep.append(s)
        r.notes["tlc_schedules_%d" % n] = len(keep)
        scripts += [from_sched(n, s, rng) for s in keep]
    if only is not None:
        scripts = [only]
    roots = e2ekit.Roots()
    runs = []
    try:
        for si, s in enumerate(scripts):
            if si % 2 == 1 and only is None:
                s["library_ids"] = True       # every second conversation leaves the message ids to the library
            w, o = run_script(s, payloads, roots, rng)
            w.close()
            runs.append((s, w, o))
            r.case(json.dumps(s["ops"]))
            if si < 3:
                r.sample({"script": s["ops"], "steps": len(w.trace)})
            # keep memory bounded: drop frames
            w.frames = []
        validate(r, runs, thorough)
        r.notes["steps_recorded"] = sum(len(w.trace) for _, w, _ in runs)
        r.notes["messages_shown"] = sum(len(w.shown) for _, w, _ in runs)
        r.notes["retries_seen"] = sum(1 for _, w, _ in runs for rec in w.trace for x in rec["out"]["sent"] if x["k"] == "rcpt" and x["f"] == 1)
    finally:
        roots.close()
    r.assumptions += core.ENV_ASSUMPTIONS[:2] + [e2e.AXOLOTL_ASSUMPTION,
                      "the server is the harness double: per-client queues; it serves a client's stanzas in the order the client sent them and delivers the oldest or second-oldest stanza queued for a recipient, never letting a stanza overtake an earlier one of the same origin",
                      "stacks start above the Noise transport (C04/C05 cover it): network(fake dispatcher) | wire tap | coder | logger | axolotl | protocol layers | app double",
                      "prekey batches of 6 (threshold 3), the server asks for more keys when 2 are left",
                      "faults: at most one (dup or corrupt) per message and recipient; corrupt = last ciphertext byte flipped; restarts only at quiescent points"]
    return r.finish()


def replay(path):
    d = json.load(open(path))
    print(json.dumps(d)[:3000])
    return run(only=d.get("script"))
