"""Several accounts, each the library's protocol stack (network(fake dispatcher) | wire tap | coder | logger | axolotl control |
(axolotl send || receive) | protocol layers | application double) on its own profile, against one WhatsApp-level server double
(key directory, group directory, per-account queues, message fan-out, receipt forwarding).  Shared by C03 and C17.

The world is single-threaded and small-step: a client's reaction to a delivery runs synchronously and only ENQUEUES stanzas at the server;
the driver decides which queue advances next (server processes the head of a client's sent queue / delivers one queued stanza to a client),
so every server order of a script is reachable and replayable.  Every step appends abstract events to world.events (trace validation input)."""
import os, random
from harness import core, e2ekit

SERVER = "s.whatsapp.net"


def shim_axolotl_padding():
    """python-axolotl's AESCipher.encrypt skips PKCS7 padding for block-aligned plaintext while decrypt always unpads: with the
    library's random message padding every 16th message would be mangled by the DEPENDENCY.  Pad always (as the Signal protocol does)."""
    import axolotl.sessioncipher as sc
    from cryptography.hazmat.primitives import padding
    if getattr(sc.AESCipher, "_verif_padded", False):
        return

    def encrypt(self, raw):
        padder = padding.PKCS7(128).padder()
        enc = self.cipher.encryptor()
        return enc.update(padder.update(bytes(raw)) + padder.finalize()) + enc.finalize()
    sc.AESCipher.encrypt = encrypt
    sc.AESCipher._verif_padded = True


AXOLOTL_ASSUMPTION = ("python-axolotl's AESCipher omits PKCS7 padding for block-aligned plaintext (a defect of the dependency, 1 message in 16); "
                      "the harness process pads always")


class Account(object):
    def __init__(self, world, name, phone, autotrust=False):
        self.world, self.name, self.phone = world, name, phone
        self.jid = "%s@%s" % (phone, SERVER)
        self.autotrust = autotrust
        self.boots = 0
        self.installs = 0
        self.stack = None

    # ---------------------------------------------------------------- process (re)start
    def boot(self):
        """New layer / manager / store objects on the same profile directory, then log in (upload keys if any are unsent)."""
        from yowsup.layers import YowLayer, YowParallelLayer, YowLayerEvent
        from yowsup.layers.network import YowNetworkLayer
        from yowsup.layers.coder import YowCoderLayer
        from yowsup.layers.logger import YowLoggerLayer
        from yowsup.layers.axolotl import AxolotlControlLayer, AxolotlSendLayer, AxolotlReceivelayer
        from yowsup.layers.axolotl.props import PROP_IDENTITY_AUTOTRUST
        from yowsup.layers.protocol_iq import YowIqProtocolLayer
        from yowsup.layers.interface import YowInterfaceLayer, ProtocolEntityCallback
        from yowsup.stacks import YowStack, YowStackBuilder
        acc, world = self, self.world
        self.close_db()            # the previous process of this account is gone: so are its database connections
        self.boots += 1

        class Wire(YowLayer):
            def send(w, data):
                world.server.from_client(acc, bytes(data))

            def receive(w, data):
                w.toUpper(data)

            def onEvent(w, ev):
                if ev.getName() == YowNetworkLayer.EVENT_STATE_DISCONNECT:
                    acc.disconnect_requested = True
                    return True
                return False

        class App(YowInterfaceLayer):
            @ProtocolEntityCallback("message")
            def on_message(a, entity):
                world.app_message(acc, entity)
                a.toLower(entity.ack())

            @ProtocolEntityCallback("receipt")
            def on_receipt(a, entity):
                world.app_receipt(acc, entity)
                a.toLower(entity.ack())

            @ProtocolEntityCallback("ack")
            def on_ack(a, entity):
                world.app_other(acc, "ack", entity)

            @ProtocolEntityCallback("notification")
            def on_notification(a, entity):
                world.app_other(acc, "notification", entity)
                a.toLower(entity.ack())

            def submit(a, entity):
                a.toLower(entity)
        self.profile = e2ekit.make_profile(self.phone)
        layers = (YowNetworkLayer, Wire, YowCoderLayer, YowLoggerLayer, AxolotlControlLayer,
                  YowParallelLayer((AxolotlSendLayer, AxolotlReceivelayer)),
                  YowParallelLayer(YowStackBuilder.getProtocolLayers()), App)
        props = {"profile": self.profile, YowIqProtocolLayer.PROP_PING_INTERVAL: 0, PROP_IDENTITY_AUTOTRUST: self.autotrust}
        if int(self.phone[-1]) > 2:
            self.stack = YowStack(layers, reversed=False, props=props)
        else:
            # the way applications do it: a stack without properties, each one set afterwards (accounts of one process share nothing)
            self.stack = YowStack(layers, reversed=False)
            for k, v in props.items():
                self.stack.setProp(k, v)
        self.net, self.wire, self.control = self.stack.getLayer(0), self.stack.getLayer(1), self.stack.getLayer(4)
        self.axo = self.stack.getLayer(5)
        self.app = self.stack.getLayer(7)

        class D(object):
            def connect(d, host):
                acc.connect_requested = True

            def disconnect(d):
                pass

            def sendData(d, data):
                pass
        self.net._YowNetworkLayer__create_dispatcher = lambda t: D()
        self.disconnect_requested = self.connect_requested = False
        self.login()

    def close_db(self):
        """Close the key store connection of the current manager (thousands of worlds are built in one run)."""
        prof = getattr(self, "profile", None)
        mgr = getattr(prof, "_axolotl_manager", None) if prof is not None else None
        try:
            if mgr is not None:
                mgr._store.identityKeyStore.dbConn.close()
        except Exception:
            pass

    def emit(self, name, **kw):
        from yowsup.layers import YowLayerEvent
        self.stack.emitEvent(YowLayerEvent(name, **kw))

    def login(self):
        from yowsup.layers.network import YowNetworkLayer
        from yowsup.structs import ProtocolTreeNode
        srv = self.world.server
        for attempt in range(3):
            self.emit(YowNetworkLayer.EVENT_STATE_CONNECTED)
            srv.push(self, ProtocolTreeNode("success", {"t": str(srv.now()), "props": "2", "location": "frc", "creation": "1500000000"}), {"k": "success"})
            self.settle_own()
            if not self.disconnect_requested:
                return
            # the control layer asked for a reconnect to leave passive mode
            self.disconnect_requested = False
            self.emit(YowNetworkLayer.EVENT_STATE_DISCONNECTED)
            if not self.connect_requested:
                raise core.MachineryError("%s: disconnect requested during login but no reconnect" % self.name)
            self.connect_requested = False
        raise core.MachineryError("%s: login does not settle" % self.name)

    def settle_own(self, cap=200):
        """Server serves only this account's control traffic (login happens while none of its stanzas is in flight)."""
        srv = self.world.server
        for _ in range(cap):
            if srv.inq[self.name]:
                srv.process(self)
            elif srv.outq[self.name]:
                srv.deliver(self, 0)
            else:
                return
        raise core.MachineryError("%s: control traffic does not settle" % self.name)

    def reinstall(self):
        """The account is set up anew on another device: new identity, new keys (the old profile directory is discarded)."""
        import shutil
        from yowsup.common.tools import StorageTools
        d = os.path.dirname(StorageTools.constructPath(self.phone, "axolotl.db"))
        self.close_db()
        self.stack = None
        self.profile = None
        shutil.rmtree(d, ignore_errors=True)
        self.installs += 1
        self.world.server.dir.pop(self.jid, None)
        self.boot()

    def db(self):
        from yowsup.common.tools import StorageTools
        return StorageTools.constructPath(self.phone, "axolotl.db")

    def identity_pub(self):
        return bytes(self.profile.axolotl_manager.identity.getPublicKey().serialize())

    def pinned(self, other):
        """The identity row this account's store holds for `other` (bytes or None), read with a separate connection."""
        import sqlite3
        c = sqlite3.connect(self.db())
        try:
            rows = c.execute("SELECT public_key FROM identities WHERE recipient_id = ?", (int(other.phone),)).fetchall()
        finally:
            c.close()
        return [bytes(r[0]) for r in rows]


class Server(object):
    def __init__(self, world):
        self.world = world
        self.dir = {}        # jid -> uploaded key material
        self.groups = {}     # gjid -> [member jids]
        self.as_status = set()   # ids of 1:1 messages the server hands on as status broadcasts (from=status@broadcast, participant=author)
        self.inq = {}        # account name -> [node]  (sent by the client, not yet processed)
        self.outq = {}       # account name -> [(node, meta)]
        self.clock = 1600000000
        self.low_water = 2
        self.fail_key_requests = {}      # account name -> number of key requests to answer with an error
        from yowsup.layers.coder.tokendictionary import TokenDictionary
        from yowsup.layers.coder.encoder import WriteEncoder
        from yowsup.layers.coder.decoder import ReadDecoder
        self._enc, self._dec = WriteEncoder(TokenDictionary()), ReadDecoder(TokenDictionary())

    def now(self):
        self.clock += 1
        return self.clock

    def register(self, acc):
        self.inq.setdefault(acc.name, [])
        self.outq.setdefault(acc.name, [])

    # ---------------------------------------------------------------- client -> server
    def from_client(self, acc, data):
        node = self._dec.getProtocolTreeNode(bytearray(data))
        self.world.wire_out(acc, data, node)
        self.inq[acc.name].append(node)

    def push(self, acc, node, meta):
        self.outq[acc.name].append((node, meta))

    def by_jid(self, jid):
        for a in self.world.accounts:
            if a.jid == jid:
                return a
        return None

    def process(self, acc):
        """Serve the oldest stanza the client sent."""
        from yowsup.structs import ProtocolTreeNode as N
        node = self.inq[acc.name].pop(0)
        tag = node.tag
        if tag == "iq":
            return self._iq(acc, node)
        if tag == "ack":
            self.world.ev("ServerAck", who=acc.name, cls=node["class"], id=node["id"])
            return
        if tag == "receipt":
            return self._receipt(acc, node)
        if tag == "message":
            return self._message(acc, node)
        self.world.ev("ServerIgnored", who=acc.name, tag=tag)

    def _iq(self, acc, node):
        from yowsup.structs import ProtocolTreeNode as N
        xmlns, typ = node["xmlns"], node["type"]
        if xmlns == "encrypt" and typ == "set":
            keys = [(k.getChild("id").getData(), k.getChild("value").getData()) for k in node.getChild("list").getAllChildren()]
            sk = node.getChild("skey")
            ent = self.dir.setdefault(acc.jid, {"prekeys": []})
            ent.update(identity=node.getChild("identity").getData(), registration=node.getChild("registration").getData(),
                       type=node.getChild("type").getData(),
                       skey=(sk.getChild("id").getData(), sk.getChild("value").getData(), sk.getChild("signature").getData()))
            ent["prekeys"].extend(keys)
            ent["asked"] = False
            self.world.ev("KeysUploaded", who=acc.name, n=len(keys))
            self.push(acc, N("iq", {"type": "result", "id": node["id"], "from": SERVER}), {"k": "iq"})
        elif xmlns == "encrypt" and typ == "get" and self.fail_key_requests.get(acc.name, 0) > 0:
            # fault: the key directory is temporarily unavailable for this client
            self.fail_key_requests[acc.name] -= 1
            self.world.ev("KeysRefused", who=acc.name)
            self.push(acc, N("iq", {"type": "error", "id": node["id"], "from": SERVER}, [N("error", {"code": "500", "text": "internal-server-error"})]), {"k": "iq"})
        elif xmlns == "encrypt" and typ == "get":
            users = []
            for u in node.getChild("key").getAllChildren("user"):
                jid = u["jid"]
                ent = self.dir.get(jid)
                if ent is None:
                    continue
                ch = [N("registration", data=ent["registration"]), N("type", data=ent["type"]), N("identity", data=ent["identity"]),
                      N("skey", children=[N("id", data=ent["skey"][0]), N("value", data=ent["skey"][1]), N("signature", data=ent["skey"][2])])]
                if ent["prekeys"]:
                    kid, kval = ent["prekeys"].pop(0)
                    ch.append(N("key", children=[N("id", data=kid), N("value", data=kval)]))
                users.append(N("user", {"jid": jid}, ch))
                self.world.ev("KeysServed", who=acc.name, of=self.by_jid(jid).name if self.by_jid(jid) else jid)
                owner = self.by_jid(jid)
                if owner is not None and len(ent["prekeys"]) <= self.low_water and not ent.get("asked"):
                    ent["asked"] = True
                    self.push(owner, N("notification", {"t": str(self.now()), "id": "kn-%d" % self.now(), "from": SERVER, "type": "encrypt"},
                                       [N("count", {"value": str(len(ent["prekeys"]))})]), {"k": "notification"})
            self.push(acc, N("iq", {"type": "result", "id": node["id"], "from": SERVER}, [N("list", children=users)]), {"k": "iq"})
        elif xmlns == "w:g2" and typ == "get":
            gj = node["to"]
            members = self.groups.get(gj)
            if members is None:
                self.push(acc, N("iq", {"type": "error", "id": node["id"], "from": gj}, [N("error", {"code": "404", "text": "item-not-found"})]), {"k": "iq"})
                return
            g = N("group", {"subject": "g", "creation": "1500000000", "creator": members[0], "s_t": "1500000001", "id": gj.split("@")[0], "s_o": members[0]},
                  [N("participant", {"jid": m, "type": "admin"} if i == 0 else {"jid": m}) for i, m in enumerate(members)])
            self.push(acc, N("iq", {"type": "result", "id": node["id"], "from": gj}, [g]), {"k": "iq"})
        else:
            self.push(acc, N("iq", {"type": "result", "id": node["id"], "from": SERVER}), {"k": "iq"})

    def _message(self, acc, node):
        from yowsup.structs import ProtocolTreeNode as N
        to, mid = node["to"], node["id"]
        t = str(self.now())
        base = {"id": mid, "type": node["type"], "t": t, "notify": "n-" + acc.name}
        encs = [c for c in node.getAllChildren() if c.tag == "enc"]
        self.push(acc, N("ack", {"class": "message", "id": mid, "from": to, "t": t}), {"k": "ack"})
        if to.endswith("@g.us"):
            members = self.groups.get(to, [])
            if acc.jid not in members:
                self.world.ev("ServerRefused", who=acc.name, id=mid)
                return
            if node["participant"] is not None:
                tgt = self.by_jid(node["participant"])
                attrs = dict(base, **{"from": to, "participant": acc.jid})
                self.push(tgt, N("message", attrs, [self._copy(e) for e in encs]), {"k": "message", "id": mid, "sender": acc.name, "group": True, "directed": True})
                self.world.ev("ServerFanout", id=mid, sender=acc.name, to=[tgt.name], group=True, directed=True)
                return
            per = {}
            pnode = node.getChild("participants")
            if pnode is not None:
                for tn in pnode.getAllChildren("to"):
                    per[tn["jid"]] = [c for c in tn.getAllChildren() if c.tag == "enc"]
            names = []
            for m in members:
                if m == acc.jid:
                    continue
                tgt = self.by_jid(m)
                attrs = dict(base, **{"from": to, "participant": acc.jid})
                self.push(tgt, N("message", attrs, [self._copy(e) for e in per.get(m, []) + encs]), {"k": "message", "id": mid, "sender": acc.name, "group": True})
                names.append(tgt.name)
            self.world.ev("ServerFanout", id=mid, sender=acc.name, to=names, group=True, directed=False)
        else:
            tgt = self.by_jid(to)
            if tgt is None:
                return
            attrs = dict(base, **{"from": acc.jid})
            if mid in self.as_status:
                # a status update / broadcast-list message: it reaches each recipient from the broadcast address, the author as participant
                attrs = dict(base, **{"from": "status@broadcast", "participant": acc.jid})
            self.push(tgt, N("message", attrs, [self._copy(e) for e in encs]), {"k": "message", "id": mid, "sender": acc.name, "group": False})
            self.world.ev("ServerFanout", id=mid, sender=acc.name, to=[tgt.name], group=False, directed=False)

    @staticmethod
    def _copy(e):
        from yowsup.structs import ProtocolTreeNode as N
        attrs = dict(e.attributes)
        attrs.pop("jid", None)
        return N("enc", attrs, data=e.getData())

    def _receipt(self, acc, node):
        from yowsup.structs import ProtocolTreeNode as N
        to, rid = node["to"], node["id"]
        t = str(self.now())
        ack = {"class": "receipt", "id": rid, "from": to, "t": t}
        if node["type"]:
            ack["type"] = node["type"]
        if node["participant"]:
            ack["participant"] = node["participant"]
        self.push(acc, N("ack", ack), {"k": "ack"})
        attrs = {"id": rid, "t": t}
        if node["type"]:
            attrs["type"] = node["type"]
        if to.endswith("@g.us") or to.endswith("@broadcast"):
            tgt = self.by_jid(node["participant"])
            attrs.update({"from": to, "participant": acc.jid})
        else:
            tgt = self.by_jid(to)
            attrs["from"] = acc.jid
        if tgt is None:
            return
        ch = [N(c.tag, dict(c.attributes), data=c.getData()) for c in node.getAllChildren()]
        self.push(tgt, N("receipt", attrs, ch), {"k": "receipt", "id": rid, "by": acc.name, "retry": node["type"] == "retry"})
        self.world.ev("ServerReceipt", id=rid, by=acc.name, to=tgt.name, retry=node["type"] == "retry")

    # ---------------------------------------------------------------- server -> client
    def deliver(self, acc, idx=0, fault=None):
        """Deliver one queued stanza.  fault: None | "dup" (the same stanza is queued once more) | "corrupt" (ciphertext damaged)."""
        from yowsup.structs import ProtocolTreeNode as N
        node, meta = self.outq[acc.name].pop(idx)
        if fault == "dup":
            self.outq[acc.name].append((node, dict(meta, dupcopy=True)))
        if fault == "corrupt":
            ch = []
            hit = False
            for c in node.getAllChildren():
                if c.tag == "enc" and not hit and (c["type"] == "skmsg" or not any(x["type"] == "skmsg" for x in node.getAllChildren() if x.tag == "enc")):
                    d = bytearray(c.getData() if not isinstance(c.getData(), str) else c.getData().encode("latin-1"))
                    d[-1] ^= 0x01
                    ch.append(N("enc", dict(c.attributes), data=bytes(d)))
                    hit = True
                else:
                    ch.append(c)
            node = N(node.tag, dict(node.attributes), ch)
        self.world.ev("Deliver", to=acc.name, k=meta.get("k"), id=meta.get("id"), sender=meta.get("sender"), fault=fault or "",
                      dupcopy=bool(meta.get("dupcopy")), retry=bool(meta.get("retry")), by=meta.get("by"))
        data = self._enc.protocolTreeNodeToBytes(node)
        acc.wire.receive(bytearray(data))
        return meta


class World(object):
    def __init__(self, roots, n, autotrust=None, group=True, batch=(6, 3)):
        core.shim_consonance()
        shim_axolotl_padding()
        e2ekit.small_batches(*batch)
        World.SEQ = getattr(World, "SEQ", 0) + 1
        self.events = []
        self.trace = []       # one record per recorded step (E2E_Trace.tla input)
        self.cur = None
        self.mids, self.expected, self.secrets, self.leaks = {}, {}, [], []
        self.emitted_ids = set()
        self.shown = []       # (who, id, from, participant, entity, ok, why)
        self.receipts = []    # (who, id, from, participant, type)
        self.frames = []      # (who, bytes, node)
        self.errors = []
        self.accounts = []
        self.server = Server(self)
        for i in range(n):
            a = Account(self, "abcd"[i], "4915%07d%d" % (World.SEQ, i + 1), autotrust=bool(autotrust and autotrust[i]))
            self.accounts.append(a)
            self.server.register(a)
        self.gjid = "4915%07d1-1500000000@g.us" % World.SEQ
        if group:
            self.server.groups[self.gjid] = [a.jid for a in self.accounts]
        for a in self.accounts:
            a.boot()

    def acc(self, name):
        return self.accounts["abcd".index(name)]

    def ev(self, name, **kw):
        kw["e"] = name
        self.events.append(kw)

    # ---------------------------------------------------------------- observations
    def index_of(self, mid):
        return self.mids.get(mid, 0)

    def cls_out(self, acc, node, record=False):
        """Abstract a stanza a client wrote: [k, i, p, f] as in E2E.tla."""
        t = node.tag
        if t == "message":
            # directed = a re-send to one party: the participant attribute on a group message, a repeated id on a direct one
            part = node["participant"]
            key = (acc.name, node["id"])
            again = key in self.emitted_ids
            if record:
                self.emitted_ids.add(key)
            p = self.name_of(part) if part else (self.name_of(node["to"]) if again and not node["to"].endswith("@g.us") else "")
            return {"k": "msg", "i": self.index_of(node["id"]), "p": p, "f": 0}
        if t == "receipt":
            return {"k": "rcpt", "i": self.index_of(node["id"]), "p": "", "f": 1 if node["type"] == "retry" else 0}
        if t == "iq" and node["type"] in ("get", "set"):
            return {"k": "ctl", "i": 0, "p": "", "f": 1}
        return {"k": "ctl", "i": 0, "p": "", "f": 0}

    def cls_in(self, node, meta):
        k = meta.get("k")
        if k == "message":
            return {"k": "msg", "i": self.index_of(meta["id"]), "p": meta["sender"], "f": 0}
        if k == "receipt":
            return {"k": "rcpt", "i": self.index_of(meta["id"]), "p": meta["by"], "f": 1 if meta.get("retry") else 0}
        if k == "iq":
            return {"k": "ctl", "i": 0, "p": "", "f": 1}
        return {"k": "ctl", "i": 0, "p": "", "f": 0}

    def wire_out(self, acc, data, node):
        self.frames.append((acc.name, data, node))
        leaks = [m for m in self.secrets if m in data]
        plain = node.tag == "message" and any(c.tag != "enc" and c.tag != "participants" for c in node.getAllChildren())
        if leaks or plain:
            self.leaks.append((acc.name, node.tag, node["id"], len(leaks), plain))
        node._verif_cls = self.cls_out(acc, node, True)
        if self.cur is not None:
            self.cur["sent"].append(node._verif_cls)
            self.cur["writers"].add(acc.name)
            if leaks or plain:
                self.cur["leak"] += 1

    def app_message(self, acc, entity):
        frm = entity.getFrom()
        part = entity.getParticipant() if entity.participant else None
        ok, why = self.judge(acc, entity, frm, part)
        self.shown.append((acc.name, entity.getId(), frm, part, entity, ok, why))
        if self.cur is not None:
            self.cur["shown"].append({"i": self.index_of(entity.getId()), "ok": 1 if ok else 0})
        self.ev("Shown", who=acc.name, id=entity.getId(), frm=self.name_of(part or frm), group=bool(part), cls=type(entity).__name__, ok=ok)

    def judge(self, acc, entity, frm, part):
        """Original content, sender and group identity?  (expected: what was submitted under this id)"""
        exp = self.expected.get(entity.getId())
        if exp is None:
            return False, "unknown id"
        why = []
        author = self.acc(exp["s"]).jid
        if exp["d"] == "G":
            if frm != self.gjid:
                why.append("group identity %r" % frm)
            if part != author:
                why.append("sender %r" % part)
        else:
            if frm != author:
                why.append("sender %r" % frm)
            if part:
                why.append("participant %r on a direct message" % part)
        if exp.get("check") is not None:
            d = exp["check"](entity)
            if d:
                why.append("content %s" % d[:3])
        return (not why), "; ".join(why)

    def app_receipt(self, acc, entity):
        part = entity.getParticipant() if getattr(entity, "participant", None) else None
        typ = entity.getType()
        self.receipts.append((acc.name, entity.getId(), entity.getFrom(), part, typ))
        if self.cur is not None and typ != "retry":
            self.cur["seen"].append({"i": self.index_of(entity.getId()), "p": self.name_of(part or entity.getFrom())})
        self.ev("ReceiptSeen", who=acc.name, id=entity.getId(), by=self.name_of(part or entity.getFrom()), type=typ or "")

    def app_other(self, acc, kind, entity):
        self.ev("AppOther", who=acc.name, kind=kind)

    def name_of(self, jid):
        a = self.server.by_jid(jid)
        return a.name if a else jid

    # ---------------------------------------------------------------- recorded steps (one trace record each)
    def _begin(self):
        self.cur = {"sent": [], "shown": [], "seen": [], "leak": 0, "writers": set()}

    def _end(self, rec, actor):
        cur, self.cur = self.cur, None
        if cur["writers"] - {actor}:
            raise core.MachineryError("step of %s made %s write" % (actor, sorted(cur["writers"] - {actor})))
        base = {"t": "", "c": "", "d": "", "hd": {"k": "none", "i": 0, "p": "", "f": 0}, "tg": [], "note": [], "fault": "", "j": 1,
                "out": {"sent": cur["sent"], "shown": cur["shown"], "seen": cur["seen"], "leak": cur["leak"]}}
        base.update(rec)
        self.trace.append(base)
        return base

    def do_submit(self, name, mid, dest, entity, check=None, secrets=()):
        """The application of `name` submits `entity` (id mid) to dest (an account name or "G")."""
        self.mids[mid] = len(self.mids) + 1
        self.expected[mid] = {"s": name, "d": dest, "check": check}
        self.secrets.extend(s for s in secrets if len(s) >= 8)
        self._begin()
        self.ev("AppSend", who=name, id=mid, to=dest)
        try:
            self.acc(name).app.submit(entity)
        finally:
            rec = self._end({"t": "Submit", "c": name, "d": dest}, name)
        return rec

    def do_process(self, name):
        a = self.acc(name)
        node = self.server.inq[name][0]
        hd = node._verif_cls
        before = {b.name: len(self.server.outq[b.name]) for b in self.accounts}
        self._begin()
        try:
            self.server.process(a)
        finally:
            tg, note = [], []
            for b in self.accounts:
                for (n2, meta) in self.server.outq[b.name][before[b.name]:]:
                    if meta.get("k") in ("message", "receipt"):
                        tg.append(b.name)
                    elif meta.get("k") == "notification":
                        note.append(b.name)
            rec = self._end({"t": "Process", "c": name, "hd": hd, "tg": tg, "note": note}, name)
        return rec

    def do_deliver(self, name, fault=None, j=1):
        """Deliver the j-th (1-based) stanza queued for `name`."""
        a = self.acc(name)
        node, meta = self.server.outq[name][j - 1]
        hd = self.cls_in(node, meta)
        self._begin()
        try:
            self.server.deliver(a, j - 1, fault)
        finally:
            rec = self._end({"t": "Deliver", "c": name, "hd": hd, "fault": fault or "", "j": j}, name)
        return rec

    def do_restart(self, name):
        if self.enabled():
            raise core.MachineryError("restart while stanzas are in flight")
        self.ev("Restart", who=name)
        self.acc(name).boot()
        self.trace.append({"t": "Restart", "c": name, "d": "", "hd": {"k": "none", "i": 0, "p": "", "f": 0}, "tg": [], "note": [], "fault": "", "j": 1,
                           "out": {"sent": [], "shown": [], "seen": [], "leak": 0}})

    def _member_step(self, kind, name):
        if self.enabled():
            raise core.MachineryError("membership change while stanzas are in flight")
        self.ev(kind, who=name)
        self.trace.append({"t": kind, "c": name, "d": "", "hd": {"k": "none", "i": 0, "p": "", "f": 0}, "tg": [], "note": [], "fault": "", "j": 1,
                           "out": {"sent": [], "shown": [], "seen": [], "leak": 0}})

    def members(self):
        return [self.name_of(j) for j in self.server.groups.get(self.gjid, [])]

    def do_join(self, name):
        """The group's administrator adds `name` (on the server; clients are not told)."""
        self.server.groups.setdefault(self.gjid, []).append(self.acc(name).jid)
        self._member_step("Join", name)

    def do_leave(self, name):
        self.server.groups[self.gjid].remove(self.acc(name).jid)
        self._member_step("Leave", name)

    def do_end(self):
        self.trace.append({"t": "End", "c": "", "d": "", "hd": {"k": "none", "i": 0, "p": "", "f": 0}, "tg": [], "note": [], "fault": "", "j": 1,
                           "out": {"sent": [], "shown": [], "seen": [], "leak": 0}})

    def enabled(self):
        """[(kind, account name)] of the server steps possible now (delivery is FIFO per recipient)."""
        out = []
        for a in self.accounts:
            if self.server.inq[a.name]:
                out.append(("process", a.name))
            if self.server.outq[a.name]:
                out.append(("deliver", a.name))
        return out

    def head(self, name, j=1):
        q = self.server.outq[name]
        return self.cls_in(*q[j - 1]) if len(q) >= j else None

    def settle(self, choose=None, cap=1500, fault_for=None, pick_j=None):
        """Run server steps until all queues are empty.  choose(enabled) picks the next step (default: first);
        fault_for(account name, stanza record) -> fault for the delivery about to happen; pick_j(name, queue length) -> which queued
        stanza is delivered (default 1: queue order)."""
        n = 0
        while True:
            en = self.enabled()
            if not en:
                return n
            n += 1
            if n > cap:
                raise Diverged(n)
            kind, name = (choose(en) if choose else en[0])
            if kind == "process":
                self.do_process(name)
            else:
                j = pick_j(name, len(self.server.outq[name])) if pick_j else 1
                self.do_deliver(name, fault_for(name, self.head(name, j)) if fault_for else None, j)

    def close(self):
        """Drop the stacks and the accounts' profile directories (thousands of worlds are built in one run)."""
        import shutil
        from yowsup.common.tools import StorageTools
        for a in self.accounts:
            a.close_db()
            a.stack = None
            a.profile = None
            try:
                shutil.rmtree(os.path.dirname(StorageTools.constructPath(a.phone, "axolotl.db")), ignore_errors=True)
            except Exception:
                pass


class Diverged(Exception):
    pass
