import argparse, importlib, os, sys, traceback
sys.path.insert(0, os.path.dirname(os.path.dirname(os.path.abspath(__file__))))
from harness import core


def main():
    ap = argparse.ArgumentParser()
    ap.add_argument("pid")
    ap.add_argument("--tier", default=os.environ.get("VERIF_TIER", "quick"))
    ap.add_argument("--replay", default=None)
    a = ap.parse_args()
    os.environ["VERIF_TIER"] = a.tier if a.tier in ("quick", "thorough") else "quick"
    core.setup_imports()
    mod = importlib.import_module("harness.props.%s" % a.pid.lower())
    try:
        if a.replay:
            rc = mod.replay(a.replay)
        else:
            rc = mod.run()
    except core.TooManyViolations:
        rc = core.CURRENT.finish()
    except core.MachineryError as e:
        print("MACHINERY-FAILURE %s: %s" % (a.pid, e))
        rc = 2
    except Exception:
        traceback.print_exc()
        print("MACHINERY-FAILURE %s: unexpected exception in harness" % a.pid)
        rc = 2
    sys.stdout.flush()
    os._exit(rc)


if __name__ == "__main__":
    main()
