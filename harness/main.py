import argparse, importlib, os, sys, traceback
sys.path.insert(0, os.path.dirname(os.path.dirname(os.path.abspath(__file__))))
from harness import core


def main():
    ap = argparse.ArgumentParser()
    ap.add_argument("pid")
    ap.add_argument("--tier", default=os.environ.get("VERIF_TIER", "quick"))
    ap.add_argument("--replay", default=None)
    a = ap.parse_args()
    os.environ["VERIF_TIER"] = a.tier if a.tier in ("quick", "thorough") else "quick"
    core.setup_imports()
    mod = importlib.import_module("harness.props.%s" % a.pid.lower())
    try:
        if a.replay:
            rc = mod.replay(a.replay)
        else:
            rc = mod.run()
    except core.TooManyViolations:
        rc = core.CURRENT.finish()
    except core.MachineryError as e:
        rc = late_failure(a.pid, "%s" % e)
    except Exception:
        traceback.print_exc()
        rc = late_failure(a.pid, "unexpected exception in harness")
    sys.stdout.flush()
    os._exit(rc)


def late_failure(pid, what):
    """The harness cannot go on.  If the run had ALREADY recorded violations of the property, they stand (a change that breaks the property
    often breaks the harness's assumptions a little later too): the run finishes with them and the failure is kept as a note.  Otherwise it
    is a machinery failure (exit 2)."""
    run = getattr(core, "CURRENT", None)
    if run is not None and getattr(run, "violations", None):
        run.notes["machinery_failure_after_violations"] = what[:600]
        print("NOTE %s: harness stopped after recording violations: %s" % (pid, what.splitlines()[0][:200]))
        return run.finish()
    print("MACHINERY-FAILURE %s: %s" % (pid, what))
    return 2


if __name__ == "__main__":
    main()
