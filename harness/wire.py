"""Shared machinery for C01 / C02: abstract stanza trees, their concretisation, evaluation of the item sequences computed by TLC
(spec/WireFormat.tla), strict tree comparison."""
import json, os, random, zlib
from harness import core

NIB = "0123456789-."
HEX = "0123456789ABCDEF"


def S(cls, idx=0, ref="-", length=0, user=None, server=None):
    d = {"cls": cls, "idx": idx, "ref": ref, "len": length}
    if cls == "jid":
        d["user"], d["server"] = user, server
    return d


class World(object):
    """Reference dictionary (obtained through TLC from WADict.tla) + deterministic content for generated strings."""
    def __init__(self, primary, secondary, seed):
        self.primary, self.secondary = primary, secondary
        self.words = set(primary) | set(secondary)
        self.seed = seed
        self.n = 0
        self.content = {}
        self.used = set()

    def tok1(self, i):
        return S("tok1", i, "-", len(self.primary[i]))

    def tok2(self, i):
        return S("tok2", i, "-", len(self.secondary[i]))

    def fresh(self, cls, length, at0=False, near=None):
        """near: a raw (unpackable) string that only just fails to be packable - "lowerhex": hex digits with a lower-case letter,
        "mixed": nibble characters and hex letters together."""
        self.n += 1
        ref = "%s%d_%d" % (cls[0], self.n, length)
        r = random.Random("%s/%s/%d" % (self.seed, ref, length))
        for attempt in range(50):
            if cls == "raw" and near == "lowerhex":
                s = [r.choice("0123456789abcdefABCDEF") for _ in range(length)]
                s[r.randrange(length)] = r.choice("abcdef")
                s = "".join(s)
            elif cls == "raw" and near == "adjacent":
                # packable characters plus ONE character right next to a packable range in the character table (':' after '9', '/' before
                # '0', ',' before '-', 'G' after 'F', '@' before 'A' is excluded: it makes a JID)
                base = r.choice(["0123456789-.", "0123456789ABCDEF"])
                s = [r.choice(base) for _ in range(length)]
                s[r.randrange(length)] = r.choice(u":/,G`;\xb2\xb3\xb9\xbd")      # incl. Latin-1 characters that str.isdigit() / isalnum() accept
                s = "".join(s)
            elif cls == "raw" and near == "mixed" and length >= 2:
                s = [r.choice("0123456789ABCDEF-.") for _ in range(length)]
                i, j = r.sample(range(length), 2)
                s[i], s[j] = r.choice("-."), r.choice("ABCDEF")
                s = "".join(s)
            elif cls == "nib":
                s = "".join(r.choice(NIB) for _ in range(length))
            elif cls == "hex":
                s = list(r.choice(HEX) for _ in range(length))
                s[r.randrange(length)] = r.choice("ABCDEF")
                s = "".join(s)
            elif cls == "raw":
                alphabet = u"abcxyz_ XYZ:/+=%\xe9\xff\x80\x01G-.@"
                if length <= 4096:
                    s = [r.choice(alphabet[:-1]) for _ in range(length)]
                else:
                    blk = [r.choice(alphabet[:-1]) for _ in range(997)]
                    s = (blk * (length // 997 + 1))[:length]
                s[r.randrange(min(length, 64))] = r.choice(u"gq_\xe9 ")     # something that cannot be packed
                if length > 1 and at0:
                    s[0] = "@"                                           # '@' in first position is plain text, not a JID
                s = "".join(s)
            else:
                raise ValueError(cls)
            # (also: never the same string twice - two equal attribute keys in one node would silently collapse into one)
            if s not in self.words and "@" not in s[1:] and (length < 3 or s not in self.used):
                break
        else:
            raise core.MachineryError("cannot generate %s string of length %d outside the dictionary" % (cls, length))
        self.content[ref] = s
        self.used.add(s)
        return S(cls, 0, ref, length)

    def blob(self, length):
        self.n += 1
        ref = "b%d_%d" % (self.n, length)
        r = random.Random("%s/%s" % (self.seed, ref))
        blk = bytes(bytearray(r.getrandbits(8) for _ in range(min(length, 1021))))
        self.content[ref] = (blk * (length // max(1, len(blk)) + 1))[:length] if length else b""
        return S("raw", 0, ref, length)

    def jid(self, user, server):
        return S("jid", 0, "-", 0, user, server)

    # ---- concretisation
    def text(self, s):
        c = s["cls"]
        if c == "tok1":
            return self.primary[s["idx"]]
        if c == "tok2":
            return self.secondary[s["idx"]]
        if c == "jid":
            return self.text(s["user"]) + "@" + self.text(s["server"])
        return self.content[s["ref"]]

    def data(self, b):
        v = self.content[b["ref"]] if b["cls"] not in ("tok1", "tok2") else self.text(b)
        return v if isinstance(v, bytes) else v.encode("latin-1")

    def ref_bytes(self, ref):
        if ref.startswith("w:p"):
            return self.primary[int(ref[3:])].encode("latin-1")
        if ref.startswith("w:s"):
            return self.secondary[int(ref[3:])].encode("latin-1")
        v = self.content[ref]
        return v if isinstance(v, bytes) else v.encode("latin-1")

    def node(self, t):
        from yowsup.structs import ProtocolTreeNode
        attrs = {}
        for a in t["attrs"]:
            attrs[self.text(a["k"])] = self.text(a["v"])
        kids = [self.node(k) for k in t["kids"]] if t["ckind"] == "kids" else None
        data = self.data(t["bin"]) if t["ckind"] == "bin" else None
        return ProtocolTreeNode(self.text(t["tag"]), attrs, kids, data)

    # ---- evaluation of item sequences printed by TLC
    def pack(self, ref, kind):
        s = self.ref_bytes(ref)
        table = NIB if kind == 255 else HEX
        out = bytearray((len(s) + 1) // 2)
        for i, ch in enumerate(bytearray(s)):
            v = table.index(chr(ch))
            out[i // 2] |= v << (4 * (1 - i % 2))
        if len(s) % 2:
            out[-1] |= 0xF
        return bytes(out)

    def items(self, seq):
        out = bytearray()
        for it in seq:
            if isinstance(it, int):
                out.append(it)
            elif it.startswith("r:"):
                out += self.ref_bytes(it[2:])
            elif it.startswith("p"):
                kind, ref = it[1:].split(":", 1)
                out += self.pack(ref, int(kind))
            else:
                raise core.MachineryError("unknown item %r" % (it,))
        return bytes(out)


def T(tag, attrs=(), bin=None, kids=None):
    return {"tag": tag, "attrs": [{"k": k, "v": v} for k, v in attrs], "ckind": "bin" if bin is not None else ("kids" if kids else "none"),
            "bin": bin if bin is not None else [], "kids": list(kids) if kids else []}


def strict_equal(a, b, path="/"):
    """None if the two ProtocolTreeNodes are identical (ordered children, exact types), else a description."""
    if a is None or b is None:
        return None if a is b else "%s: one side is None" % path
    if not hasattr(a, "tag") or not hasattr(b, "tag"):
        return "%s: not a node: %r vs %r" % (path, type(a).__name__, type(b).__name__)
    if type(a.tag) is not str or type(b.tag) is not str or a.tag != b.tag:
        return "%s: tag %r vs %r" % (path, a.tag, b.tag)
    if a.attributes != b.attributes:
        ka, kb = set(a.attributes), set(b.attributes)
        diff = [(k, a.attributes.get(k), b.attributes.get(k)) for k in sorted(ka | kb, key=repr) if a.attributes.get(k) != b.attributes.get(k)]
        return "%s%s: attributes differ %r" % (path, a.tag, [(k, _short(x), _short(y)) for k, x, y in diff[:3]])
    for k, v in list(a.attributes.items()) + list(b.attributes.items()):
        if type(k) is not str or type(v) is not str:
            return "%s%s: attribute %r is not str/str" % (path, a.tag, k)
    da, db = a.data, b.data
    if (da is None) != (db is None) or (da is not None and (type(da) is not bytes or type(db) is not bytes or da != db)):
        return "%s%s: data %s vs %s" % (path, a.tag, _short(da), _short(db))
    ca, cb = a.children or [], b.children or []
    if len(ca) != len(cb):
        return "%s%s: %d vs %d children" % (path, a.tag, len(ca), len(cb))
    for i, (x, y) in enumerate(zip(ca, cb)):
        r = strict_equal(x, y, "%s%s[%d]/" % (path, a.tag, i))
        if r:
            return r
    return None


def _short(x):
    if x is None:
        return None
    if len(x) > 24:
        return "%s(len %d) %r..." % (type(x).__name__, len(x), x[:12])
    return repr(x)


def evaluate_cases(run, cases, dump_dict=False):
    """Run TLC on the abstract trees; returns list of per-case outputs (policy/alternative segments) [+ dictionary]."""
    cf = os.path.join(run.scratch.path, "wire_cases_%d.json" % len(os.listdir(run.scratch.path)))
    with open(cf, "w") as fh:
        json.dump(cases, fh)
    env = {"CASES_FILE": cf}
    if dump_dict:
        env["DUMP_DICT"] = "1"
    res = core.tlc("WireFormat_Eval", "WireFormat_Eval.cfg", run.scratch, workers=1, env=env, timeout=3000)
    pr = res.printed()
    outs = {p["i"]: p for p in pr if isinstance(p, dict) and "segs" in p}
    d = [p for p in pr if isinstance(p, dict) and "primary" in p]
    if not res.finished or len(outs) != len(cases) or "assume" in res.violated:
        raise core.MachineryError("WireFormat_Eval failed (%d of %d cases):\n%s" % (len(outs), len(cases), "\n".join(res.out.splitlines()[-20:])))
    run.add_tlc(res)
    return [outs[i + 1] for i in range(len(cases))], (d[0] if d else None)


def load_dict(run):
    _, d = evaluate_cases(run, [], dump_dict=True)
    if not d or len(d["primary"]) != 236 or len(d["secondary"]) != 1024:
        raise core.MachineryError("reference dictionary not dumped")
    return d["primary"], d["secondary"]


def generate(world, rng, thorough):
    """Systematic sweeps + random trees (abstract)."""
    w = world
    cases = []
    msg, iq, frm, to, typ, idk = w.tok1(9), w.tok1(10), w.tok1(5), w.tok1(11), w.tok1(3), w.tok1(4)
    # 1. every dictionary word once, in tag / key / value / jid-server / content position
    toks = [w.tok1(i) for i in range(3, 236)] + [w.tok2(i) for i in range(1024)]
    for i in range(0, len(toks), 12):
        chunk = toks[i:i + 12]
        attrs = []
        for j, tk in enumerate(chunk):
            if j % 3 == 0:
                attrs.append((tk, w.fresh("raw", 3 + j)))
            elif j % 3 == 1:
                attrs.append((w.fresh("raw", 2 + j), tk))
            else:
                attrs.append((w.fresh("raw", 4 + j), w.jid(w.fresh("nib", 5 + j), tk)))
        kids = [T(tk, [(idk, w.fresh("nib", 6))]) for tk in chunk[:4]] + [T(w.fresh("raw", 4), [], bin=tk) for tk in chunk[4:6]]
        cases.append(T(chunk[0], attrs, kids=kids))
    # 2. packed strings of every length (attribute values and JID users), both kinds
    lens = list(range(1, 256)) if thorough else sorted(set(list(range(1, 20)) + [63, 64, 126, 127, 128, 129, 200, 253, 254, 255] + [rng.randint(20, 252) for _ in range(12)]))
    for L in lens:
        for cls in ("nib", "hex"):
            cases.append(T(msg, [(idk, w.fresh(cls, L)), (frm, w.jid(w.fresh(cls, L), w.tok1(8))), (w.fresh(cls, min(L, 40)), w.fresh("raw", 2))],
                           kids=[T(w.fresh(cls, min(L, 30)), [], bin=w.fresh(cls, L))]))
    # 2b. strings that only just fail to be packable (lower-case hex digits; nibble characters mixed with hex letters) stay plain text
    for L in ([2, 3, 4, 6, 8, 16, 32, 40, 64, 126, 127, 128] if not thorough else list(range(2, 131))):
        for near in ("lowerhex", "mixed", "adjacent"):
            cases.append(T(msg, [(idk, w.fresh("raw", L, near=near)), (frm, w.jid(w.fresh("raw", L, near=near), w.tok1(8)))],
                           kids=[T(w.fresh("raw", min(L, 30), near=near), [], bin=w.fresh("raw", L, near=near))]))
    # 3. raw text lengths, JIDs with raw user / raw server
    for L in [1, 2, 127, 128, 255, 256, 257, 65535, 65536] + ([1048575, 1048576] if thorough else []):
        cases.append(T(w.fresh("raw", min(L, 300)), [(typ, w.fresh("raw", L)), (to, w.jid(w.fresh("raw", min(L, 200)), w.fresh("raw", 9)))]))
    cases.append(T(iq, [(frm, w.jid(w.fresh("nib", 11), w.jid(w.fresh("raw", 4), w.tok1(8))))]))      # a@b@c: the server part is itself a JID
    cases.append(T(w.fresh("raw", 5, at0=True), [(w.fresh("raw", 3, at0=True), w.fresh("raw", 9, at0=True)), (typ, w.fresh("raw", 300, at0=True))]))      # user part that itself contains '@' is not generated; nested server
    # 4. binary content across the three length classes, top level / nested / with following sibling
    blens = [0, 1, 255, 256, 65535, 65536, 1048575, 1048576, 1048577] + ([16777216 - 32] if thorough else [])
    for L in blens:
        cases.append(T(msg, [(idk, w.fresh("nib", 10))], bin=w.blob(L)))
        if L <= 1048577:
            cases.append(T(msg, [(idk, w.fresh("nib", 10))], kids=[T(w.tok1(14), [(typ, w.fresh("raw", 5))], bin=w.blob(L)),
                                                                     T(w.fresh("raw", 6), [(idk, w.fresh("hex", 8))])]))
    # 5. list sizes below and above 255
    for n in [0, 1, 2, 127, 128, 200]:
        cases.append(T(iq, [(w.fresh("raw", 3 + i % 7), w.fresh("nib" if i % 2 else "raw", 1 + i % 9)) for i in range(n)]))
    for n in [1, 2, 255, 256, 300]:
        cases.append(T(iq, [(typ, w.tok1(27))], kids=[T(w.tok1(19), [(w.tok1(20), w.jid(w.fresh("nib", 12), w.tok1(8)))]) for _ in range(n)]))
    # 6. random trees
    def rstr(pos):
        c = rng.random()
        if c < 0.3:
            return w.tok1(rng.randint(3, 235))
        if c < 0.4:
            return w.tok2(rng.randint(0, 1023))
        if c < 0.6:
            return w.fresh("nib", rng.choice([1, 2, 5, 13, 18, 127, 128]))
        if c < 0.7:
            return w.fresh("hex", rng.choice([1, 2, 8, 32, 40, 127]))
        if c < 0.85 and pos == "v":
            return w.jid(rstr("u") if rng.random() < 0.8 else w.fresh("raw", 6), rng.choice([w.tok1(8), w.fresh("raw", 4), w.tok2(rng.randint(0, 1023))]))
        if c < 0.9:
            return w.fresh("raw", rng.choice([2, 4, 8, 12, 32]), near=rng.choice(["lowerhex", "mixed", "adjacent"]))
        return w.fresh("raw", rng.choice([1, 3, 7, 20, 255, 256, 400]))

    def rtree(depth):
        attrs = []
        seen = set()
        for _ in range(rng.choice([0, 1, 2, 3, 6])):
            k = rstr("k")
            kt = w.text(k)
            if kt in seen:
                continue
            seen.add(kt)
            attrs.append((k, rstr("v")))
        c = rng.random()
        if depth > 0 and c < 0.45:
            return T(rstr("t"), attrs, kids=[rtree(depth - 1) for _ in range(rng.choice([1, 2, 3]))])
        if c < 0.75:
            return T(rstr("t"), attrs, bin=w.blob(rng.choice([0, 1, 16, 255, 256, 1000])))
        return T(rstr("t"), attrs)
    for _ in range(1500 if thorough else 250):
        cases.append(rtree(2))
    return cases


def abstract_from_node(world, node, problems, path="/"):
    """Concrete ProtocolTreeNode -> abstract tree of WireFormat.tla (strings classified against the REFERENCE dictionary).
    Values the format cannot carry (non-str attributes, None, empty strings, non-Latin-1, non-bytes data) are reported in `problems`."""
    p1 = {w: i for i, w in enumerate(world.primary) if i >= 3}
    p2 = {w: i for i, w in enumerate(world.secondary)}

    def S_(s, where):
        if type(s) is not str:
            problems.append("%s: %s is %s %r, not str" % (path + getattr(node, "tag", "?"), where, type(s).__name__, s))
            return None
        if s == "" or s in ("xmlstreamstart", "xmlstreamend"):
            problems.append("%s: %s is %r which the format cannot carry" % (path + node.tag, where, s))
            return None
        try:
            s.encode("latin-1")
        except UnicodeEncodeError:
            problems.append("%s: %s %r is outside the byte range" % (path + node.tag, where, s[:30]))
            return None
        if s in p1:
            return world.tok1(p1[s])
        if s in p2:
            return world.tok2(p2[s])
        at = s.find("@")
        if at >= 1:
            if at == len(s) - 1:
                problems.append("%s: %s %r ends in '@'" % (path + node.tag, where, s))
                return None
            u, sv = S_(s[:at], where), S_(s[at + 1:], where)
            return None if u is None or sv is None else world.jid(u, sv)
        cls = "nib" if all(ch in NIB for ch in s) else ("hex" if all(ch in HEX for ch in s) else "raw")
        world.n += 1
        ref = "x%d_%d" % (world.n, len(s))
        world.content[ref] = s
        return S(cls, 0, ref, len(s))
    tag = S_(node.tag, "tag")
    attrs = []
    for k, v in node.attributes.items():
        ak, av = S_(k, "attribute name"), S_(v, "attribute %s" % k)
        if ak is None or av is None:
            return None
        attrs.append((ak, av))
    if tag is None:
        return None
    kids = None
    data = None
    if node.data is not None:
        if type(node.data) is not bytes:
            problems.append("%s: data is %s, not bytes" % (path + node.tag, type(node.data).__name__))
            return None
        if node.children:
            problems.append("%s: both data and children" % (path + node.tag))
            return None
        world.n += 1
        ref = "d%d_%d" % (world.n, len(node.data))
        world.content[ref] = node.data
        data = S("raw", 0, ref, len(node.data))
    elif node.children:
        kids = []
        for c in node.children:
            k = abstract_from_node(world, c, problems, path + node.tag + "/")
            if k is None:
                return None
            kids.append(k)
    return T(tag, attrs, bin=data, kids=kids)
