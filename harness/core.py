"""Shared machinery: scratch dirs, TLC driver, edge-graph parsing, evidence, findings, verdicts."""
import json, os, re, shutil, subprocess, sys, tempfile, time, random

VERIF = os.path.dirname(os.path.dirname(os.path.abspath(__file__)))
SPEC = os.path.join(VERIF, "spec")
REPO = os.environ.get("VERIF_REPO", "/repo")
JAR = "/opt/veriftools/tla/tla2tools.jar"
COMMUNITY = None


class MachineryError(Exception):
    pass


class TooManyViolations(BaseException):
    """Raised to cut a run short once enough violations are recorded; the run still finishes with exit 1."""
    pass


def seed():
    try:
        return int(os.environ.get("VERIF_SEED", "0"))
    except ValueError:
        return 0


class Scratch(object):
    """Per-run scratch directory, removed at exit."""
    def __init__(self, tag):
        self.path = tempfile.mkdtemp(prefix="verif_%s_" % tag)

    def sub(self, name):
        p = os.path.join(self.path, name)
        os.makedirs(p, exist_ok=True)
        return p

    def cleanup(self):
        shutil.rmtree(self.path, ignore_errors=True)


# ------------------------------------------------------------------ TLC

_STATS = re.compile(r"(\d+) states generated, (\d+) distinct states found")


class TLCResult(object):
    def __init__(self, out, rc, wall):
        self.out = out
        self.rc = rc
        self.wall = wall
        m = None
        for m in _STATS.finditer(out):
            pass
        self.generated = int(m.group(1)) if m else 0
        self.distinct = int(m.group(2)) if m else 0
        self.violated = re.findall(r"Error: Invariant (\S+) is violated", out)
        self.violated += re.findall(r"Error: Action property (\S+) is violated", out)
        self.violated += re.findall(r"Error: Temporal property (\S+) was violated", out)
        if "Temporal properties were violated" in out:
            self.violated.append("temporal")
        if re.search(r"Error: Deadlock reached", out):
            self.violated.append("deadlock")
        if re.search(r"Assumption .* is false", out):
            self.violated.append("assume")
        if "The postcondition is false" in out or re.search(r"Error: Postcondition", out):
            self.violated.append("postcondition")
        self.finished = "Model checking completed" in out or "Finished in" in out
        self.errors = [l for l in out.splitlines() if l.startswith("Error:")]

    @property
    def clean(self):
        return self.finished and not self.violated and not self.errors

    def printed(self):
        """Values printed with PrintT(ToJson(..)): lines that are quoted JSON strings."""
        res = []
        for line in self.out.splitlines():
            line = line.strip()
            if line.startswith('"{') or line.startswith('"['):
                try:
                    res.append(json.loads(json.loads(line)))
                except ValueError:
                    pass
        return res

    def coverage(self):
        """Action name -> (distinct, total) from -coverage output."""
        cov = {}
        for m in re.finditer(r"<(\w+) line \d+, col \d+ to line \d+, col \d+ of module (\w+)>: (\d+):(\d+)", self.out):
            name = m.group(1)
            d, t = int(m.group(3)), int(m.group(4))
            od, ot = cov.get(name, (0, 0))
            cov[name] = (max(od, d), max(ot, t))
        return cov


def tlc(module, cfg, scratch, workers=1, env=None, timeout=600, simulate=None, depth=None,
        coverage=False, deque=False, extra=(), spec_dir=SPEC, seed_=None):
    """Run TLC on spec_dir/module.tla with spec_dir/cfg; return TLCResult."""
    meta = tempfile.mkdtemp(prefix="meta_", dir=scratch.path)
    # same as the `tlc` wrapper on PATH, plus a deep stack for RECURSIVE operators (the launcher only honours
    # -Xss for the main thread when it is on the command line)
    cmd = ["java", "-Xss512m", "-XX:+UseParallelGC", "-Djava.io.tmpdir=%s" % meta, "-cp",
           "/opt/veriftools/tla/tla2tools.jar:/opt/veriftools/tla/CommunityModules-deps.jar", "tlc2.TLC"]
    e = dict(os.environ)
    if deque:
        e["JAVA_TOOL_OPTIONS"] = (e.get("JAVA_TOOL_OPTIONS", "") + " -Dtlc2.tool.queue.IStateQueue=StateDeque").strip()
    if env:
        e.update(env)
    cmd += ["-workers", str(workers), "-metadir", meta, "-noGenerateSpecTE", "-config", cfg]
    if simulate:
        cmd += ["-simulate", simulate]
    if depth:
        cmd += ["-depth", str(depth)]
    if seed_ is not None:
        cmd += ["-seed", str(seed_)]
    if coverage:
        cmd += ["-coverage", "1"]
    cmd += list(extra)
    cmd.append(module)
    t0 = time.time()
    try:
        p = subprocess.run(cmd, cwd=spec_dir, env=e, stdout=subprocess.PIPE, stderr=subprocess.STDOUT,
                           timeout=timeout)
        out = p.stdout.decode("utf-8", "replace")
        rc = p.returncode
    except subprocess.TimeoutExpired as ex:
        out = (ex.stdout or b"").decode("utf-8", "replace") + "\nTIMEOUT"
        rc = -9
        subprocess.run(["pkill", "-f", meta], stdout=subprocess.DEVNULL, stderr=subprocess.DEVNULL)
    shutil.rmtree(meta, ignore_errors=True)
    res = TLCResult(out, rc, time.time() - t0)
    res.rerun = lambda w=None: tlc(module, cfg, scratch, w or workers, env, timeout, simulate, depth, coverage, deque, extra, spec_dir, seed_)
    return res


def must_clean(res, what):
    if not res.clean and not res.violated and hasattr(res, "rerun"):
        res = res.rerun()          # a run that neither completed nor reported a violation (JVM / file-system hiccup): once more
    if not res.clean:
        tail = "\n".join(res.out.splitlines()[-40:])
        raise MachineryError("TLC not clean on %s (violated=%s)\n%s" % (what, res.violated, tail))
    return res


def must_violate(res, inv, what):
    """Self-test: the as-read deviation switch must make TLC report `inv`."""
    if inv not in res.violated and hasattr(res, "rerun"):
        # no usable result - or, with several workers, ANOTHER of the configuration's invariants was reported first (which one TLC meets
        # first is a race between its workers): once more with one worker, whose search order is fixed
        res = res.rerun(1)
    if inv not in res.violated:
        tail = "\n".join(res.out.splitlines()[-30:])
        raise MachineryError("self-test: TLC did not report %s on %s\n%s" % (inv, what, tail))
    return res


# ------------------------------------------------------------------ graphs from edge dumps

class Graph(object):
    """Labelled state graph rebuilt from {from, act, to} edge records."""
    def __init__(self, edges, inits=None):
        self.ids = {}
        self.states = []
        self.edges = []      # (src, act, dst)
        self.out = {}
        seen = set()
        for e in edges:
            s = self._id(e["from"])
            d = self._id(e["to"])
            key = (s, json.dumps(e["act"], sort_keys=True), d)
            if key in seen:
                continue
            seen.add(key)
            self.edges.append((s, e["act"], d))
            self.out.setdefault(s, []).append(len(self.edges) - 1)
        self.inits = [self._id(i) for i in inits] if inits else ([0] if self.states else [])

    def _id(self, st):
        k = json.dumps(st, sort_keys=True)
        if k not in self.ids:
            self.ids[k] = len(self.states)
            self.states.append(st)
        return self.ids[k]

    def transition_cover(self, rng=None, max_len=10 ** 9, tail=0):
        """Init-rooted paths that together take every edge at least once (greedy DFS tours).  tail: after its last covered edge every path
        walks on for up to `tail` random steps - a step whose effect the implementation shows only later (a self-loop of the specification
        that corrupts hidden state of the code) is then still followed by observations."""
        from collections import deque
        # BFS tree from inits for shortest prefixes
        prev = {}
        dq = deque()
        for i in self.inits:
            prev[i] = None
            dq.append(i)
        while dq:
            s = dq.popleft()
            for ei in self.out.get(s, []):
                d = self.edges[ei][2]
                if d not in prev:
                    prev[d] = ei
                    dq.append(d)

        def prefix(s):
            p = []
            while prev.get(s) is not None:
                ei = prev[s]
                p.append(ei)
                s = self.edges[ei][0]
            p.reverse()
            return p
        uncovered = set(i for i, e in enumerate(self.edges) if e[0] in prev)
        paths = []
        order = sorted(uncovered)
        if rng:
            rng.shuffle(order)
        for ei in order:
            if ei not in uncovered:
                continue
            path = prefix(self.edges[ei][0]) + [ei]
            uncovered.discard(ei)
            for x in path:
                uncovered.discard(x)
            # extend greedily through uncovered edges
            cur = self.edges[ei][2]
            while len(path) < max_len:
                nxt = [x for x in self.out.get(cur, []) if x in uncovered]
                if not nxt:
                    break
                x = nxt[0] if not rng else rng.choice(nxt)
                path.append(x)
                uncovered.discard(x)
                cur = self.edges[x][2]
            if tail and rng:
                for _ in range(tail):
                    o = self.out.get(cur, [])
                    if not o:
                        break
                    x = rng.choice(o)
                    path.append(x)
                    cur = self.edges[x][2]
            paths.append(path)
        return paths

    def random_walks(self, n, depth, rng):
        walks = []
        for _ in range(n):
            cur = rng.choice(self.inits)
            p = []
            for _ in range(depth):
                o = self.out.get(cur, [])
                if not o:
                    break
                x = rng.choice(o)
                p.append(x)
                cur = self.edges[x][2]
            walks.append(p)
        return walks

    def path_steps(self, path):
        """[(act, to_state)] with the init state first."""
        if not path:
            return None, []
        init = self.states[self.edges[path[0]][0]]
        return init, [(self.edges[i][1], self.states[self.edges[i][2]]) for i in path]


# ------------------------------------------------------------------ findings

def load_findings(pid):
    p = os.path.join(VERIF, "findings", "known_findings.json")
    if not os.path.exists(p):
        return []
    data = json.load(open(p))
    return [f for f in data.get("known", []) if f["property"] == pid]


# ------------------------------------------------------------------ result / evidence

CURRENT = None


class Run(object):
    """Collects the verdict of one check run and writes evidence."""
    def __init__(self, pid, level):
        self.pid = pid
        self.level = level
        self.tier = os.environ.get("VERIF_TIER", "quick")
        self.t0 = time.time()
        self.violations = []       # (signature, description, replay dict)
        self.known_hits = {}
        self.cov = {"evaluations": 0, "distinct_nontrivial": 0, "rule": "", "samples": [],
                    "states": 0, "transitions": 0, "traces_validated_against_impl": 0}
        self.assumptions = []
        self.scratch = Scratch(pid)
        self.known = load_findings(pid)
        self._distinct = set()
        self.notes = {}
        self.max_violations = 300
        self._sigcount = {}
        global CURRENT
        CURRENT = self
        self._start_watchdog()

    def _start_watchdog(self):
        import threading
        limit = float(os.environ.get("VERIF_WATCHDOG_S", "1500" if self.tier == "quick" else "14000"))

        def fire():
            # On the unchanged tree every check finishes far inside this limit; an overrun means the
            # implementation under test hangs or blows up (e.g. layers wired into a cycle).
            self.violations.append(("watchdog:timeout", "check did not finish within %.0f s: the code under test hangs or "
                                    "blows up on a case the specification says terminates" % limit, {"limit_s": limit}))
            try:
                self.finish()
            finally:
                sys.stdout.flush()
                os._exit(1)
        t = threading.Timer(limit, fire)
        t.daemon = True
        t.start()
        self._watchdog = t

    def add_tlc(self, res):
        self.cov["states"] += res.distinct
        self.cov["transitions"] += res.generated

    def case(self, key=None, nontrivial=True):
        self.cov["evaluations"] += 1
        if nontrivial and key is not None:
            self._distinct.add(key)

    def sample(self, s, cap=6):
        if len(self.cov["samples"]) < cap:
            self.cov["samples"].append(s)

    def violation(self, signature, description, replay):
        """signature: stable string identifying what fails (matched against known findings)."""
        for f in self.known:
            if re.search(f["match"], signature):
                self.known_hits.setdefault(f["id"], [f, 0])
                self.known_hits[f["id"]][1] += 1
                return False
        n = self._sigcount.get(signature, 0) + 1
        self._sigcount[signature] = n
        if n <= 12:
            self.violations.append((signature, description, replay))
        if len(self.violations) >= self.max_violations or sum(self._sigcount.values()) >= 20 * self.max_violations:
            raise TooManyViolations()
        return True

    def finish(self):
        try:
            self._watchdog.cancel()
        except Exception:
            pass
        self.cov["distinct_nontrivial"] = len(self._distinct)
        rdir = os.path.join(VERIF, "replays", self.pid + ("_dev" if os.environ.get("VERIF_DEVRUN") else ""))
        if os.path.isdir(rdir):
            for old in os.listdir(rdir):          # replay files of earlier runs do not describe this run
                if old.startswith("violation_") and old.endswith(".json"):
                    try:
                        os.unlink(os.path.join(rdir, old))
                    except OSError:
                        pass
        for f, n in self.known_hits.values():
            print("KNOWN-FINDING: property=%s %s (%d occurrences this run)" % (self.pid, f["what"], n))
        if self.violations:
            os.makedirs(rdir, exist_ok=True)
            seen = set()
            firsts, rest = [], []
            for v in self.violations:
                (rest if v[0] in seen else firsts).append(v)
                seen.add(v[0])
            seen = set()
            for i, (sig, desc, rep) in enumerate((firsts + rest)[:40]):
                path = os.path.join(rdir, "violation_%d.json" % i)
                with open(path, "w") as fh:
                    json.dump({"property": self.pid, "signature": sig, "description": desc, "seed": seed(),
                               "tier": self.tier, "replay": rep}, fh, indent=1, default=repr)
                if sig not in seen:
                    seen.add(sig)
                    print("VIOLATION property=%s replay=%s  # %s: %s" % (self.pid, path, sig, desc[:300]))
        ev = {"property_id": self.pid, "tier": self.tier, "seed": seed(), "level": self.level,
              "coverage": self.cov, "assumptions": self.assumptions, "wall_s": round(time.time() - self.t0, 2),
              "violations": sum(self._sigcount.values())}
        if self._sigcount:
            ev["coverage"]["violation_signatures"] = dict(sorted(self._sigcount.items()))
        ev["coverage"].update(self.notes)
        if not os.environ.get("VERIF_DEVRUN"):        # development runs (tools/anchor_coverage.py) leave the evidence alone
            os.makedirs(os.path.join(VERIF, "evidence"), exist_ok=True)
            with open(os.path.join(VERIF, "evidence", self.pid + ".json"), "w") as fh:
                json.dump(ev, fh, indent=1, default=repr)
        self.scratch.cleanup()
        print("%s tier=%s seed=%d evaluations=%d distinct=%d states=%d traces=%d violations=%d known=%d wall=%.1fs" % (
            self.pid, self.tier, seed(), self.cov["evaluations"], self.cov["distinct_nontrivial"], self.cov["states"],
            self.cov["traces_validated_against_impl"], sum(self._sigcount.values()), len(self.known_hits), time.time() - self.t0))
        return 1 if self.violations else 0


ENV_ASSUMPTIONS = [
    "six 1.17.0 from the offline wheelhouse is put ahead of /venv's six 1.10.0 (which cannot import six.moves on Python 3.12) via /verif/.deps",
    "consonance 0.1.5 random.randint float-bounds incompatibility with Python 3.12 is shimmed in the harness process",
]


def setup_imports():
    """Make /repo's working tree and the harness dependencies importable; apply environment shims."""
    deps = os.path.join(VERIF, ".deps")
    for p in (REPO, deps):
        if p in sys.path:
            sys.path.remove(p)
    sys.path.insert(0, REPO)
    sys.path.insert(0, deps)
    sys.dont_write_bytecode = True
    import logging
    logging.disable(logging.CRITICAL)
    logging.getLogger("yowsup.axolotl.manager").setLevel(logging.WARNING)   # its progress output goes to stdout when the level is NOTSET


def shim_consonance():
    import random as _r
    import consonance.handshake as h

    class _R(object):
        def __getattr__(self, n):
            return getattr(_r, n)

        def randint(self, a, b):
            return _r.randint(int(a), int(b))
    h.random = _R()


def drain_detached(execute=False):
    """Take what is pending in the stack's deferred-callback queue (a class-level attribute, shared by all stacks of the process), oldest
    first, whatever container holds it; optionally run the callbacks.  Used to start a case from an empty queue / to play the stack loop."""
    import yowsup.stacks.yowstack as ys
    q = getattr(ys.YowStack, "_YowStack__detachedQueue", None)
    items = []
    if q is None:
        return items
    if hasattr(q, "qsize") and hasattr(q, "get"):
        while q.qsize():
            items.append(q.get(False))
    else:
        try:
            while True:
                items.append(q.popleft() if hasattr(q, "popleft") else q.pop(0))
        except IndexError:
            pass
    if execute:
        for f in items:
            f()
    return items
