"""Scratch cross-check of the catalogue METADATA (layer, module, reaches_top, reaction, iq_reply holder)
against the real protocol layers, each layer instantiated standalone with captured toUpper/toLower.
Run: PYTHONPATH=/verif/.deps:/repo /venv/bin/python /verif/harness/catalogue_selftest.py [seeds]
"""
from __future__ import print_function
import random
import sys
import logging

import catalogue as C

logging.disable(logging.CRITICAL)

from yowsup.stacks.yowstack import YowStackBuilder  # noqa

MODULE_OF = {"YowGroupsProtocolLayer": "groups", "YowMediaProtocolLayer": "media",
             "YowPrivacyProtocolLayer": "privacy", "YowProfilesProtocolLayer": "profiles"}


class FakeStack(object):
    def __init__(self):
        self.props = {"org.openwhatsapp.yowsup.prop.pinginterval": 0}
        self.events = []

    def getProp(self, k, d=None):
        return self.props.get(k, d)

    def setProp(self, k, v):
        self.props[k] = v

    def broadcastEvent(self, ev):
        self.events.append(ev)


class Group(object):
    """All protocol layers, standalone, sharing up/down sinks."""
    def __init__(self, **mods):
        self.up, self.down = [], []
        self.layers = []
        for cls in YowStackBuilder.getProtocolLayers(**mods):
            l = cls()
            l.setStack(FakeStack())
            l.toUpper = lambda d, _l=l: self.up.append((_l.__class__.__name__, d))
            l.toLower = lambda d, _l=l: self.down.append((_l.__class__.__name__, d))
            l.broadcastEvent = lambda ev: None
            l.emitEvent = lambda ev: None
            self.layers.append(l)

    def receive(self, node):
        errs = []
        for l in self.layers:
            try:
                l.receive(node)
            except Exception as exc:  # noqa
                errs.append((l.__class__.__name__, exc))
        return errs

    def send(self, entity):
        errs = []
        for l in self.layers:
            try:
                l.send(entity)
            except Exception as exc:  # noqa
                errs.append((l.__class__.__name__, exc))
        return errs

    def holders(self, _id):
        return [l.__class__.__name__ for l in self.layers if _id in l.iqRegistry]

    def clear(self):
        del self.up[:]
        del self.down[:]


def main(seeds):
    problems = []

    def bad(kind, seed, what):
        problems.append("%s seed %d: %s" % (kind.name, seed, what))

    for kind in C.KINDS:
        for seed in range(seeds):
            for absent in (False, True):
                if absent and not kind.module:
                    continue
                mods = {"groups": True, "media": True, "privacy": True, "profiles": True}
                if absent:
                    mods[kind.module] = False
                g = Group(**mods)
                if kind.direction == "in":
                    req = None
                    if kind.solicited_by:
                        rk = C.BY_NAME[kind.solicited_by]
                        req = rk.make_entity(random.Random(seed + 1000))
                        g.send(req)
                        g.clear()
                    node = kind.make_node(random.Random(seed), request=req)
                    errs = g.receive(node)
                    if errs:
                        if not kind.raises or type(errs[0][1]).__name__ != kind.raises:
                            bad(kind, seed, "layer raised %r" % (errs,))
                        continue
                    elif kind.raises and not absent:
                        bad(kind, seed, "expected %s, none raised" % kind.raises)
                    want_up = 1 if (kind.reaches_top and not absent) else 0
                    if len(g.up) != want_up:
                        bad(kind, seed, "absent=%s: %d entities at top %s, expected %d" % (
                            absent, len(g.up), [(a, type(b).__name__) for a, b in g.up], want_up))
                    elif want_up:
                        lname, ent = g.up[0]
                        if lname != kind.layer:
                            bad(kind, seed, "claimed by %s, catalogue says %s" % (lname, kind.layer))
                        if not isinstance(ent, C.load_class(kind.entity_class)):
                            bad(kind, seed, "entity %s is not a %s" % (type(ent).__name__, kind.entity_class))
                    want_down = kind.reaction(node) if kind.reaction else []
                    if absent and kind.reaction_layer and MODULE_OF.get(kind.reaction_layer) == kind.module:
                        want_down = []
                    got_down = [d for _, d in g.down]
                    if len(got_down) != len(want_down):
                        bad(kind, seed, "absent=%s: %d stanzas down, expected %d" % (absent, len(got_down), len(want_down)))
                    else:
                        for (lname, got), want in zip(g.down, want_down):
                            d, n = C.node_diff(got, want)
                            if d:
                                bad(kind, seed, "reaction differs: %s" % d)
                            if kind.reaction_layer and lname != kind.reaction_layer:
                                bad(kind, seed, "reaction sent by %s, catalogue says %s" % (lname, kind.reaction_layer))
                else:
                    ent = kind.make_entity(random.Random(seed))
                    errs = g.send(ent)
                    if errs:
                        bad(kind, seed, "layer raised %r" % (errs,))
                        continue
                    want = 0 if absent else 1
                    if len(g.down) != want:
                        bad(kind, seed, "absent=%s: %d stanzas at bottom (%s), expected %d" % (
                            absent, len(g.down), [a for a, _ in g.down], want))
                        continue
                    if not want:
                        continue
                    lname, node = g.down[0]
                    if lname != kind.layer:
                        bad(kind, seed, "sent by %s, catalogue says %s" % (lname, kind.layer))
                    d, n = C.node_diff(node, kind.make_node(random.Random(seed)))
                    if d:
                        bad(kind, seed, "bottom stanza differs: %s" % d)
                    if kind.iq_reply:
                        rep = kind.iq_reply
                        holders = g.holders(ent.getId())
                        if holders != ([rep["holder"]] if rep["holder"] else []):
                            bad(kind, seed, "iqRegistry holders %s, catalogue says %s" % (holders, rep["holder"]))
                        for which in ("result", "error"):
                            g2 = Group(**mods)
                            g2.send(kind.make_entity(random.Random(seed)))
                            g2.clear()
                            errs = g2.receive(rep[which](random.Random(seed), ent))
                            if errs:
                                bad(kind, seed, "%s reply: layer raised %r" % (which, errs))
                                continue
                            want_up = 1 if (which == "result" or rep["holder_has_error_cb"]) else 0
                            if len(g2.up) != want_up:
                                bad(kind, seed, "%s reply: %d at top, expected %d" % (which, len(g2.up), want_up))
                            elif want_up:
                                cname = rep["result_entity_class"] if which == "result" else rep["error_entity_class"]
                                if type(g2.up[0][1]).__name__ != cname.rsplit(".", 1)[1]:
                                    bad(kind, seed, "%s reply surfaced as %s, catalogue says %s" % (
                                        which, type(g2.up[0][1]).__name__, cname))
                            if g2.holders(ent.getId()):
                                bad(kind, seed, "%s reply: request still registered" % which)
    seen = set()
    for p in problems:
        key = p.split(" seed ")[0] + p.split(": ", 1)[1][:60]
        if key in seen:
            continue
        seen.add(key)
        print(p[:400])
    print("%d problems (%d distinct)" % (len(problems), len(seen)))


if __name__ == "__main__":
    main(int(sys.argv[1]) if len(sys.argv) > 1 else 5)
