"""The REAL network layer and connection dispatchers (socket and asyncore) over a loopback TCP connection against a scripted peer.
Every other check replaces the dispatcher by a double; this rig binds the doubles' contract (spec/NetLayer.tla) to the real code:
each scenario is recorded as a sequence of events (requests from above, announcements and data going up, what the peer did and got)
and validated by TLC against NetLayer_Trace.tla.

Threads: the connect request runs on its own thread (both dispatchers serve the connection on the thread that asked for it); the driver
and the peer run on the caller's thread.  Events from all threads are appended under one lock, so the trace is a total order that respects
each thread's program order; the trace specification accepts every interleaving the contract allows.  All waits are for monotone
conditions with a generous timeout that is only ever reached when something is wrong."""
import json, os, random, socket, struct, threading, time
from harness import core

WAIT = float(os.environ.get("VERIF_NET_WAIT_S", "30"))
BLOCK = 65521
SIZES = {"tiny": (1, 1), "small": (2, 1200), "chunk": (1024, 1024), "medium": (5000, 70000), "large": (300000, 2500000), "block": (50000, 90000)}


class Stream(object):
    """A reproducible byte stream whose content at any offset can be recomputed."""
    def __init__(self, seed):
        self.block = random.Random(repr(seed)).randbytes(BLOCK)

    def take(self, offset, n):
        out = bytearray()
        while n > 0:
            o = offset % BLOCK
            part = self.block[o:o + n]
            out += part
            offset += len(part)
            n -= len(part)
        return bytes(out)


class Rig(object):
    N = 0

    def __init__(self, kind, via_event):
        from yowsup.layers import YowLayer, YowLayerEvent
        from yowsup.layers.network import YowNetworkLayer
        from yowsup.stacks import YowStack
        Rig.N += 1
        rig = self
        self.kind, self.via_event = kind, via_event
        self.lock = threading.Lock()
        self.cond = threading.Condition(self.lock)
        self.events = []
        self.errors = []
        self.k = 0                # connections attempted
        self.up_total = 0         # bytes delivered upward on the current connection
        self.anns = []
        self.s2c = self.c2s = None
        self.peer = None          # accepted socket
        self.peer_got = 0
        self.peer_sent = 0
        self.client_sent = 0
        self.threads = []
        self.poison = False       # the next data handed upward makes the layers above fail
        self.NL, self.Ev = YowNetworkLayer, YowLayerEvent

        class Top(YowLayer):
            def receive(self, data):
                rig.on_up(bytes(data))

            def send(self, data):
                self.toLower(data)

            def onEvent(self, ev):
                # nothing above: do not defer the rest of an upward walk to the stack loop (requests on their way down pass)
                return rig.on_event(ev)

        self.stack = YowStack((YowNetworkLayer, Top), reversed=False)
        self.net = self.stack.getLayer(0)
        self.top = self.stack.getLayer(1)
        self.stack.setProp(YowNetworkLayer.PROP_DISPATCHER, YowNetworkLayer.DISPATCHER_SOCKET if kind == "socket" else YowNetworkLayer.DISPATCHER_ASYNCORE)
        self.listener = None

    # ------------------------------------------------------------------ recording
    def _state(self):
        return {"st": ["down", "connecting", "up", "closing"][self.net.state], "cn": 1 if self.net.connected else 0}

    def log(self, e, locked=False, **kw):
        kw["e"] = e
        kw.setdefault("n", 0)
        kw.setdefault("ok", 1)
        kw.setdefault("what", "")
        kw.update(self._state())
        if locked:
            self.events.append(kw)
            self.cond.notify_all()
        else:
            with self.cond:
                self.events.append(kw)
                self.cond.notify_all()

    def on_up(self, data):
        with self.cond:
            ok = self.s2c is not None and data == self.s2c.take(self.up_total, len(data))
            self.up_total += len(data)
            self.log("Up", True, n=len(data), ok=1 if ok else 0)
            if self.poison and data:
                self.poison = False
                self.log("UpRaised", True)
                raise RuntimeError("verif: the layers above fail on this data")

    def on_event(self, ev):
        name = ev.getName()
        if name == self.NL.EVENT_STATE_CONNECTED:
            with self.cond:
                self.anns.append("connected")
                self.log("Ann", True, what="connected")
            return True
        elif name == self.NL.EVENT_STATE_DISCONNECTED:
            with self.cond:
                self.anns.append("disconnected")
                self.log("Ann", True, what="disconnected")
            return True
        return False

    def wait(self, pred, what):
        """Wait for a monotone condition; False (and a note) when it does not come true in time."""
        end = time.time() + WAIT
        with self.cond:
            while not pred():
                left = end - time.time()
                if left <= 0:
                    return False
                self.cond.wait(min(left, 0.05))
        return True

    # ------------------------------------------------------------------ requests from above
    def connect(self, listens, slow=False):
        """A connect request; the peer listens or refuses.  Returns once the outcome is visible (accepted / announced down)."""
        self.k += 1
        self.up_total = self.peer_got = self.peer_sent = self.client_sent = 0
        self.s2c, self.c2s = Stream(("s2c", Rig.N, self.k)), Stream(("c2s", Rig.N, self.k))
        self.peer = None
        ls = socket.socket()
        ls.bind(("127.0.0.1", 0))
        addr = ls.getsockname()
        if listens:
            if slow:
                # a peer with a small receive window: the client's socket soon takes only part of what it is given
                ls.setsockopt(socket.SOL_SOCKET, socket.SO_RCVBUF, 4096)
            ls.listen(1)
            self.listener = ls
        else:
            ls.close()          # nobody listens on that port any more: the connection is refused
            self.listener = None
        self.stack.setProp(self.NL.PROP_ENDPOINT, addr)
        self.log("ConnectReq", what="listens" if listens else "refuses")
        nann = len(self.anns)

        def run():
            try:
                if self.via_event:
                    self.stack.broadcastEvent(self.Ev(self.NL.EVENT_STATE_CONNECT))
                else:
                    self.net.getLayerInterface().connect()
            except BaseException as ex:
                self.log("ConnectRaised", what=type(ex).__name__)
                return
            self.log("ConnectReturned")
        t = threading.Thread(target=run, name="verif-connect-%d" % self.k)
        t.daemon = True
        t.start()
        self.threads.append(t)
        if listens:
            ls.settimeout(WAIT)
            try:
                self.peer, _ = ls.accept()
            except socket.timeout:
                self.errors.append("the peer saw no connection")
                return False
            finally:
                ls.close()
            self.peer.setsockopt(socket.IPPROTO_TCP, socket.TCP_NODELAY, 1)
            self.peer.settimeout(0.05)
            return self.wait(lambda: len(self.anns) > nann, "announcement of the connection")
        return self.wait(lambda: len(self.anns) > nann, "announcement of the refused connection")

    def send(self, n):
        data = self.c2s.take(self.client_sent, n) if self.net.connected else b"\x00" * n
        counted = self.net.connected
        self.log("Send", n=n)
        if counted:
            self.client_sent += n
        failed = []

        def call():
            try:
                self.top.send(data)
            except BaseException as ex:
                failed.append(ex)
                self.log("SendRaised", what=type(ex).__name__)
        if self.kind == "socket" and counted and n >= 32768 and self.peer is not None:
            # a blocking socket takes a large send only as fast as the peer reads: the peer reads while the call is in progress
            t = threading.Thread(target=call, name="verif-send")
            t.daemon = True
            t.start()
            t.join(0.05)     # the peer is slow to read: a send that returns although the socket took only part of it shows as lost bytes
            end = time.time() + WAIT
            while t.is_alive() and time.time() < end:
                if self.peer_read() != "ok":
                    break
            t.join(WAIT)
            if t.is_alive():
                self.errors.append("a send of %d bytes never returned" % n)
        else:
            call()

    def disconnect(self):
        self.log("DisconnectReq")
        try:
            self.stack.broadcastEvent(self.Ev(self.NL.EVENT_STATE_DISCONNECT))
        except BaseException as ex:
            self.log("DisconnectRaised", what=type(ex).__name__)

    # ------------------------------------------------------------------ the peer
    def peer_send(self, n):
        data = self.s2c.take(self.peer_sent, n)
        self.log("PeerSend", n=n)
        self.peer_sent += n
        self.peer.settimeout(WAIT)
        try:
            self.peer.sendall(data)
        except (socket.error, socket.timeout) as ex:
            self.log("PeerSendFailed", what=type(ex).__name__)
        finally:
            try:
                self.peer.settimeout(0.05)
            except socket.error:
                pass

    def peer_read(self, until=None, eof_closes=True):
        """Read what has arrived (until: wait for that many bytes in total).  Returns 'eof' when the client's side is closed."""
        end = time.time() + WAIT
        while True:
            try:
                data = self.peer.recv(1 << 16)
            except socket.timeout:
                data = None
            except socket.error as ex:
                self.log("PeerSawError", what=type(ex).__name__)
                return "error"
            if data == b"":
                self.log("PeerSawEOF")
                return "eof"
            if data:
                ok = data == self.c2s.take(self.peer_got, len(data))
                self.peer_got += len(data)
                self.log("PeerGot", n=len(data), ok=1 if ok else 0)
                continue
            if until is None or self.peer_got >= until or time.time() > end:
                return "ok" if until is None or self.peer_got >= until else "short"

    def peer_close(self, reset=False):
        if reset:
            self.peer.setsockopt(socket.SOL_SOCKET, socket.SO_LINGER, struct.pack("ii", 1, 0))
        # closing a socket while bytes of the other side are unread (or still on their way) makes TCP answer with a reset instead of an
        # orderly end of stream: such a close is recorded as what it is on the wire
        unread = self.client_sent > self.peer_got
        self.log("PeerReset" if (reset or unread) else "PeerClose")
        self.peer.close()

    def finish(self):
        """Make sure nothing of this rig is left running (the asyncore loop of a closed connection ends within its poll timeout)."""
        for t in self.threads:
            t.join(WAIT)
            if t.is_alive():
                self.errors.append("the thread that served connection request %s is still running" % t.name)
        for s in (self.peer, self.listener):
            try:
                if s is not None:
                    s.close()
            except socket.error:
                pass


def run_scenario(kind, script, rng, via_event=True):
    """script: list of steps
         ["connect", listens]      ["send", size class]       ["peer-send", size class]
         ["disconnect"]            ["peer-close"]             ["peer-reset"]
         ["sync"]                  wait until both directions have caught up (or the connection is over)
       After the script the connection is brought to an end (if it is not) and the world is left quiescent.
       Returns (events, errors)."""
    r = Rig(kind, via_event)
    up_conn = False         # a connection was accepted and no end cause was applied yet

    def size(cls):
        lo, hi = SIZES[cls]
        return rng.randint(lo, hi)

    def settle(final=False):
        """Both directions catch up; the end of a connection that is over is awaited."""
        if r.peer is None:
            return
        if up_conn:
            res = r.peer_read(until=r.client_sent)
            if res == "short":
                r.log("Quiet", what="peer-short")
            r.wait(lambda: r.up_total >= r.peer_sent or not r.net.connected, "upward delivery")
        r.log("Quiet", what="open" if up_conn else "over")

    def await_down():
        nonlocal up_conn
        # the peer, like the server, closes its side when the client closes its own; then the end must be announced
        got_down = r.wait(lambda: not r.net.connected and r.net.state == 0, "the end of the connection")
        r.log("Quiet", what="over" if got_down else "never-down")
        # the blocking connect request returns once the connection is over
        t = r.threads[-1]
        t.join(WAIT)
        if t.is_alive():
            r.log("Quiet", what="connect-call-never-returns")

    try:
        for step in script:
            op = step[0]
            if op == "connect":
                if r.net.state != 0 or (r.threads and r.threads[-1].is_alive()):
                    continue
                ok = r.connect(step[1], slow=(len(step) > 2 and step[2] == "slow"))
                up_conn = bool(step[1]) and ok and r.peer is not None
                if not step[1]:
                    await_down()
            elif op == "send":
                r.send(size(step[1]))
            elif op == "peer-send":
                if up_conn:
                    r.peer_send(size(step[1]))
            elif op == "sync":
                settle()
            elif op == "disconnect":
                if r.net.state in (1, 2):
                    r.disconnect()
                    if up_conn:
                        # the server reads to the end of the client's stream and closes in turn
                        res = r.peer_read(until=1 << 40)
                        r.peer_close()
                        up_conn = False
                    await_down()
            elif op == "handler-fails":
                if up_conn:
                    # the peer writes something, the layers above raise while it is handed to them: the connection is given up and its end announced
                    r.settle_up = None
                    r.peer_read(until=r.client_sent)
                    r.wait(lambda: r.up_total >= r.peer_sent or not r.net.connected, "upward delivery")
                    r.poison = True
                    r.peer_send(size("small"))
                    up_conn = False
                    await_down()
                    r.peer_read(until=1 << 40)
                    r.peer_close()
            elif op in ("peer-close", "peer-reset"):
                if up_conn:
                    if op == "peer-close" and step[-1] == "drained":
                        r.peer_read(until=r.client_sent)
                    r.peer_close(reset=(op == "peer-reset"))
                    up_conn = False
                    await_down()
        # bring the world to rest
        if up_conn:
            settle()
            r.peer_close()
            up_conn = False
            await_down()
        elif r.net.state != 0:
            await_down()
        r.log("End")
    finally:
        r.finish()
    return r.events, r.errors


def coalesce(events):
    """Merge adjacent Up / PeerGot events (any chunking of a byte stream is allowed; a mismatch flag survives)."""
    out = []
    for e in events:
        if out and e["e"] in ("Up", "PeerGot") and out[-1]["e"] == e["e"] and out[-1]["st"] == e["st"] and out[-1]["cn"] == e["cn"]:
            out[-1] = dict(out[-1], n=out[-1]["n"] + e["n"], ok=min(out[-1]["ok"], e["ok"]))
        else:
            out.append(dict(e))
    return out


CLASSES = ["tiny", "small", "medium", "large"]


def from_sched(sched, rng):
    """A TLC-simulated environment schedule of NetLayer.tla as a rig script; synchronisation points are added at random."""
    script = []
    for a in sched:
        t = a["t"]
        if t == "connect":
            script.append(["connect", bool(a["a"])])
        elif t in ("send", "peer-send"):
            script.append([t, CLASSES[(a["a"] - 1) % 4]])
        elif t == "peer-close":
            script.append(["peer-close", rng.choice(["drained", "abrupt"])])
        elif t == "handler-fails":
            script.append(["handler-fails"])
        else:
            script.append([t])
        if rng.random() < 0.35:
            script.append(["sync"])
    return script


def families():
    out = []

    def add(label, script):
        out.append((label, script))
    add("refused", [["connect", False], ["send", "small"], ["connect", True], ["send", "small"], ["peer-send", "small"], ["sync"], ["disconnect"]])
    add("echo-small", [["connect", True], ["send", "tiny"], ["peer-send", "tiny"], ["sync"], ["send", "small"], ["peer-send", "small"], ["sync"], ["peer-close", "drained"]])
    add("large-up-unsynced", [["connect", True], ["send", "large"], ["send", "small"], ["send", "large"], ["sync"], ["peer-close", "drained"]])
    add("large-down-then-close", [["connect", True], ["peer-send", "large"], ["peer-send", "small"], ["peer-close", "abrupt"]])
    add("both-large", [["connect", True], ["send", "large"], ["peer-send", "large"], ["send", "medium"], ["peer-send", "medium"], ["sync"], ["disconnect"]])
    add("reset", [["connect", True], ["send", "small"], ["peer-send", "small"], ["sync"], ["peer-reset"], ["send", "small"], ["connect", True], ["send", "small"], ["sync"], ["disconnect"]])
    add("reset-unsynced", [["connect", True], ["send", "medium"], ["peer-send", "medium"], ["peer-reset"], ["connect", True], ["peer-send", "small"], ["sync"], ["peer-close", "drained"]])
    add("disconnect-then-again", [["connect", True], ["send", "small"], ["sync"], ["disconnect"], ["send", "small"], ["connect", True], ["send", "small"], ["peer-send", "chunk"], ["sync"], ["disconnect"],
                                   ["connect", True], ["peer-send", "chunk"], ["peer-send", "chunk"], ["sync"], ["peer-close", "drained"]])
    add("disconnect-with-unread", [["connect", True], ["peer-send", "medium"], ["disconnect"], ["connect", True], ["send", "tiny"], ["sync"], ["peer-close", "drained"]])
    add("send-when-down", [["send", "small"], ["connect", True], ["sync"], ["peer-close", "drained"], ["send", "small"], ["send", "large"]])
    add("many-small", [["connect", True]] + [["send", "small"], ["peer-send", "small"]] * 12 + [["sync"], ["peer-close", "abrupt"]])
    add("handler-fails", [["connect", True], ["send", "small"], ["peer-send", "small"], ["sync"], ["handler-fails"], ["send", "small"], ["connect", True], ["send", "small"],
                          ["peer-send", "small"], ["sync"], ["peer-close", "drained"]])
    add("handler-fails-first-data", [["connect", True], ["handler-fails"], ["connect", True], ["peer-send", "medium"], ["sync"], ["disconnect"]])
    add("flood-up-slow-peer", [["connect", True, "slow"]] + [["send", "large"]] * 5 + [["send", "small"], ["sync"], ["peer-send", "small"], ["sync"], ["peer-close", "drained"]])
    # many sends while the peer does not read: the client's socket fills up, a send is taken only in part, later ones not at all
    add("flood-blocks-slow-peer", [["connect", True, "slow"]] + [["send", "block"]] * 110 + [["sync"], ["peer-send", "small"], ["sync"], ["disconnect"]])
    add("flood-both-slow-peer", [["connect", True, "slow"], ["send", "large"], ["peer-send", "large"], ["send", "large"], ["send", "medium"], ["send", "large"], ["sync"], ["disconnect"]])
    add("chunk-multiples", [["connect", True], ["peer-send", "chunk"], ["peer-send", "chunk"], ["peer-send", "chunk"], ["sync"], ["send", "chunk"], ["send", "chunk"], ["sync"], ["disconnect"]])
    return out


def validate(r, runs, pid=None):
    """runs: [(kind, label, script, coalesced events, rig errors)].  TLC validates every recorded execution against NetLayer_Trace.tla;
    a rejected trace is reported with the event at which it stops being a behaviour of the dispatcher contract."""
    tf = os.path.join(r.scratch.path, "netlayer_traces.json")
    json.dump([{"ev": ev} for (_, _, _, ev, _) in runs], open(tf, "w"))
    tres = core.tlc("NetLayer_Trace", "NetLayer_Trace.cfg", r.scratch, workers=1, env={"TRACE_FILE": tf}, timeout=3000)
    rej = [p for p in tres.printed() if isinstance(p, dict) and "rejected" in p]
    if not tres.finished or (tres.violated and not rej and tres.violated != ["postcondition"]):
        # an invariant of the contract broken by a recorded execution is reported by TLC with the invariant's name
        inv = [v for v in tres.violated if v in ("Alternate", "Consistent", "NoInvention")]
        if not inv:
            raise core.MachineryError("NetLayer trace validation failed to run:\n%s" % "\n".join(tres.out.splitlines()[-25:]))
        r.violation("net:invariant:%s" % inv[0], "a recorded execution of the real network layer breaks %s of NetLayer.tla:\n%s" % (inv[0], "\n".join(tres.out.splitlines()[-40:])[:1500]), {})
    r.add_tlc(tres)
    r.cov["traces_validated_against_impl"] += len(runs)
    for x in rej:
        kind, label, sc, ev, errs = runs[x["rejected"] - 1]
        at = ev[x["matched"]] if x["matched"] < len(ev) else {"e": "?", "what": "", "n": 0, "ok": 1, "st": "", "cn": 0}
        why = at["e"] + ((":" + at["what"]) if at["what"] else "") + (":data-mismatch" if at["ok"] == 0 else "")
        r.violation("net:%s:%s" % (kind, why), "%s dispatcher, scenario %s %s: event %d %s is not a step the dispatcher contract (NetLayer.tla) allows after %s" % (
            kind, label, sc, x["matched"] + 1, at, [(e["e"], e["what"] or e["n"]) for e in ev[max(0, x["matched"] - 6):x["matched"]]]), {"kind": kind, "script": sc, "events": ev[:x["matched"] + 1][-40:]})
    for kind, label, sc, ev, errs in runs:
        for e in errs:
            r.violation("net:%s:rig:%s" % (kind, e.split(" raised ")[0][:40]), "%s dispatcher, scenario %s %s: %s" % (kind, label, sc, e), {"kind": kind, "script": sc})
