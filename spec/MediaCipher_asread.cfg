SPECIFICATION Spec
CONSTANTS
  B = 4
  MaxLen = 9
  PadAlways = FALSE
