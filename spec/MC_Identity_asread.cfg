SPECIFICATION Spec
CONSTANTS
  Acc = {"a", "b"}
  MaxGen = 3
  TrustsAll = TRUE
VIEW View
PROPERTY PinStable
INVARIANT NoSilentAccept
INVARIANT SessionMatchesPin
INVARIANT Resumes
CHECK_DEADLOCK FALSE
