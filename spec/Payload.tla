------------------------------- MODULE Payload -------------------------------
(* Message payloads (yowsup/layers/protocol_messages/protocolentities/attributes/  *)
(* converter.py): attribute objects <-> protobuf wire fields.  The field           *)
(* correspondence (attribute path <-> field number / wire type / kind) comes from   *)
(* PayloadSchema.tla, frozen from e2e.proto's descriptor; which attribute holds     *)
(* which field is written here.  An abstract object is [type, fields] where fields  *)
(* maps attribute names to scalar value ids, lists of value ids (repeated) or       *)
(* nested objects.  ToWire(o) is the sequence of wire fields a conforming           *)
(* serialiser emits; TLC evaluates it for every harness-supplied object and checks  *)
(* that FromWire(ToWire(o)) = o in the model.                                       *)
EXTENDS Naturals, Sequences, SequencesExt, FiniteSets, TLC, Json, IOUtils
S == INSTANCE PayloadSchema

\* attribute name -> protobuf field name, where they differ (Message level only)
Rename == [image |-> "image_message", contact |-> "contact_message", location |-> "location_message",
           extended_text |-> "extended_text_message", document |-> "document_message", audio |-> "audio_message",
           video |-> "video_message", sticker |-> "sticker_message", protocol |-> "protocol_message"]
ProtoName(type, attr) == IF type = "Message" /\ attr \in DOMAIN Rename THEN Rename[attr] ELSE attr

\* fields the library models per type (attribute names)
Modelled == [
  Message |-> <<"conversation", "image", "contact", "location", "extended_text", "document", "audio", "video", "sticker",
                "sender_key_distribution_message", "protocol">>,
  Message_ImageMessage |-> <<"url", "mimetype", "caption", "file_sha256", "file_length", "height", "width", "media_key", "jpeg_thumbnail", "context_info">>,
  Message_ContactMessage |-> <<"display_name", "vcard", "context_info">>,
  Message_LocationMessage |-> <<"degrees_latitude", "degrees_longitude", "name", "address", "url", "duration", "accuracy_in_meters", "speed_in_mps",
                                "degrees_clockwise_from_magnetic_north", "axolotl_sender_key_distribution_message", "jpeg_thumbnail">>,
  Message_ExtendedTextMessage |-> <<"text", "matched_text", "canonical_url", "description", "title", "jpeg_thumbnail", "context_info">>,
  Message_DocumentMessage |-> <<"url", "mimetype", "title", "file_sha256", "file_length", "page_count", "media_key", "file_name", "jpeg_thumbnail", "context_info">>,
  Message_AudioMessage |-> <<"url", "mimetype", "file_sha256", "file_length", "seconds", "ptt", "media_key", "context_info">>,
  Message_VideoMessage |-> <<"url", "mimetype", "file_sha256", "file_length", "seconds", "media_key", "caption", "gif_playback", "height", "width",
                             "jpeg_thumbnail", "context_info", "streaming_sidecar", "gif_attribution">>,
  Message_StickerMessage |-> <<"url", "file_sha256", "media_key", "mimetype", "height", "width", "file_length", "png_thumbnail", "context_info">>,
  Message_SenderKeyDistributionMessage |-> <<"group_id", "axolotl_sender_key_distribution_message">>,
  Message_ProtocolMessage |-> <<"key", "type">>,
  MessageKey |-> <<"remote_jid", "from_me", "id", "participant">>,
  ContextInfo |-> <<"stanza_id", "participant", "quoted_message", "remote_jid", "mentioned_jid", "edit_version", "revoke_message">> ]

FieldOf(type, attr) == LET fs == S!Schema[type] n == ProtoName(type, attr) IN
                       fs[CHOOSE i \in 1..Len(fs) : fs[i].name = n]
HasField(type, attr) == \E i \in 1..Len(S!Schema[type]) : S!Schema[type][i].name = ProtoName(type, attr)
\* every modelled attribute exists in the schema
SchemaCovers == \A t \in DOMAIN Modelled : \A i \in 1..Len(Modelled[t]) : HasField(t, Modelled[t][i])

\* ---- ToWire: sequence of [path (Seq of field numbers), wt, kind, v] in field-number order per level ----
RECURSIVE ToWire(_, _)
RECURSIVE ToWireFields(_, _, _, _)
ToWireFields(o, attrs, i, prefix) ==
  IF i > Len(attrs) THEN <<>>
  ELSE LET a == attrs[i] IN
       (IF a \in DOMAIN o.fields
        THEN LET f == FieldOf(o.type, a) val == o.fields[a] IN
             IF f.kind = "msg" THEN << [path |-> Append(prefix, f.num), wt |-> 2, kind |-> "msg", v |-> "-"] >> \o ToWire(val, Append(prefix, f.num))
             ELSE IF f.rep THEN [j \in 1..Len(val) |-> [path |-> Append(prefix, f.num), wt |-> f.wt, kind |-> f.kind, v |-> val[j]]]
             ELSE << [path |-> Append(prefix, f.num), wt |-> f.wt, kind |-> f.kind, v |-> val] >>
        ELSE <<>>)
       \o ToWireFields(o, attrs, i + 1, prefix)
ToWire(o, prefix) == ToWireFields(o, Modelled[o.type], 1, prefix)

\* ---- FromWire: rebuild the object from the wire fields (the model's inverse) ----
RECURSIVE FromWire(_, _, _)
AttrOfNum(type, num) == LET as == Modelled[type] IN as[CHOOSE i \in 1..Len(as) : FieldOf(type, as[i]).num = num]
Children(w, prefix) == SelectSeq(w, LAMBDA e : Len(e.path) > Len(prefix) /\ SubSeq(e.path, 1, Len(prefix)) = prefix)
Direct(w, prefix) == SelectSeq(w, LAMBDA e : Len(e.path) = Len(prefix) + 1 /\ SubSeq(e.path, 1, Len(prefix)) = prefix)
FromWire(type, w, prefix) ==
  LET d == Direct(w, prefix)
      nums == { d[i].path[Len(prefix) + 1] : i \in 1..Len(d) } IN
  [type |-> type,
   fields |-> [a \in { AttrOfNum(type, n) : n \in nums } |->
      LET f == FieldOf(type, a) es == SelectSeq(d, LAMBDA e : e.path[Len(prefix) + 1] = f.num) IN
      IF f.kind = "msg" THEN FromWire(f.sub, Children(w, Append(prefix, f.num)), Append(prefix, f.num))
      ELSE IF f.rep THEN [j \in 1..Len(es) |-> es[j].v] ELSE es[1].v]]

RoundTrip(o) == FromWire(o.type, ToWire(o, <<>>), <<>>) = o

Cases == IF "CASES_FILE" \in DOMAIN IOEnv THEN JsonDeserialize(IOEnv.CASES_FILE) ELSE <<>>
\* JSON objects arrive as records; nested objects are records with type/fields as well
CaseOut(i) == [i |-> i, ok |-> RoundTrip(Cases[i]), wire |-> ToWire(Cases[i], <<>>)]
==============================================================================
