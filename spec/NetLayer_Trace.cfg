SPECIFICATION TSpec
CONSTANTS
  Sizes = {1}
  MaxConn = 99
  MaxOps = 999
  EOFAfterData = TRUE
  SyncClose = FALSE
CONSTRAINT Progress
INVARIANT Alternate
INVARIANT Consistent
INVARIANT NoInvention
INVARIANT OrderlyCloseComplete
POSTCONDITION Accepted
CHECK_DEADLOCK FALSE
