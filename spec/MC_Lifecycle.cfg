SPECIFICATION Spec
CONSTANTS
  MaxEvents = 7
  ReconnectOpt = TRUE
  PingOpt = TRUE
  Kinds = {"conflict", "ack"}
  LoopBeforeConnect = TRUE
VIEW View
INVARIANT Alternate
INVARIANT Balanced
INVARIANT OneLoginPerConnect
INVARIANT OneAuthedPerSuccess
INVARIANT NoWriteWhenDown
INVARIANT FreshLogin
INVARIANT ErrorsClose
INVARIANT ReconnectRule
INVARIANT PingRule
CHECK_DEADLOCK FALSE
