SPECIFICATION Spec
CONSTANTS
  Threads <- T2
  Jobs <- JobsC12g
  ReleaseOnException = TRUE
  SizeCheckedFirst = TRUE
VIEW View
CHECK_DEADLOCK FALSE
ACTION_CONSTRAINT Edge
