----------------------------- MODULE NetLayer_Sim -----------------------------
(* Environment schedules for the loopback rig: random behaviours of NetLayer.tla    *)
(* (TLC -simulate) reduced to the environment's choices - connect requests, sends   *)
(* in both directions by size class, disconnect requests, the peer closing or       *)
(* resetting - carried in a history variable and printed when the behaviour has     *)
(* used up its connections and come to rest.  The internal steps (bytes arriving,   *)
(* the end being noticed) are timing, which the rig leaves to the real sockets.     *)
EXTENDS NetLayer, Json
VARIABLE hist
EnvAct ==
  IF k' # k THEN [t |-> "connect", a |-> IF link' = "opening" THEN 1 ELSE 0]
  ELSE IF c2s' # c2s \/ (nops' # nops /\ s2c' = s2c) THEN [t |-> "send", a |-> IF c2s' # c2s THEN c2s' - c2s ELSE 1]
  ELSE IF s2c' # s2c THEN [t |-> "peer-send", a |-> s2c' - s2c]
  ELSE IF link = "open" /\ link' = "peerclosed" THEN [t |-> "peer-close", a |-> 0]
  ELSE IF link' = "reset" THEN [t |-> "peer-reset", a |-> 0]
  ELSE IF link' = "failed" THEN [t |-> "handler-fails", a |-> 0]
  ELSE IF net \in {"connecting", "up"} /\ net' \in {"closing", "down"} /\ link \notin {"refusing", "peerclosed", "reset", "failed"} THEN [t |-> "disconnect", a |-> 0]
  ELSE [t |-> "", a |-> 0]
SInit == Init /\ hist = <<>>
SNext == Next /\ hist' = IF EnvAct.t = "" THEN hist ELSE Append(hist, EnvAct)
SSpec == SInit /\ [][SNext]_<<vars, hist>>
Done == k = MaxConn /\ net = "down" /\ link = "dead"
Emit == Done => PrintT(ToJson([sched |-> hist]))
==============================================================================
