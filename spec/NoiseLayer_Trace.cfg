SPECIFICATION TSpec
CONSTANTS
  MaxAttempts = 3
  MaxData = 3
  Variants = {"XX", "IK", "IKnew", "BAD"}
  FreshPerAttempt = TRUE
CONSTRAINT Progress
INVARIANT InOrder
INVARIANT NothingForeign
INVARIANT KeyStored
INVARIANT FailureReported
POSTCONDITION Accepted
CHECK_DEADLOCK FALSE
