------------------------------- MODULE SendPath -------------------------------
(* Threads walking the per-layer lock chain of the transport stack               *)
(* (yowsup/layers/__init__.py toLower, noise/layer.py, noise/layer_noise_segments *)
(* .py): top | mid | logger | coder | noise | segments | network.                *)
(* A send from layer X is: toLower of X = acquire X's lock, call send of the      *)
(* layer below, ..., release.  The coder layer encodes; the noise layer encrypts  *)
(* with the next cipher counter, passes the frame through the stream's write      *)
(* queue and writes it; the segments layer writes header and payload as two       *)
(* downward writes.  An incoming frame is queued, and flushed under the flush     *)
(* lock: decrypted with the next receive counter and handed upward.               *)
(* One action = one synchronisation operation (lock acquire / release, queue put  *)
(* / get / size) together with the thread-local code up to the next one - the     *)
(* granularity of the deterministic scheduler that replays these behaviours.      *)
EXTENDS Naturals, Sequences, SequencesExt, FiniteSets, TLC, Json

CONSTANTS Threads,            \* thread names
          Jobs,               \* thread -> Seq of jobs [kind \in {"send","recv"}, entry \in {"top","mid"}, fault \in {"none", lock name / "deliver"}]
          ReleaseOnException, \* TRUE: an exception releases every lock on the unwinding path (claimed); FALSE: none (as read at 4127b7c)
          SizeCheckedFirst    \* TRUE: an oversized stanza is refused before it is encrypted (claimed); FALSE: the segments layer refuses
                              \*       it after the noise layer consumed a cipher counter for it (as read at 4127b7c)

Chain == << "top", "mid", "logger", "coder", "noise", "seg" >>
Idx(l) == CHOOSE i \in 1..Len(Chain) : Chain[i] = l

VARIABLES lock,     \* lock name -> owner thread or "free"   (layer locks + "flush")
          pc,       \* thread -> position in the program of its current job (0 = between jobs)
          job,      \* thread -> index of the current job
          held,     \* thread -> Seq of locks it holds (acquisition order)
          outcome,  \* thread -> Seq of "ok" | "raised" per finished job
          sctr, rctr,   \* next send / receive cipher counter
          mine,     \* thread -> the frame it encrypted / the frame it is writing
          writeQ, incomingQ,
          wire,     \* chunks written to the socket: [k \in {"hdr","pay"}, f |-> frame]
          up,       \* frames handed upward, in order
          nframes,  \* frames the server has sent so far (ghost)
          act

vars == <<lock, pc, job, held, outcome, sctr, rctr, mine, writeQ, incomingQ, wire, up, nframes>>
View == vars
Locks == {Chain[i] : i \in 1..Len(Chain)} \cup {"flush", "transport"}

\* ---- programs: sequences of operations ----
Acq(l) == [k |-> "acq", l |-> l]
Rel(l) == [k |-> "rel", l |-> l]
Op(k)  == [k |-> k, l |-> "-"]
RECURSIVE Acqs(_, _)
Acqs(i, n) == IF i > n THEN <<>> ELSE << Acq(Chain[i]) >> \o Acqs(i + 1, n)
RECURSIVE Rels(_, _)
Rels(i, n) == IF i < n THEN <<>> ELSE << Rel(Chain[i]) >> \o Rels(i - 1, n)
SendProg(entry) ==
  Acqs(Idx(entry), Idx("coder"))                         \* ... acquire coder: encode + encrypt happen before the next operation
  \o << Op("putW"), Op("getW"),
        Acq("transport"),                                \* the write belongs to the current connection (checked under this lock)
        Acq("noise"),
        Acq("seg"), Rel("seg"),                          \* header written under the first acquisition
        Acq("seg"), Rel("seg"),                          \* payload under the second
        Rel("noise"), Rel("transport") >>
  \o Rels(Idx("coder"), Idx(entry))
\* receive(frame): queue it; flush under the flush lock: while the queue is non-empty, the transport reads the next segment
\* through the stream's read queue, decrypts it with the next counter and hands the stanza upward
RecvProg == << Op("putI"), Acq("transport"), Rel("transport"),   \* the connection's queue / lock / protocol are picked up under the transport lock
              Acq("flush"), Op("sizeI"), Op("getI"), Op("putR"), Op("getR"), Op("sizeI2"), Rel("flush") >>
\* an incoming stanza that the layers above answer from within its delivery (server ping -> pong, message -> receipt):
\* the delivering thread walks the send path while it is still flushing
RecvReplyProg == << Op("putI"), Acq("transport"), Rel("transport"), Acq("flush"), Op("sizeI"), Op("getI"), Op("putR"), Op("getR") >> \o SendProg("top") \o << Op("sizeI3"), Rel("flush") >>
Prog(j) == IF j.kind = "send" THEN SendProg(j.entry) ELSE IF j.kind = "recvreply" THEN RecvReplyProg ELSE RecvProg

NoFrame == [by |-> "-", n |-> 0, ctr |-> 0, bad |-> FALSE]
Init == /\ lock = [l \in Locks |-> "free"] /\ pc = [t \in Threads |-> 0] /\ job = [t \in Threads |-> 0]
        /\ held = [t \in Threads |-> <<>>] /\ outcome = [t \in Threads |-> <<>>] /\ sctr = 0 /\ rctr = 0
        /\ mine = [t \in Threads |-> NoFrame] /\ writeQ = <<>> /\ incomingQ = <<>> /\ wire = <<>> /\ up = <<>> /\ nframes = 0
        /\ act = [name |-> "Init"]

StartJob(t) ==
  /\ pc[t] = 0 /\ job[t] < Len(Jobs[t])
  /\ job' = [job EXCEPT ![t] = @ + 1] /\ pc' = [pc EXCEPT ![t] = 1]
  /\ act' = [name |-> "StartJob", t |-> t]
  /\ UNCHANGED <<lock, held, outcome, sctr, rctr, mine, writeQ, incomingQ, wire, up, nframes>>

CurJob(t) == Jobs[t][job[t]]
CurOp(t) == Prog(CurJob(t))[pc[t]]
\* does the local code that follows this operation raise?  fault = the lock whose acquisition is followed by the raising
\* code (a layer's send raising: "coder" = unencodable value, "seg" = oversized frame, "noise" = session not ready), or
\* "deliver" for an upward handler raising while the frame is being handed up.
\* fault kinds of a send: "coder" (unencodable value: the encoder raises), "notready" (session not in transport state: the noise
\* layer raises before encrypting), "oversize" (frame >= 2^24: refused), "logger" (a raising layer above the coder)
FaultAt(j) == CASE j.fault = "coder" -> "coder" [] j.fault = "notready" -> "coder" [] j.fault = "logger" -> "logger"
                [] j.fault \in {"oversize", "oversize_edge"} -> (IF SizeCheckedFirst THEN "coder" ELSE "seg") [] OTHER -> "-"
\* the raising code runs right after the named lock was acquired; "coder" faults raise BEFORE the counter is taken
Raises(t) == LET o == CurOp(t) j == CurJob(t) IN
             (o.k = "acq" /\ j.kind = "send" /\ FaultAt(j) = o.l /\ ~(o.l = "seg" /\ \E i \in 1..(pc[t] - 1) : Prog(j)[i] = Acq("seg")))
             \/ (o.k = "getR" /\ mine[t].bad)

Finish(t, res) ==
  /\ pc' = [pc EXCEPT ![t] = 0]
  /\ outcome' = [outcome EXCEPT ![t] = Append(@, res)]

Unwind(t, heldNow) ==   \* what an exception leaves behind
  IF ReleaseOnException
  THEN /\ lock' = [l \in Locks |-> IF \E i \in 1..Len(heldNow) : heldNow[i] = l THEN "free" ELSE lock[l]]
       /\ held' = [held EXCEPT ![t] = <<>>]
  ELSE /\ lock' = [l \in Locks |-> IF \E i \in 1..Len(heldNow) : heldNow[i] = l THEN t ELSE lock[l]]
       /\ held' = [held EXCEPT ![t] = <<>>]         \* nobody will ever release them

Step(t) ==
  /\ pc[t] > 0
  /\ LET o == CurOp(t) last == pc[t] = Len(Prog(CurJob(t))) IN
     /\ CASE o.k = "acq" ->
               /\ lock[o.l] = "free"
               /\ IF Raises(t)
                  THEN /\ Unwind(t, Append(held[t], o.l)) /\ Finish(t, "raised")
                       /\ UNCHANGED <<sctr, rctr, mine, writeQ, incomingQ, wire, up, nframes>>
                  ELSE /\ lock' = [lock EXCEPT ![o.l] = t] /\ held' = [held EXCEPT ![t] = Append(@, o.l)]
                       /\ pc' = [pc EXCEPT ![t] = @ + 1] /\ UNCHANGED outcome
                       /\ IF o.l = "coder"                 \* encode, then noise.send encrypts with the next counter
                          THEN sctr' = sctr + 1 /\ mine' = [mine EXCEPT ![t] = [by |-> t, n |-> job[t], ctr |-> sctr, bad |-> FALSE]] /\ UNCHANGED wire
                          ELSE IF o.l = "seg"
                          THEN /\ wire' = Append(wire, [k |-> IF \E i \in 1..(pc[t] - 1) : Prog(CurJob(t))[i] = Acq("seg") THEN "pay" ELSE "hdr", f |-> mine[t]])
                               /\ UNCHANGED <<sctr, mine>>
                          ELSE UNCHANGED <<sctr, mine, wire>>
                       /\ UNCHANGED <<rctr, writeQ, incomingQ, up, nframes>>
          [] o.k = "rel" ->
               /\ lock' = [lock EXCEPT ![o.l] = "free"] /\ held' = [held EXCEPT ![t] = SelectSeq(@, LAMBDA x : x # o.l)]
               /\ (IF last THEN Finish(t, "ok") ELSE pc' = [pc EXCEPT ![t] = @ + 1] /\ UNCHANGED outcome)
               /\ UNCHANGED <<sctr, rctr, mine, writeQ, incomingQ, wire, up, nframes>>
          [] o.k = "putW" ->
               /\ writeQ' = Append(writeQ, mine[t]) /\ pc' = [pc EXCEPT ![t] = @ + 1]
               /\ UNCHANGED <<lock, held, outcome, sctr, rctr, mine, incomingQ, wire, up, nframes>>
          [] o.k = "getW" ->
               /\ writeQ # <<>> /\ mine' = [mine EXCEPT ![t] = Head(writeQ)] /\ writeQ' = Tail(writeQ) /\ pc' = [pc EXCEPT ![t] = @ + 1]
               /\ UNCHANGED <<lock, held, outcome, sctr, rctr, incomingQ, wire, up, nframes>>
          [] o.k = "putI" ->    \* the network thread received the server's next frame
               /\ incomingQ' = Append(incomingQ, [by |-> "srv", n |-> nframes + 1, ctr |-> 0, bad |-> CurJob(t).fault \in {"deliver", "undecodable"}]) /\ nframes' = nframes + 1 /\ pc' = [pc EXCEPT ![t] = @ + 1]
               /\ UNCHANGED <<lock, held, outcome, sctr, rctr, mine, writeQ, wire, up>>
          [] o.k = "sizeI" ->   \* while queue non-empty: next is getI; else skip to the release
               /\ pc' = [pc EXCEPT ![t] = IF incomingQ = <<>> THEN Len(Prog(CurJob(t))) ELSE @ + 1]
               /\ UNCHANGED <<lock, held, outcome, sctr, rctr, mine, writeQ, incomingQ, wire, up, nframes>>
          [] o.k = "getI" ->
               /\ incomingQ # <<>>
               /\ incomingQ' = Tail(incomingQ) /\ mine' = [mine EXCEPT ![t] = Head(incomingQ)] /\ pc' = [pc EXCEPT ![t] = @ + 1]
               /\ UNCHANGED <<lock, held, outcome, sctr, rctr, writeQ, wire, up, nframes>>
          [] o.k = "putR" ->
               /\ pc' = [pc EXCEPT ![t] = @ + 1]
               /\ UNCHANGED <<lock, held, outcome, sctr, rctr, mine, writeQ, incomingQ, wire, up, nframes>>
          [] o.k = "getR" ->    \* decrypt with the next receive counter and hand upward
               /\ rctr' = rctr + 1
               /\ IF mine[t].bad
                  THEN /\ Unwind(t, held[t]) /\ Finish(t, "raised") /\ UNCHANGED up
                  ELSE /\ up' = Append(up, [f |-> mine[t].n, ok |-> mine[t].n = rctr + 1])
                       /\ pc' = [pc EXCEPT ![t] = @ + 1] /\ UNCHANGED <<lock, held, outcome>>
               /\ UNCHANGED <<sctr, mine, writeQ, incomingQ, wire, nframes>>
          [] o.k = "sizeI3" ->  \* loop of the replying receive program
               /\ pc' = [pc EXCEPT ![t] = IF incomingQ = <<>> THEN @ + 1 ELSE 6]
               /\ UNCHANGED <<lock, held, outcome, sctr, rctr, mine, writeQ, incomingQ, wire, up, nframes>>
          [] o.k = "sizeI2" ->  \* loop: more queued frames go back to getI
               /\ pc' = [pc EXCEPT ![t] = IF incomingQ = <<>> THEN @ + 1 ELSE @ - 3]
               /\ UNCHANGED <<lock, held, outcome, sctr, rctr, mine, writeQ, incomingQ, wire, up, nframes>>
  /\ act' = [name |-> "Step", t |-> t, op |-> CurOp(t).k, l |-> CurOp(t).l]
  /\ UNCHANGED job

Next == \E t \in Threads : StartJob(t) \/ Step(t)
Spec == Init /\ [][Next]_<<vars, act>>
FairSpec == Spec /\ \A t \in Threads : WF_vars(StartJob(t) \/ Step(t))

-----------------------------------------------------------------------------
AllDone == \A t \in Threads : pc[t] = 0 /\ job[t] = Len(Jobs[t])
\* C11: the socket sees whole frames: each header immediately followed by its own payload
WholeFrames ==
  \A i \in 1..Len(wire) :
     /\ (wire[i].k = "hdr" /\ i < Len(wire)) => (wire[i + 1].k = "pay" /\ wire[i + 1].f = wire[i].f)
     /\ wire[i].k = "pay" => (i > 1 /\ wire[i - 1].k = "hdr" /\ wire[i - 1].f = wire[i].f)
\* C11: encrypted frames appear in the order of their cipher counters, so a strict in-order peer decrypts all
Payloads == SelectSeq(wire, LAMBDA c : c.k = "pay")
CounterOrder == \A i \in 1..Len(Payloads) : Payloads[i].f.ctr = i - 1
\* C11: each stanza sent is transmitted exactly once
ExactlyOnce == AllDone =>
  \A t \in Threads : \A n \in 1..Len(Jobs[t]) :
     (Jobs[t][n].kind \in {"send", "recvreply"} /\ outcome[t][n] = "ok") =>
        Cardinality({i \in 1..Len(Payloads) : Payloads[i].f.by = t /\ Payloads[i].f.n = n}) = 1
\* incoming frames go upward in order, each decryptable with the next counter
UpInOrder == \A i \in 1..Len(up) : up[i].ok
\* C12: the error reaches the caller ...
Reported == AllDone =>
  /\ \A t \in Threads : \A n \in 1..Len(Jobs[t]) : Jobs[t][n].kind = "send" => (outcome[t][n] = "raised") = (Jobs[t][n].fault # "none")
  \* a raising upward handler is reported to exactly one receive call (whichever thread was flushing)
  /\ Cardinality({<<t, n>> \in Threads \X (1..4) : n <= Len(Jobs[t]) /\ Jobs[t][n].kind = "recv" /\ outcome[t][n] = "raised"})
       = Cardinality({<<t, n>> \in Threads \X (1..4) : n <= Len(Jobs[t]) /\ Jobs[t][n].kind = "recv" /\ Jobs[t][n].fault # "none"})
\* later incoming frames are processed normally: everything the server sent went up or raised
AllReceived == AllDone => Len(up) + Cardinality({<<t, n>> \in Threads \X (1..4) : n <= Len(Jobs[t]) /\ Jobs[t][n].kind = "recv" /\ Jobs[t][n].fault # "none"}) = nframes
\* ... and no lock stays held
NoLockLeak == (\A t \in Threads : pc[t] = 0) => \A l \in Locks : lock[l] = "free"
\* ... and nothing blocks forever: every job terminates (checked as: no reachable state is stuck before AllDone)
NotStuck == AllDone \/ ENABLED Next
Terminates == <>AllDone

St == [lock |-> lock, pc |-> pc, job |-> job, outcome |-> outcome, sctr |-> sctr, rctr |-> rctr, writeQ |-> writeQ, incomingQ |-> incomingQ,
       wire |-> wire, up |-> up, nframes |-> nframes, mine |-> mine]
Edge == PrintT(ToJson([from |-> St, act |-> act', to |-> St']))
==============================================================================
