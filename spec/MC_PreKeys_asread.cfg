SPECIFICATION Spec
CONSTANTS
  Batch = 2
  Threshold = 1
  MaxId = 6
  MaxSteps = 8
  FreshIds = FALSE
VIEW View
INVARIANT FlagIffConfirmed
INVARIANT ReofferedAtLogin
INVARIANT OneKeyPerId
PROPERTY ConfirmedNotReoffered
CHECK_DEADLOCK FALSE
