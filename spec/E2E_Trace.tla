------------------------------ MODULE E2E_Trace ------------------------------
(* Batched trace validation of recorded executions of the real stacks (harness/   *)
(* e2e.py) against E2E.tla.  One record per step of the world:                     *)
(*   Submit  c d out        the application of c submits the next message to d      *)
(*   Process c hd tg note   the server serves the head hd of c's sent queue; tg =   *)
(*                          who the message / receipt was forwarded to              *)
(*   Deliver c hd fault out the server delivers the head hd of c's queue            *)
(*   Restart c / Join c / Leave c / End                                             *)
(* The server part of every record must match the model exactly (otherwise the     *)
(* trace is REJECTED: model drift or a machinery error); the client part is judged  *)
(* by E2E!Labels and the rules it breaks are reported by name (viol), the state     *)
(* then follows what the client actually did so that the rest of the trace is       *)
(* still examined.                                                                  *)
EXTENDS E2E, Json, IOUtils
VARIABLES tid, l, viol
Traces == JsonDeserialize(IOEnv.TRACE_FILE)
N == Len(Traces)
ASSUME \A i \in 1..N : TLCSet(i, 0)
tvars == <<vars, tid, l, viol>>
Ev == Traces[tid].ev[l]
TInit == Init /\ tid \in 1..N /\ l = 1 /\ viol = {}
More == l <= Len(Traces[tid].ev)
Consume == l' = l + 1 /\ UNCHANGED tid
Is(n) == More /\ Ev.t = n
AsSet(s) == {s[j] : j \in 1..Len(s)}
Out(o) == [sent |-> o.sent, shown |-> o.shown, seen |-> [j \in 1..Len(o.seen) |-> <<o.seen[j].i, o.seen[j].p>>], leak |-> o.leak]

TSubmit == /\ Is("Submit")
           /\ LET o == Out(Ev.out) IN
                /\ Submit(Ev.c, Ev.d, o)
                /\ viol' = Labels(Ev.c, None, o, Append(msgs, NewMsg(Ev.c, Ev.d)))
           /\ Consume
TProcess == /\ Is("Process")
            /\ inq[Ev.c] # <<>> /\ Head(inq[Ev.c]) = Ev.hd
            /\ Process(Ev.c, AsSet(Ev.tg), AsSet(Ev.note))
            /\ viol' = Lb("misaddressed", AsSet(Ev.tg) # Targets(Ev.c))
            /\ Consume
TDeliver == /\ Is("Deliver")
            /\ Ev.j \in 1..Len(outq[Ev.c]) /\ outq[Ev.c][Ev.j] = Ev.hd
            /\ LET o == Out(Ev.out)
                   dl == IF Ev.fault = "corrupt" THEN [Ev.hd EXCEPT !.f = 1] ELSE Ev.hd IN
                /\ DeliverAt(Ev.c, Ev.j, Ev.fault, o)
                /\ viol' = Labels(Ev.c, dl, o, msgs)
            /\ Consume
TRestart == Is("Restart") /\ Quiescent /\ UNCHANGED vars /\ viol' = {} /\ Consume
TJoin == Is("Join") /\ Join(Ev.c) /\ viol' = {} /\ Consume
TLeave == Is("Leave") /\ Leave(Ev.c) /\ viol' = {} /\ Consume
TEnd == /\ Is("End") /\ UNCHANGED vars /\ Consume
        /\ viol' = Lb("not-quiescent", ~Quiescent)
                   \cup Ls("undelivered", {i \in Ids : \E r \in Rcp(i) : <<r, i>> \notin shown})
                   \cup Ls("receipt-missing", {i \in Ids : \E r \in Rcp(i) : <<r, i>> \in shown /\ <<i, r>> \notin seen})
TNext == TSubmit \/ TProcess \/ TDeliver \/ TRestart \/ TJoin \/ TLeave \/ TEnd
TSpec == TInit /\ [][TNext]_tvars
Progress == /\ TLCSet(tid, IF TLCGet(tid) > l - 1 THEN TLCGet(tid) ELSE l - 1)
            /\ (viol # {} => PrintT(ToJson([trace |-> tid, at |-> l - 1, rules |-> viol])))
Accepted == \A i \in 1..N : IF TLCGet(i) = Len(Traces[i].ev) THEN TRUE
                            ELSE PrintT(ToJson([rejected |-> i, matched |-> TLCGet(i)])) /\ TRUE
==============================================================================
