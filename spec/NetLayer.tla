------------------------------- MODULE NetLayer -------------------------------
(* The network layer and its connection dispatcher over one TCP connection at a   *)
(* time (yowsup/layers/network/layer.py, dispatcher/dispatcher_socket.py,          *)
(* dispatcher/dispatcher_asyncore.py) against a TCP peer.  This is the contract     *)
(* Lifecycle.tla assumes of "the dispatcher" (its actions ConnectRequest,           *)
(* DispatcherConnected, ConnectionLost, Close) and that Segments / NoiseLayer /     *)
(* SendPath assume of the byte channel below them (Channel.tla): here it is spelled *)
(* out against the socket, so that the REAL dispatchers can be validated against    *)
(* it over a loopback connection (harness/realnet.py, NetLayer_Trace.tla) - the     *)
(* other checks replace them by a double that obeys the same contract.              *)
(*                                                                                  *)
(* Bytes are counted, not modelled: c2s / s2c are the numbers of bytes handed to    *)
(* the connection in each direction, got / up the numbers that have arrived; the    *)
(* harness compares the contents at the same offsets and reports a mismatch as a    *)
(* flag on the event.                                                               *)
EXTENDS Naturals, Sequences, FiniteSets, TLC

CONSTANTS Sizes,      \* byte counts of one send (model: a few representatives)
          MaxConn,    \* connections attempted in a behaviour (model bound)
          MaxOps,     \* sends per connection and direction (model bound)
          EOFAfterData, \* deviation switch: TRUE = claimed (the end of the stream is reported after all data that preceded it)
          SyncClose   \* TRUE: disconnect() reports the end before it returns (asyncore dispatcher); FALSE: the end is reported
                      \* when the peer has closed its side in turn (socket dispatcher).  Both satisfy the contract.

VARIABLES net,      \* the layer's state: "down" | "connecting" | "up" | "closing"
          conn,     \* the layer's `connected` flag
          k,        \* connections attempted so far
          link,     \* the TCP connection: "none" | "opening" | "refusing" | "open" | "peerclosed" | "reset" | "failed" | "localclosed" | "dead"
          c2s, got, \* bytes accepted from above on this connection / bytes the peer has read
          s2c, up,  \* bytes the peer wrote / bytes delivered upward
          ann,      \* connection attempts and announcements made upward, in order: "attempt" | "connected" | "disconnected"
          nops,     \* sends on this connection (model bound only)
          cause     \* how the current connection ended: "" (not yet) | "refused" | "eof" | "reset" | "error" | "local"
vars == <<net, conn, k, link, c2s, got, s2c, up, ann, nops, cause>>

Init == /\ net = "down" /\ conn = FALSE /\ k = 0 /\ link = "none" /\ c2s = 0 /\ got = 0 /\ s2c = 0 /\ up = 0
        /\ ann = <<>> /\ nops = 0 /\ cause = ""

-----------------------------------------------------------------------------
(* Requests from above.                                                           *)
ConnectReq(listens) ==
  /\ net = "down" /\ link \in {"none", "dead"}
  /\ k' = k + 1 /\ net' = "connecting" /\ link' = IF listens THEN "opening" ELSE "refusing"
  /\ c2s' = 0 /\ got' = 0 /\ s2c' = 0 /\ up' = 0 /\ nops' = 0
  /\ ann' = Append(ann, "attempt") /\ cause' = ""
  /\ UNCHANGED conn

(* layer.send(): handed to the connection only while the layer is connected,       *)
(* silently dropped otherwise.  Bytes handed to a connection that is already        *)
(* closing or broken need not arrive.                                               *)
Send(n) ==
  /\ c2s' = IF conn THEN c2s + n ELSE c2s
  /\ nops' = nops + 1
  /\ UNCHANGED <<net, conn, k, link, got, s2c, up, ann, cause>>

(* The end of the connection is announced: once, by a state change.                 *)
GoDown(why) == /\ net' = "down" /\ conn' = FALSE /\ link' = "dead" /\ cause' = why
               /\ ann' = IF net # "down" THEN Append(ann, "disconnected") ELSE ann

DisconnectReq ==
  /\ net \in {"connecting", "up"} /\ link # "failed"
  /\ IF SyncClose \/ link \in {"opening", "refusing"}
     THEN GoDown("local") /\ UNCHANGED <<k, c2s, got, s2c, up, nops>>
     ELSE /\ net' = "closing" /\ link' = IF link = "open" THEN "localclosed" ELSE link
          /\ UNCHANGED <<conn, k, c2s, got, s2c, up, ann, nops, cause>>

-----------------------------------------------------------------------------
(* The connection and the peer.                                                   *)
Established ==
  /\ link = "opening" /\ net = "connecting"
  /\ link' = "open" /\ net' = "up" /\ conn' = TRUE /\ ann' = Append(ann, "connected")
  /\ UNCHANGED <<k, c2s, got, s2c, up, nops, cause>>
Refused == link = "refusing" /\ GoDown("refused") /\ UNCHANGED <<k, c2s, got, s2c, up, nops>>

(* Bytes in flight outlive the local end of the connection.                          *)
PeerGet(m) == /\ link \in {"open", "peerclosed", "localclosed", "dead"} /\ m \in 1..(c2s - got)
              /\ got' = got + m /\ UNCHANGED <<net, conn, k, link, c2s, s2c, up, ann, nops, cause>>
PeerSend(n) == /\ link = "open" /\ s2c' = s2c + n /\ nops' = nops + 1
               /\ UNCHANGED <<net, conn, k, link, c2s, got, up, ann, cause>>
(* Bytes are delivered upward in order while the layer is connected.                *)
DeliverUp(m) == /\ conn /\ link \in {"open", "peerclosed", "localclosed", "reset"} /\ m \in 1..(s2c - up)
                /\ up' = up + m /\ UNCHANGED <<net, conn, k, link, c2s, got, s2c, ann, nops, cause>>
PeerClose == /\ link \in {"open", "localclosed"} /\ link' = "peerclosed"
             /\ UNCHANGED <<net, conn, k, c2s, got, s2c, up, ann, nops, cause>>
PeerReset == /\ link \in {"open", "localclosed"} /\ link' = "reset"
             /\ UNCHANGED <<net, conn, k, c2s, got, s2c, up, ann, nops, cause>>
(* An orderly close is seen after everything the peer wrote before it (unless the   *)
(* layer itself had asked to close: it no longer listens); a reset may overtake     *)
(* data.                                                                            *)
SeeEOF == link = "peerclosed" /\ (EOFAfterData /\ net # "closing" => up = s2c) /\ GoDown(IF net = "closing" THEN "local" ELSE "eof") /\ UNCHANGED <<k, c2s, got, s2c, up, nops>>
SeeReset == link = "reset" /\ GoDown("reset") /\ UNCHANGED <<k, c2s, got, s2c, up, nops>>
(* The layers above fail while they are handed data: the dispatcher gives the        *)
(* connection up and reports its end like any other.                                 *)
HandlerFails == /\ conn /\ link \in {"open", "peerclosed"} /\ up > 0 /\ link' = "failed"
                /\ UNCHANGED <<net, conn, k, c2s, got, s2c, up, ann, nops, cause>>
SeeFailure == link = "failed" /\ GoDown("error") /\ UNCHANGED <<k, c2s, got, s2c, up, nops>>

Env == \/ (k < MaxConn /\ \E l \in BOOLEAN : ConnectReq(l))
       \/ (nops < MaxOps /\ \E n \in Sizes : Send(n) \/ PeerSend(n))
       \/ DisconnectReq \/ PeerClose \/ PeerReset \/ HandlerFails
Internal == Established \/ Refused \/ SeeEOF \/ SeeReset \/ SeeFailure \/ (\E m \in 1..(c2s - got) : PeerGet(m)) \/ (\E m \in 1..(s2c - up) : DeliverUp(m))
Next == Env \/ Internal
Spec == Init /\ [][Next]_vars /\ WF_vars(Internal)

-----------------------------------------------------------------------------
(* C16: per connection attempt the announcements are: none yet, "connected", "connected" then "disconnected", or - for an attempt  *)
(* that never came up - "disconnected" alone; and an attempt starts only when the previous one is over.                        *)
RECURSIVE Alt(_, _, _)
Alt(s, i, ph) ==     \* ph: 0 idle, 1 attempted, 2 up, 3 over
  IF i > Len(s) THEN TRUE
  ELSE CASE s[i] = "attempt" -> ph \in {0, 3} /\ Alt(s, i + 1, 1)
         [] s[i] = "connected" -> ph = 1 /\ Alt(s, i + 1, 2)
         [] OTHER -> ph \in {1, 2} /\ Alt(s, i + 1, 3)
Alternate == Alt(ann, 1, 0)
Anns == SelectSeq(ann, LAMBDA x : x # "attempt")
IsUp == Anns # <<>> /\ Anns[Len(Anns)] = "connected"
(* The flag, the state and the last announcement agree.                             *)
Consistent == /\ (net = "up") = (conn /\ net # "closing")
              /\ conn = IsUp
              /\ net = "down" => link \in {"none", "dead"}
(* Nothing arrives that was not sent; nothing is delivered upward by a layer that   *)
(* is down (DeliverUp requires conn); nothing reaches a peer from a layer that is   *)
(* down (Send drops it).                                                            *)
NoInvention == got <= c2s /\ up <= s2c
(* An orderly close by the peer loses nothing.                                       *)
OrderlyCloseComplete == cause = "eof" => up = s2c
(* Every end of a connection is eventually announced and the layer returns to down. *)
EventuallyDown == [](link \in {"peerclosed", "reset", "refusing", "failed"} => <>(net = "down"))
Bound == Len(ann) <= 3 * MaxConn
==============================================================================
