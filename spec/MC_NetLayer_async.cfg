SPECIFICATION Spec
CONSTANTS
  Sizes = {1, 3}
  MaxConn = 2
  MaxOps = 3
  EOFAfterData = TRUE
  SyncClose = FALSE
INVARIANT Alternate
INVARIANT Consistent
INVARIANT NoInvention
INVARIANT Bound
INVARIANT OrderlyCloseComplete
PROPERTY EventuallyDown
CHECK_DEADLOCK FALSE
