------------------------------ MODULE MediaCipher ------------------------------
(* MediaCipher (yowsup/layers/protocol_media/mediacipher.py).                     *)
(* Symbolic layer: derived = HKDF(ref, Info[kind], 112) split into                *)
(*   iv (16) | key (32) | mac key (32) | unused;                                  *)
(*   Encrypt(p) = CBC(key, iv, Pad(p)) ++ Take(HMAC256(mackey, iv ++ ct), 10);    *)
(*   Decrypt verifies the tag BEFORE decrypting, then unpads.                     *)
(* Concrete layer for the padding logic: block size B, PKCS7 over small bytes,    *)
(* ideal block cipher and ideal MAC (any change of input or key changes output).  *)
EXTENDS Naturals, Sequences, SequencesExt, FiniteSets, TLC, Json

CONSTANTS B,          \* block size of the model (real: 16)
          MaxLen,     \* plaintext lengths 0..MaxLen
          PadAlways   \* TRUE: always pad (claimed / WhatsApp); FALSE: pad only when unaligned (as read at 4127b7c)

Kinds == {"image", "audio", "video", "document"}
Info == [k \in Kinds |-> CASE k = "image" -> "WhatsApp Image Keys" [] k = "audio" -> "WhatsApp Audio Keys"
                           [] k = "video" -> "WhatsApp Video Keys" [] k = "document" -> "WhatsApp Document Keys"]
RefKeys == {"r1", "r2"}
TagLen == 10

\* plaintexts: all sequences of length <= MaxLen over one content symbol and the values 1..B
\* (so that plaintext tails that look like padding are included)
PBytes == {0, 1, B}
Plain == UNION { [1..n -> PBytes] : n \in 0..MaxLen }

PadN(n) == B - (n % B)
Pad(p) == IF PadAlways \/ Len(p) % B # 0 THEN p \o [i \in 1..PadN(Len(p)) |-> PadN(Len(p))] ELSE p
UnpadOK(q) == /\ Len(q) > 0 /\ Len(q) % B = 0
              /\ LET n == q[Len(q)] IN n >= 1 /\ n <= B /\ n <= Len(q) /\ \A i \in (Len(q) - n + 1)..Len(q) : q[i] = n
Unpad(q) == SubSeq(q, 1, Len(q) - q[Len(q)])

\* ideal primitives: a ciphertext body remembers what it encrypts and under which derived keys;
\* a tag remembers what it authenticates
Derive(ref, kind) == [ref |-> ref, info |-> Info[kind]]
Enc(p, ref, kind) ==
  LET d == Derive(ref, kind) body == [pt |-> Pad(p), d |-> d, mods |-> {}] IN
  [body |-> body, blen |-> Len(Pad(p)), tag |-> [over |-> body, d |-> d], tlen |-> TagLen]

\* decrypt: reject unless the tag matches a recomputation under the receiver's derived keys
Dec(c, ref, kind) ==
  LET d == Derive(ref, kind) IN
  IF c.tlen # TagLen \/ c.tag # [over |-> c.body, d |-> d] THEN [ok |-> FALSE, why |-> "mac", pt |-> <<>>]
  ELSE IF c.body.mods # {} \/ c.body.d # d THEN [ok |-> FALSE, why |-> "garbage", pt |-> <<>>]
  ELSE IF ~UnpadOK(c.body.pt) THEN [ok |-> FALSE, why |-> "padding", pt |-> <<>>]
  ELSE [ok |-> TRUE, why |-> "", pt |-> Unpad(c.body.pt)]

\* tampering
FlipBody(c, i) == [c EXCEPT !.body.mods = @ \cup {i}]
FlipTag(c, i)  == [c EXCEPT !.tag = [over |-> <<"flipped", i>>, d |-> c.tag.d]]
Truncate(c, k) == IF k <= c.tlen THEN [c EXCEPT !.tlen = c.tlen - k, !.tag = [over |-> <<"short", k>>, d |-> c.tag.d]]
                  ELSE [c EXCEPT !.tlen = 0, !.blen = c.blen - (k - c.tlen), !.body.mods = {"cut"}, !.tag = [over |-> <<"short", k>>, d |-> c.tag.d]]

\* C15, design level
RoundTrip == \A p \in Plain, r \in RefKeys, k \in Kinds :
                LET x == Dec(Enc(p, r, k), r, k) IN x.ok /\ x.pt = p
Length == \A p \in Plain : Enc(p, "r1", "image").blen = ((Len(p) \div B) + 1) * B
TamperRejected ==
  \A p \in Plain :
     LET c == Enc(p, "r1", "image") IN
     /\ \A i \in 1..c.blen : ~Dec(FlipBody(c, i), "r1", "image").ok
     /\ \A i \in 1..TagLen : ~Dec(FlipTag(c, i), "r1", "image").ok
     /\ \A k \in 1..(c.blen + TagLen) : ~Dec(Truncate(c, k), "r1", "image").ok
     /\ ~Dec(c, "r2", "image").ok
     /\ \A k \in Kinds \ {"image"} : ~Dec(c, "r1", k).ok

\* the WhatsApp layout as a term over uninterpreted symbols, evaluated by the harness with
\* independent primitives (cryptography's HKDF / AES-CBC, hmac)
LayoutTerm ==
  [derived |-> [fn |-> "hkdf_sha256", ikm |-> "ref", salt |-> "zeros32", info |-> "Info[kind]", len |-> 112],
   iv |-> <<0, 16>>, key |-> <<16, 48>>, mackey |-> <<48, 80>>,
   ct |-> [fn |-> "aes_cbc", key |-> "key", iv |-> "iv", pt |-> [fn |-> "pkcs7_always", block |-> 16, of |-> "plaintext"]],
   tag |-> [fn |-> "take", n |-> TagLen, of |-> [fn |-> "hmac_sha256", key |-> "mackey", msg |-> <<"iv", "ct">>]],
   out |-> <<"ct", "tag">>,
   info |-> Info]

\* expected verdict table for the harness: per (plaintext length class, tamper operation)
LenClasses == { [blocks |-> b, rem |-> r] : b \in 0..(MaxLen \div B), r \in 0..(B - 1) } 
Cases == { [len |-> n, ctlen |-> ((n \div B) + 1) * B + TagLen, padn |-> PadN(n)] : n \in 0..MaxLen }
==============================================================================
