------------------------------ MODULE ConfigStore ------------------------------
(* Account configuration files (yowsup/config/manager.py, yowsup/common/tools.py,  *)
(* yowsup/profile/profile.py): the profile directory, the config file in two        *)
(* formats, saving decomposed into file-system operations, crash between any two,   *)
(* loading by profile name / by path with or without extension.                     *)
EXTENDS Naturals, Sequences, FiniteSets, TLC, Json

CONSTANTS Cfgs,        \* abstract configurations (distinct contents)
          MaxSaves,
          CreateDir,   \* TRUE: saving creates a missing profile directory (claimed); FALSE: only its parent (as read at 4127b7c)
          AtomicSave,  \* TRUE: write a temporary file, then rename (claimed); FALSE: truncate and rewrite in place (as read)
          NameByType   \* TRUE: the file name follows the format, stale other-format file removed (claimed);
                       \* FALSE: every format is written to config.json (as read)

Fmts == {"json", "keyval"}
Ext(f) == IF f = "json" THEN "config.json" ELSE "config.yo"
Other(f) == IF f = "json" THEN "config.yo" ELSE "config.json"
Names == {"config.json", "config.yo", "tmp"}
None == [fmt |-> "-", cfg |-> "-", st |-> "none"]

VARIABLES dir,     \* profile directory exists
          files,   \* Names -> None | [fmt, cfg, st \in {"empty","partial","complete"}]
          prog, pc,\* file-system operations of the save in progress
          prev,    \* ghost: configuration of the last completed save ("nothing" before the first)
          next,    \* ghost: configuration being saved
          failed,  \* the save in progress raised
          nsaves, act

vars == <<dir, files, prog, pc, prev, next, failed, nsaves>>
View == vars

Target(f) == IF NameByType THEN Ext(f) ELSE "config.json"
SaveProgram(f, c) ==
  (IF CreateDir THEN << [op |-> "mkdir"] >> ELSE <<>>)
  \o (IF AtomicSave
      THEN << [op |-> "open", n |-> "tmp", f |-> f, c |-> c], [op |-> "write1", n |-> "tmp"], [op |-> "write2", n |-> "tmp"],
              [op |-> "close", n |-> "tmp"], [op |-> "rename", n |-> Target(f)] >>
      ELSE << [op |-> "open", n |-> Target(f), f |-> f, c |-> c], [op |-> "write1", n |-> Target(f)], [op |-> "write2", n |-> Target(f)],
              [op |-> "close", n |-> Target(f)] >>)
  \o (IF NameByType THEN << [op |-> "rmstale", n |-> Other(f)] >> ELSE <<>>)

\* what ConfigManager.load(profile_name) returns: first of config.yo, config.json that exists, parsed by its extension
Parse(n) == LET x == files[n] want == IF n = "config.json" THEN "json" ELSE "keyval" IN
            IF x.st # "complete" \/ x.fmt # want THEN "BROKEN" ELSE x.cfg
LoadProfile == IF files["config.yo"].st # "none" THEN Parse("config.yo")
               ELSE IF files["config.json"].st # "none" THEN Parse("config.json") ELSE "nothing"


Init == /\ dir \in BOOLEAN /\ files = [n \in Names |-> None] /\ prog = <<>> /\ pc = 0
        /\ prev = "nothing" /\ next = "nothing" /\ failed = FALSE /\ nsaves = 0 /\ act = [name |-> "Init"]

BeginSave(f, c) ==
  /\ prog = <<>> /\ nsaves < MaxSaves /\ ~failed
  /\ prog' = SaveProgram(f, c) /\ pc' = 1 /\ next' = c /\ nsaves' = nsaves + 1
  /\ act' = [name |-> "BeginSave", fmt |-> f, cfg |-> c]
  /\ UNCHANGED <<dir, files, prev, failed>>

Step ==
  /\ prog # <<>> /\ pc <= Len(prog) /\ ~failed
  /\ LET o == prog[pc] IN
     CASE o.op = "mkdir"  -> dir' = TRUE /\ UNCHANGED <<files, failed>>
       [] o.op = "open"   -> IF dir THEN files' = [files EXCEPT ![o.n] = [fmt |-> o.f, cfg |-> o.c, st |-> "empty"]] /\ UNCHANGED <<dir, failed>>
                                    ELSE failed' = TRUE /\ UNCHANGED <<dir, files>>     \* FileNotFoundError
       [] o.op = "write1" -> files' = [files EXCEPT ![o.n].st = "partial"] /\ UNCHANGED <<dir, failed>>
       [] o.op = "write2" -> files' = [files EXCEPT ![o.n].st = "complete"] /\ UNCHANGED <<dir, failed>>
       [] o.op = "close"  -> UNCHANGED <<dir, files, failed>>
       [] o.op = "rename" -> files' = [files EXCEPT ![o.n] = files["tmp"], !["tmp"] = None] /\ UNCHANGED <<dir, failed>>
       [] o.op = "rmstale"-> files' = [files EXCEPT ![o.n] = None] /\ UNCHANGED <<dir, failed>>
  /\ pc' = pc + 1
  /\ act' = [name |-> "Step", op |-> prog[pc].op]
  /\ UNCHANGED <<prog, prev, next, nsaves>>

EndSave ==
  /\ prog # <<>> /\ pc > Len(prog) /\ ~failed
  /\ prog' = <<>> /\ pc' = 0 /\ prev' = next
  /\ act' = [name |-> "EndSave"]
  /\ UNCHANGED <<dir, files, next, failed, nsaves>>

Crash ==
  /\ prog # <<>> /\ ~failed
  /\ prog' = <<>> /\ pc' = 0
  /\ prev' = IF LoadProfile = next THEN next ELSE prev     \* whichever survived is the starting point of later saves
  /\ act' = [name |-> "Crash", at |-> pc - 1]
  /\ UNCHANGED <<dir, files, next, failed, nsaves>>

Next == (\E f \in Fmts, c \in Cfgs : BeginSave(f, c)) \/ Step \/ EndSave \/ Crash
Spec == Init /\ [][Next]_<<vars, act>>

-----------------------------------------------------------------------------
\* C19: a completed save is what loads afterwards
SaveThenLoad == (prog = <<>> /\ ~failed /\ act.name = "EndSave") => LoadProfile = prev
\* C19: saving never fails, also for a profile that was never used
NeverFails == ~failed
\* C19: at every instant (= any crash point) the profile loads as the previous or the new configuration
CrashSafe == LoadProfile \in {prev, next}
\* the key pair is never lost: once a configuration has been saved, loading never yields nothing/garbage
NeverLost == prev # "nothing" => LoadProfile \in Cfgs

St == [dir |-> dir, files |-> files, pc |-> pc, prog |-> prog, prev |-> prev, next |-> next, failed |-> failed, nsaves |-> nsaves,
       load |-> LoadProfile]
Edge == PrintT(ToJson([from |-> St, act |-> act', to |-> St']))
==============================================================================
