SPECIFICATION FairSpec
CONSTANTS
  MaxAttempts = 1
  MaxData = 2
  Variants = {"XX", "IK", "IKnew", "BAD"}
  FreshPerAttempt = TRUE
VIEW View
INVARIANT InOrder
INVARIANT NothingForeign
INVARIANT KeyStored
INVARIANT FailureReported
PROPERTY Establishes
CHECK_DEADLOCK FALSE
