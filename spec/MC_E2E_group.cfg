SPECIFICATION MSpec
CONSTANTS
  Acc = {"a", "b", "c"}
  Members = {"a", "b", "c"}
  MaxMsgs = 1
  MaxFaults = 1
  MaxOpen = 1
  MaxRetries = 1
  ServerAcks = FALSE
  ReshowAllowed = FALSE
CONSTRAINT Bounded
INVARIANT AtMostOnce
INVARIANT OnlyRecipients
INVARIANT ReceiptsFounded
INVARIANT Complete
CHECK_DEADLOCK FALSE
