------------------------------- MODULE Lifecycle -------------------------------
(* Connection lifecycle of the assembled stack: network layer + dispatcher         *)
(* (yowsup/layers/network/layer.py), authentication layer, noise layer's protocol  *)
(* state, interface layer's reconnect flag, keep-alive of the iq layer             *)
(* (protocol_iq/layer.py), the detached DISCONNECTED event and the stack loop.     *)
(* The handshake itself is atomic here (NoiseLayer.tla has its interleavings).     *)
EXTENDS Naturals, Sequences, SequencesExt, FiniteSets, TLC, Json

CONSTANTS MaxEvents,      \* environment events per history
          ReconnectOpt,   \* PROP_RECONNECT_ON_STREAM_ERR
          PingOpt,        \* keep-alive on (ping interval > 0)
          Kinds,          \* stream error kinds the server may send
          LoopBeforeConnect \* TRUE: a connect request is served after the stack loop has delivered every pending DISCONNECTED
                            \*       event (claimed); FALSE: it may overtake them (as read at 4127b7c: the event is detached)

VARIABLES net,        \* network layer state: "down" | "connecting" | "up" | "closing"
          conn,       \* its `connected` flag
          nd,         \* dispatchers created so far; the current one is nd
          dopen,      \* the current dispatcher's connection is open
          proto,      \* noise protocol state: "init" | "transport"
          authed,     \* success received on this connection
          reconnect,  \* interface layer's reconnect flag
          pingq,      \* ids of unanswered pings (the iq layer's ping queue)
          preg,       \* ids of pings whose reply is still awaited by the iq layer's request registry
          pingt,      \* keep-alive thread running
          npings,     \* pings issued so far
          dq,         \* detached queue: deferred remainders of DISCONNECTED walks
          app,        \* what the application saw, in order
          wire,       \* dispatcher calls, in order: [op, d, open]
          n, act
vars == <<net, conn, nd, dopen, proto, authed, reconnect, pingq, preg, pingt, npings, dq, app, wire, n>>
View == vars

Init == /\ net = "down" /\ conn = FALSE /\ nd = 0 /\ dopen = FALSE /\ proto = "init" /\ authed = FALSE /\ reconnect = FALSE
        /\ pingq = {} /\ preg = {} /\ pingt = FALSE /\ npings = 0 /\ dq = <<>> /\ app = <<>> /\ wire = <<>> /\ n = 0 /\ act = [name |-> "Init"]

W(op) == [op |-> op, d |-> nd, open |-> dopen]
Tick == n' = n + 1

\* createConnection (interface.connect() / network interface): a new dispatcher, unless already connected
DoConnect(a, w) == IF conn THEN [app |-> a, wire |-> w, nd |-> nd, net |-> net]
                   ELSE [app |-> a, wire |-> Append(w, [op |-> "connect", d |-> nd + 1, open |-> FALSE]), nd |-> nd + 1, net |-> "connecting"]

ConnectRequest ==
  /\ n < MaxEvents /\ net = "down" /\ Tick
  /\ (LoopBeforeConnect => dq = <<>>)
  /\ LET r == DoConnect(app, wire) IN app' = r.app /\ wire' = r.wire /\ nd' = r.nd /\ net' = r.net
  /\ dopen' = FALSE
  /\ act' = [name |-> "ConnectRequest"]
  /\ UNCHANGED preg
  /\ UNCHANGED <<conn, proto, authed, reconnect, pingq, pingt, npings, dq>>

\* the dispatcher reports the connection: CONNECTED walks up (reconnect flag cleared, application told), the auth layer
\* broadcasts AUTH, the noise layer writes its prologue and performs the handshake (here: to completion)
DispatcherConnected ==
  /\ n < MaxEvents /\ net = "connecting" /\ Tick
  /\ net' = "up" /\ conn' = TRUE /\ dopen' = TRUE /\ reconnect' = FALSE /\ authed' = FALSE
  /\ app' = app \o << "connected", "auth" >>
  /\ wire' = Append(wire, [op |-> "handshake", d |-> nd, open |-> TRUE])
  /\ proto' = "transport"
  /\ act' = [name |-> "DispatcherConnected", fresh |-> (proto = "init")]
  /\ UNCHANGED preg
  /\ UNCHANGED <<nd, pingq, pingt, npings, dq>>

\* destroyConnection: dispatcher.disconnect() -> onDisconnected
Down(a, w, q) ==     \* onDisconnected: only a state change announces; DISCONNECTED is detached
  IF net = "down" THEN [app |-> a, wire |-> w, dq |-> q, changed |-> FALSE]
  ELSE [app |-> a, wire |-> w, dq |-> Append(q, "disconnected"), changed |-> TRUE]
\* DISCONNECT broadcast from above: the iq layer stops its keep-alive on the way down, the network layer closes
Close(a) ==
  /\ wire' = Append(wire, W("disconnect"))
  /\ LET r == Down(a, wire, dq) IN app' = r.app /\ dq' = r.dq
  /\ net' = "down" /\ conn' = FALSE /\ dopen' = FALSE
  /\ pingt' = FALSE /\ pingq' = {}

Success ==
  /\ n < MaxEvents /\ conn /\ proto = "transport" /\ ~authed /\ Tick
  /\ authed' = TRUE /\ app' = app \o << "authed", "success" >>
  /\ IF PingOpt /\ ~pingt THEN pingt' = TRUE /\ pingq' = {} ELSE UNCHANGED <<pingt, pingq>>
  /\ act' = [name |-> "Success"]
  /\ UNCHANGED preg
  /\ UNCHANGED <<net, conn, nd, dopen, proto, reconnect, npings, dq, wire>>

Failure ==
  /\ n < MaxEvents /\ conn /\ proto = "transport" /\ ~authed /\ Tick
  /\ Close(Append(app, "failure"))
  /\ act' = [name |-> "Failure"]
  /\ UNCHANGED preg
  /\ UNCHANGED <<nd, proto, authed, reconnect, npings>>

StreamError(k) ==
  /\ n < MaxEvents /\ conn /\ proto = "transport" /\ Tick
  /\ reconnect' = (ReconnectOpt /\ k # "conflict")
  /\ Close(Append(app, "streamerror:" \o k))
  /\ act' = [name |-> "StreamError", kind |-> k]
  /\ UNCHANGED preg
  /\ UNCHANGED <<nd, proto, authed, npings>>

\* the application asks for a disconnect (only while a connection is up or being established)
DisconnectRequest ==
  /\ n < MaxEvents /\ net \in {"connecting", "up"} /\ Tick
  /\ Close(app)
  /\ act' = [name |-> "DisconnectRequest"]
  /\ UNCHANGED preg
  /\ UNCHANGED <<nd, proto, authed, reconnect, npings>>

\* the socket fails / the peer closes: the dispatcher reports it
ConnectionLost(why) ==
  /\ n < MaxEvents /\ net \in {"connecting", "up"} /\ Tick
  /\ LET r == Down(app, wire, dq) IN app' = r.app /\ dq' = r.dq
  /\ net' = "down" /\ conn' = FALSE /\ dopen' = FALSE
  /\ act' = [name |-> "ConnectionLost", why |-> why]
  /\ UNCHANGED preg
  /\ UNCHANGED <<nd, proto, authed, reconnect, pingq, pingt, npings, wire>>

\* the stack loop runs the deferred remainder of a DISCONNECTED walk: noise resets its protocol, the keep-alive stops,
\* the application is told, the interface layer reconnects if it decided to
LoopStep ==
  /\ dq # <<>>
  /\ dq' = Tail(dq)
  /\ proto' = "init" /\ pingt' = FALSE /\ pingq' = {} /\ authed' = FALSE
  /\ IF reconnect
     THEN LET r == DoConnect(Append(app, "disconnected"), wire) IN
          /\ app' = r.app /\ wire' = r.wire /\ nd' = r.nd /\ net' = r.net /\ reconnect' = FALSE
          /\ (IF r.nd # nd THEN dopen' = FALSE ELSE UNCHANGED dopen)
     ELSE app' = Append(app, "disconnected") /\ UNCHANGED <<wire, nd, net, reconnect, dopen>>
  /\ act' = [name |-> "LoopStep"]
  /\ UNCHANGED preg
  /\ UNCHANGED <<conn, npings, n>>

\* the keep-alive thread: a ping is due
PingTick ==
  /\ n < MaxEvents /\ pingt /\ Tick
  /\ npings' = npings + 1
  /\ IF pingq # {}
     THEN \* the previous ping is still unanswered: ping timeout -> DISCONNECT
          Close(app) /\ UNCHANGED <<nd, proto, authed, reconnect>>
     ELSE /\ pingq' = {npings + 1}
          /\ wire' = IF conn THEN Append(wire, W("ping")) ELSE wire
          /\ UNCHANGED <<net, conn, nd, dopen, proto, authed, reconnect, pingt, dq, app>>
  /\ preg' = IF pingq = {} THEN preg \cup {npings + 1} ELSE preg
  /\ act' = [name |-> "PingTick", id |-> npings + 1, timeout |-> pingq # {}]

Pong(id) ==
  /\ n < MaxEvents /\ conn /\ authed /\ id \in 1..npings /\ Tick
  /\ pingq' = IF id \in pingq /\ id \in preg THEN {} ELSE pingq
  /\ preg' = preg \ {id}
  /\ app' = IF id \in preg THEN Append(app, "pong") ELSE app       \* a replayed / unknown reply reaches nobody
  /\ act' = [name |-> "Pong", id |-> id]
  /\ UNCHANGED <<net, conn, nd, dopen, proto, authed, reconnect, pingt, npings, dq, wire>>

Next == ConnectRequest \/ DispatcherConnected \/ Success \/ Failure \/ (\E k \in Kinds : StreamError(k)) \/ DisconnectRequest
        \/ ConnectionLost("socket-error") \/ ConnectionLost("peer-close") \/ LoopStep \/ PingTick \/ (\E id \in 1..3 : Pong(id))
Spec == Init /\ [][Next]_<<vars, act>>

-----------------------------------------------------------------------------
Ann == SelectSeq(app, LAMBDA x : x \in {"connected", "disconnected"})
\* C16: each connection announced as up is announced as down exactly once before the next one is announced up
\* (a connection that never came up may be announced down without a preceding "connected")
RECURSIVE Scan(_, _, _)
Scan(seq, i, up) == IF i > Len(seq) THEN [ok |-> TRUE, up |-> up]
                    ELSE IF seq[i] = "connected" THEN (IF up THEN [ok |-> FALSE, up |-> up] ELSE Scan(seq, i + 1, TRUE))
                    ELSE Scan(seq, i + 1, FALSE)
Alternate == Scan(Ann, 1, FALSE).ok
\* a connection announced up and not yet announced down is either still up or its announcement is waiting in the stack loop
Balanced == Scan(Ann, 1, FALSE).up => (conn \/ dq # <<>>)
Count(x) == Len(SelectSeq(app, LAMBDA y : y = x))
OneLoginPerConnect == Count("auth") = Count("connected")
OneAuthedPerSuccess == Count("authed") = Count("success")
\* nothing is ever written to a connection that is down
NoWriteWhenDown == \A i \in 1..Len(wire) : wire[i].op \in {"handshake", "ping"} => wire[i].open
\* a later connect starts a fresh login: the transport state was reset before the handshake
FreshLogin == act.name = "DispatcherConnected" => act.fresh
\* failure and stream errors reach the application and close the connection
ErrorsClose == act.name \in {"Failure", "StreamError"} => (~conn /\ net = "down")
\* reconnect iff stream error, not conflict, option on
ReconnectRule == act.name = "StreamError" => (reconnect = (ReconnectOpt /\ act.kind # "conflict"))
\* keep-alive: closes exactly when a ping is still unanswered at the next tick
PingRule == act.name = "PingTick" => (act.timeout = (~conn /\ net = "down" /\ ~pingt))

St == [net |-> net, conn |-> conn, nd |-> nd, proto |-> proto, authed |-> authed, reconnect |-> reconnect, pingq |-> SetToSeq(pingq), pingt |-> pingt,
       dq |-> dq, app |-> app, wire |-> wire, n |-> n, npings |-> npings]
Edge == PrintT(ToJson([from |-> St, act |-> act', to |-> St']))
==============================================================================
