------------------------------- MODULE Channel -------------------------------
(* Reliable FIFO channel: the abstract target that Segments, NoiseLayer and     *)
(* SendPath refine.  `inflight` are messages handed to the channel and not yet  *)
(* delivered, `recv` what the receiver has been shown.                          *)
EXTENDS Naturals, Sequences
VARIABLES inflight, recv

CInit == inflight = <<>> /\ recv = <<>>
CSend == \E m \in {inflight' [Len(inflight')]} : inflight' = Append(inflight, m) /\ UNCHANGED recv
(* Delivery may hand over several messages at once (coalesced chunks).          *)
CRecv == \E k \in 1..Len(inflight) :
            /\ recv' = recv \o SubSeq(inflight, 1, k)
            /\ inflight' = SubSeq(inflight, k + 1, Len(inflight))
CNext == CRecv \/ (Len(inflight') = Len(inflight) + 1 /\ SubSeq(inflight', 1, Len(inflight)) = inflight /\ UNCHANGED recv)
CSpec == CInit /\ [][CNext]_<<inflight, recv>>
==============================================================================
