SPECIFICATION Spec
CONSTANTS
  MaxReq = 2
  MaxDeliveries = 3
  MatchRepliesOnly = TRUE
  HolderForwardsErrors = TRUE
  DirectErrorsForwarded = FALSE
VIEW View
INVARIANT Correlation
INVARIANT NoLeak
INVARIANT PingsAnswered
INVARIANT StillWaiting
CHECK_DEADLOCK FALSE
