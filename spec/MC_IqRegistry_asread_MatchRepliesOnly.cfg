SPECIFICATION Spec
CONSTANTS
  MaxReq = 2
  MaxDeliveries = 3
  MatchRepliesOnly = FALSE
  HolderForwardsErrors = TRUE
  DirectErrorsForwarded = TRUE
VIEW View
INVARIANT Correlation
INVARIANT NoLeak
INVARIANT PingsAnswered
INVARIANT StillWaiting
CHECK_DEADLOCK FALSE
