SPECIFICATION Spec
CONSTANTS
  Sym = {0, 2}
  MaxLen = 2
  MaxFrames = 0
  SendLens = {1, 65536, 16777215, 16777216, 16777217}
  AllowToggle = TRUE
  MaxLoss = 0
  ResetOnDisconnect = TRUE
VIEW View




ACTION_CONSTRAINT Edge
CHECK_DEADLOCK FALSE
