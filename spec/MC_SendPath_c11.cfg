SPECIFICATION Spec
CONSTANTS
  Threads = {"a", "b"}
  Jobs = [a |-> <<[kind |-> "send", entry |-> "top", fault |-> "none"], [kind |-> "send", entry |-> "top", fault |-> "none"]>>,
          b |-> <<[kind |-> "send", entry |-> "mid", fault |-> "none"]>>]
  ReleaseOnException = TRUE
VIEW View
INVARIANT WholeFrames
INVARIANT CounterOrder
INVARIANT ExactlyOnce
INVARIANT NotStuck
CHECK_DEADLOCK FALSE
