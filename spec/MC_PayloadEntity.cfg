SPECIFICATION Spec
CONSTANTS
  MaxOps = 5
VIEW View
PROPERTY Fresh
INVARIANT CopyStable
CHECK_DEADLOCK FALSE
