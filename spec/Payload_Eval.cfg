SPECIFICATION Spec
