SPECIFICATION Spec
CONSTANTS
  Keys = {"k1", "k2"}
  Vals = {"v1", "v2"}
  EnabledOps = {"storeSession", "saveIdentity", "deleteSession", "storePreKey", "removePreKey", "setAsSent", "setAllAsSent", "setSentEnds", "storeSignedPreKey", "removeSignedPreKey", "storeSenderKey"}
  MaxOps = 3
  ReplaceInOneTxn = FALSE
VIEW View
INVARIANT Durable
INVARIANT AllOrNothing
PROPERTY SentMonotone
CHECK_DEADLOCK FALSE
