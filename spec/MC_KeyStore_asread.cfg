SPECIFICATION Spec
CONSTANTS
  Keys = {"k1", "k2"}
  Vals = {"v1", "v2"}
  MaxOps = 3
  ReplaceInOneTxn = FALSE
VIEW View
INVARIANT Durable
INVARIANT AllOrNothing
PROPERTY SentMonotone
CHECK_DEADLOCK FALSE
