------------------------------ MODULE StackBuild ------------------------------
(* Assembly of a stack (yowsup/stacks/yowstack.py): YowStackBuilder programs    *)
(* (push / pop / pushDefaultLayers / build), direct construction from a tuple   *)
(* in either order convention, implicit (tuple) and explicit (YowParallelLayer) *)
(* groups, classes and instances, the default-layer / default-stack helpers.    *)
EXTENDS Naturals, Sequences, SequencesExt, TLC, Json

CONSTANTS MaxOps

VARIABLES prog,    \* builder operations performed so far (ghost)
          layers,  \* the builder's layer tuple, bottom first
          built,   \* <<>> (not built) or the constructed stack: Seq of slots, bottom first
          act

vars == <<prog, layers, built>>
View == vars

\* item kinds: class, instance, implicit group (tuple of classes), explicit group
Items == { [k |-> "cls", n |-> <<"A">>], [k |-> "cls", n |-> <<"B">>], [k |-> "inst", n |-> <<"C">>],
           [k |-> "tuple", n |-> <<"A", "B">>], [k |-> "par", n |-> <<"B", "C", "A">>], [k |-> "par", n |-> <<"A">>] }

Core == << "YowNetworkLayer", "YowNoiseSegmentsLayer", "YowNoiseLayer", "YowCoderLayer", "YowLoggerLayer" >>
Basic == << "YowAuthenticationProtocolLayer", "YowMessagesProtocolLayer", "YowReceiptProtocolLayer",
            "YowAckProtocolLayer", "YowPresenceProtocolLayer", "YowIbProtocolLayer", "YowIqProtocolLayer",
            "YowNotificationsProtocolLayer", "YowContactsIqProtocolLayer", "YowChatstateProtocolLayer",
            "YowCallsProtocolLayer" >>
Opt(b, n) == IF b THEN <<n>> ELSE <<>>
Protocol(g, m, p, pr) == Basic \o Opt(g, "YowGroupsProtocolLayer") \o Opt(m, "YowMediaProtocolLayer")
                         \o Opt(p, "YowPrivacyProtocolLayer") \o Opt(pr, "YowProfilesProtocolLayer")
Single(n) == [k |-> "cls", n |-> <<n>>]
DefaultLayers(g, m, p, pr) ==
  [i \in 1..Len(Core) |-> Single(Core[i])]
  \o << Single("AxolotlControlLayer"),
        [k |-> "par", n |-> <<"AxolotlSendLayer", "AxolotlReceivelayer">>],
        [k |-> "par", n |-> Protocol(g, m, p, pr)] >>

\* what construction makes of an item: a slot = [group, names]
Slot(it) == [group |-> it.k \in {"tuple", "par"}, names |-> it.n]
Construct(items) == [i \in 1..Len(items) |-> Slot(items[i])]

Init == prog = <<>> /\ layers = <<>> /\ built = <<>> /\ act = [name |-> "Init"]

Push(it) == /\ built = <<>> /\ Len(prog) < MaxOps
            /\ layers' = Append(layers, it) /\ prog' = Append(prog, [op |-> "push", it |-> it])
            /\ act' = [name |-> "Push", it |-> it] /\ UNCHANGED built
Pop ==      /\ built = <<>> /\ Len(prog) < MaxOps
            /\ layers' = IF layers = <<>> THEN <<>> ELSE SubSeq(layers, 1, Len(layers) - 1)
            /\ prog' = Append(prog, [op |-> "pop"])
            /\ act' = [name |-> "Pop"] /\ UNCHANGED built
PushDefault == /\ built = <<>> /\ Len(prog) < MaxOps
               /\ \A i \in 1..Len(prog) : prog[i].op # "pushDefault"
               /\ layers' = layers \o DefaultLayers(TRUE, TRUE, TRUE, TRUE)
               /\ prog' = Append(prog, [op |-> "pushDefault"])
               /\ act' = [name |-> "PushDefault"] /\ UNCHANGED built
Build == /\ built = <<>> /\ layers # <<>>
         /\ built' = Construct(layers)
         /\ act' = [name |-> "Build"] /\ UNCHANGED <<prog, layers>>

Next == (\E it \in Items : Push(it)) \/ Pop \/ PushDefault \/ Build
Spec == Init /\ [][Next]_<<vars, act>>

\* the built stack has the pushed-and-not-popped layers in push order (bottom first)
RECURSIVE Eval(_)
Eval(p) == IF p = <<>> THEN <<>>
           ELSE LET r == Eval(SubSeq(p, 1, Len(p) - 1)) o == p[Len(p)] IN
                CASE o.op = "push" -> Append(r, o.it)
                  [] o.op = "pop" -> IF r = <<>> THEN <<>> ELSE SubSeq(r, 1, Len(r) - 1)
                  [] o.op = "pushDefault" -> r \o DefaultLayers(TRUE, TRUE, TRUE, TRUE)
BuiltIsProgram == built # <<>> => built = Construct(Eval(prog))
LayersIsProgram == layers = Eval(prog)

\* direct construction: YowStack(items, reversed) - reversed=TRUE (default) lists the top first
Direct(items, rev) == Construct(IF rev THEN Reverse(items) ELSE items)
\* default helpers (static cases, dumped once)
HelperCases ==
  { [g |-> g, m |-> m, p |-> p, pr |-> pr, layers |-> Construct(DefaultLayers(g, m, p, pr))] :
      g \in BOOLEAN, m \in BOOLEAN, p \in BOOLEAN, pr \in BOOLEAN }
ASSUME PrintT(ToJson([helpers |-> SetToSeq(HelperCases)]))
\* selected modules, exactly: group count and membership
ASSUME \A c \in HelperCases :
          LET top == c.layers[Len(c.layers)].names IN
          /\ Len(c.layers) = 8
          /\ ("YowGroupsProtocolLayer" \in ToSet(top)) = c.g
          /\ ("YowMediaProtocolLayer" \in ToSet(top)) = c.m
          /\ ("YowPrivacyProtocolLayer" \in ToSet(top)) = c.p
          /\ ("YowProfilesProtocolLayer" \in ToSet(top)) = c.pr
          /\ Len(top) = 11 + (IF c.g THEN 1 ELSE 0) + (IF c.m THEN 1 ELSE 0) + (IF c.p THEN 1 ELSE 0) + (IF c.pr THEN 1 ELSE 0)

St == [prog |-> prog, layers |-> layers, built |-> built]
Edge == PrintT(ToJson([from |-> St, act |-> act', to |-> St']))
==============================================================================
