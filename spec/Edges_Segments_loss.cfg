SPECIFICATION Spec
CONSTANTS
  Sym = {0, 2}
  MaxLen = 2
  MaxFrames = 3
  SendLens = {}
  AllowToggle = FALSE
  MaxLoss = 1
  ResetOnDisconnect = TRUE
VIEW View
CHECK_DEADLOCK FALSE
ACTION_CONSTRAINT Edge
