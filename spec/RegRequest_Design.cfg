SPECIFICATION FSpec
INVARIANT Fresh
CONSTRAINT Progress
POSTCONDITION Accepted
CHECK_DEADLOCK FALSE
