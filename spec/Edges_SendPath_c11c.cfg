SPECIFICATION Spec
CONSTANTS
  Threads <- T3
  Jobs <- JobsC11c
  ReleaseOnException = TRUE
  SizeCheckedFirst = TRUE
VIEW View
CHECK_DEADLOCK FALSE
ACTION_CONSTRAINT Edge
