SPECIFICATION Spec
CONSTANTS
  Cfgs = {"c1", "c2"}
  MaxSaves = 3
  CreateDir = TRUE
  AtomicSave = TRUE
  NameByType = TRUE
VIEW View




CHECK_DEADLOCK FALSE
ACTION_CONSTRAINT Edge
