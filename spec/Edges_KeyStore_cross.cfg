SPECIFICATION Spec
CONSTANTS
  Keys = {"k1"}
  Vals = {"v1", "v2"}
  EnabledOps = {"storeSession", "saveIdentity", "deleteSession"}
  MaxOps = 4
  ReplaceInOneTxn = TRUE
VIEW View
CHECK_DEADLOCK FALSE
ACTION_CONSTRAINT Edge
