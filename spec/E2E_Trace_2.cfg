SPECIFICATION TSpec
CONSTANTS
  Acc = {"a", "b"}
  Members = {"a", "b"}
  MaxJoins = 99
  MaxMsgs = 99
  MaxFaults = 99
  MaxOpen = 99
  MaxRetries = 99
  ServerAcks = TRUE
  MaxReorder = 1
  ReshowAllowed = FALSE
CONSTRAINT Progress
POSTCONDITION Accepted
CHECK_DEADLOCK FALSE
