SPECIFICATION Spec
CONSTANTS
  MaxReq = 3
  MaxDeliveries = 4
  MatchRepliesOnly = TRUE
  HolderForwardsErrors = TRUE
  DirectErrorsForwarded = TRUE
VIEW View
INVARIANT Correlation
INVARIANT NoLeak
INVARIANT PingsAnswered
INVARIANT StillWaiting
CHECK_DEADLOCK FALSE
