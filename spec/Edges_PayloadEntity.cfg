SPECIFICATION Spec
CONSTANTS
  MaxOps = 5
VIEW View


CHECK_DEADLOCK FALSE
ACTION_CONSTRAINT Edge
