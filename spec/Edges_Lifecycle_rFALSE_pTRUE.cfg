SPECIFICATION Spec
CONSTANTS
  MaxEvents = 7
  ReconnectOpt = FALSE
  PingOpt = TRUE
  Kinds = {"conflict", "ack"}
  LoopBeforeConnect = TRUE
VIEW View









CHECK_DEADLOCK FALSE
ACTION_CONSTRAINT Edge
