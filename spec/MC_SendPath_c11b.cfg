SPECIFICATION FairSpec
CONSTANTS
  Threads <- T3
  Jobs <- JobsC11b
  ReleaseOnException = TRUE
  SizeCheckedFirst = TRUE
VIEW View
INVARIANT WholeFrames
INVARIANT CounterOrder
INVARIANT ExactlyOnce
INVARIANT UpInOrder
INVARIANT Reported
INVARIANT AllReceived
INVARIANT NoLockLeak
INVARIANT NotStuck
PROPERTY Terminates
CHECK_DEADLOCK FALSE
