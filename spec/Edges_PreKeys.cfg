SPECIFICATION Spec
CONSTANTS
  Batch = 2
  Threshold = 1
  MaxId = 6
  MaxSteps = 6
  FreshIds = TRUE
VIEW View




CHECK_DEADLOCK FALSE
ACTION_CONSTRAINT Edge
