SPECIFICATION Spec
CONSTANTS
  Acc = {"a", "b", "c"}
  MaxGen = 2
  TrustsAll = FALSE
VIEW View
PROPERTY PinStable
INVARIANT NoSilentAccept
INVARIANT SessionMatchesPin
INVARIANT Resumes
CHECK_DEADLOCK FALSE
