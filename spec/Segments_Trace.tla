---------------------------- MODULE Segments_Trace ----------------------------
(* Batched trace validation of the real YowNoiseSegmentsLayer against          *)
(* SegmentsAbs.  One trace = [lens: frame lengths the peer sent,               *)
(* ev: sequence of [n: chunk size handed to receive(), up: lengths of the      *)
(* frames the layer handed upward during that call]].                          *)
EXTENDS Naturals, Sequences, TLC, Json, IOUtils
VARIABLES lens, pos, upn, tid, l
Abs == INSTANCE SegmentsAbs

Traces == JsonDeserialize(IOEnv.TRACE_FILE)
N == Len(Traces)
ASSUME \A i \in 1..N : TLCSet(i, 0)

TInit == /\ tid \in 1..N
         /\ lens = Traces[tid].lens /\ pos = 0 /\ upn = 0 /\ l = 1

TDeliver ==
  /\ l <= Len(Traces[tid].ev)
  /\ LET e == Traces[tid].ev[l] IN
       /\ Abs!ADeliver(e.n)
       \* logged observable: exactly the next frames, by length, went up in this call
       /\ e.up = SubSeq(lens, upn + 1, upn')
  /\ l' = l + 1 /\ UNCHANGED tid

TSpec == TInit /\ [][TDeliver]_<<lens, pos, upn, tid, l>>
Progress == TLCSet(tid, IF TLCGet(tid) > l - 1 THEN TLCGet(tid) ELSE l - 1)
Inv == Abs!AInv
Accepted == \A i \in 1..N : IF TLCGet(i) = Len(Traces[i].ev) THEN TRUE
                            ELSE PrintT(ToJson([rejected |-> i, matched |-> TLCGet(i)])) /\ TRUE
==============================================================================
