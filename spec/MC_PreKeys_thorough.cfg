SPECIFICATION Spec
CONSTANTS
  Batch = 2
  Threshold = 1
  MaxId = 8
  MaxSteps = 10
  FreshIds = TRUE
VIEW View
INVARIANT FlagIffConfirmed
INVARIANT ReofferedAtLogin
INVARIANT OneKeyPerId
PROPERTY ConfirmedNotReoffered
CHECK_DEADLOCK FALSE
