SPECIFICATION Spec
CONSTANTS
  Keys = {"k1", "k2"}
  Vals = {"v1", "v2"}
  MaxOps = 2
  ReplaceInOneTxn = TRUE
VIEW View



CHECK_DEADLOCK FALSE
ACTION_CONSTRAINT Edge
