--------------------------------- MODULE E2E ---------------------------------
(* End-to-end messaging between several accounts through one store-and-forward   *)
(* server (C03).                                                                  *)
(*                                                                                *)
(* The server is modelled exactly as the harness' server double behaves: one FIFO *)
(* of stanzas sent by each client and not yet served (inq), one FIFO of stanzas    *)
(* queued for each client (outq); it serves the head of some inq (fan-out of a    *)
(* message to its recipients, forwarding of a receipt to the author, answering a   *)
(* control request) or delivers the head of some outq, possibly twice (dup) or     *)
(* with a damaged ciphertext (corrupt).                                            *)
(*                                                                                *)
(* A client is the library's whole stack; one client step = everything the stack   *)
(* does, synchronously, when the application submits a message or one stanza is    *)
(* delivered to it.  The step is described by its observable output                *)
(*     out = [sent: stanzas written to the wire, in order,                        *)
(*            shown: messages handed to the application,                           *)
(*            seen: receipts handed to the application,                            *)
(*            leak: frames that contain message plaintext]                         *)
(* and the LOCAL RULES a step must obey are collected in Labels(): the set of      *)
(* rules the step breaks.  The design theorem checked by TLC on the bounded model  *)
(* is: if every client step breaks no rule, then at every quiescent state each     *)
(* message was shown exactly once at each intended recipient and nowhere else, and *)
(* its author's application has seen each recipient's receipt (Complete), and no   *)
(* message is ever shown twice (AtMostOnce).  Trace validation (E2E_Trace) then    *)
(* evaluates the same Labels() on every step of recorded executions of the real    *)
(* stacks, so a step of the code that breaks a rule is named.                      *)
EXTENDS Naturals, Sequences, FiniteSets, TLC

CONSTANTS Acc,          \* account names
          Members,      \* initial members of the one group "G" (subset of Acc; empty: no group)
          MaxJoins,     \* membership changes in a behaviour (model bound)
          MaxMsgs,      \* messages submitted in a behaviour (model bound)
          MaxFaults,    \* server faults in a behaviour (model bound)
          MaxOpen,      \* outstanding control requests per client (model bound)
          ServerAcks,   \* the server acknowledges messages / receipts to their sender (TRUE for the double; FALSE shrinks the bounded model)
          MaxRetries,   \* retry receipts in a behaviour (model bound)
          MaxReorder,   \* the server delivers one of the first MaxReorder stanzas queued for a client (1: queue order)
          ReshowAllowed \* deviation switch: FALSE = claimed (a client never shows a message twice)

VARIABLES nretry,   \* retry receipts written so far (model bound only)
          members,  \* current members of the group
          nmem,     \* membership changes so far (model bound only)
          msgs,     \* Seq of [s: author, d: destination account or "G", r: intended recipients]; the index is the message id
          inq,      \* inq[c]: stanzas c wrote, not yet served
          outq,     \* outq[c]: stanzas queued for c
          emitted,  \* ids whose (first, undirected) message stanza has left its author
          shown,    \* {<<r, i>>}: i was handed to r's application
          nshown,   \* [<<r,i>> -> how often]   (observation; AtMostOnce)
          pend,     \* pend[c]: ids of which c got a sound copy it neither showed nor asked to have re-sent (parked until keys arrive)
          asked,    \* {<<s, r, i>>}: author s has been asked by r to re-send i and has not done so yet
          seen,     \* {<<i, r>>}: i's author's application saw r's receipt
          open,     \* open[c]: control requests of c not yet answered
          faults,   \* faults injected so far
          hit       \* {<<r, i>>}: deliveries of i to r that were already faulted (one fault per message and recipient)
vars == <<nretry, members, nmem, msgs, inq, outq, emitted, shown, nshown, pend, asked, seen, open, faults, hit>>

Ids == 1..Len(msgs)
(* The intended recipients of a message are fixed when it is submitted: the other   *)
(* members of the group at that moment (membership only changes while nothing is    *)
(* in flight, so this is also the membership when the server fans it out).          *)
Rcp(i) == msgs[i].r
NewMsg(c, d) == [s |-> c, d |-> d, r |-> IF d = "G" THEN members \ {c} ELSE {d}]
St(k, i, p, f) == [k |-> k, i |-> i, p |-> p, f |-> f]
None == St("none", 0, "", 0)
Range(s) == {s[j] : j \in 1..Len(s)}
Quiescent == \A c \in Acc : inq[c] = <<>> /\ outq[c] = <<>>

Init == /\ nretry = 0 /\ members = Members /\ nmem = 0 /\ msgs = <<>> /\ inq = [c \in Acc |-> <<>>] /\ outq = [c \in Acc |-> <<>>]
        /\ emitted = {} /\ shown = {} /\ nshown = [x \in {} |-> 0] /\ pend = [c \in Acc |-> {}]
        /\ asked = {} /\ seen = {} /\ open = [c \in Acc |-> 0] /\ faults = 0 /\ hit = {}

-----------------------------------------------------------------------------
(* The local rules of one client step.  c: the client; dl: the stanza delivered   *)
(* to it in this step (None for a submission); sub: 1 if the application submits   *)
(* a message in this step (it is then the last element of msgs'); out: see above.  *)
Sent(out, k) == {x \in Range(out.sent) : x.k = k}
ShownIds(out) == {out.shown[j].i : j \in 1..Len(out.shown)}
Pool(c, dl) == pend[c] \cup (IF dl.k = "msg" /\ dl.f = 0 /\ <<c, dl.i>> \notin shown THEN {dl.i} ELSE {})
Retried(out) == {x.i : x \in {y \in Sent(out, "rcpt") : y.f = 1}}
Acked(out) == {x.i : x \in {y \in Sent(out, "rcpt") : y.f = 0}}
DupHere(c, dl) == IF dl.k = "msg" /\ dl.f = 0 /\ <<c, dl.i>> \in shown THEN {dl.i} ELSE {}
AskedNow(c, dl) == asked \cup (IF dl.k = "rcpt" /\ dl.f = 1 THEN {<<c, dl.p, dl.i>>} ELSE {})
Resent(c, out) == {<<c, x.p, x.i>> : x \in {y \in Sent(out, "msg") : y.p # ""}}
FirstSent(out) == {x.i : x \in {y \in Sent(out, "msg") : y.p = ""}}
OpenAfter(c, dl, out) == (open[c] + Cardinality({j \in 1..Len(out.sent) : out.sent[j].k = "ctl" /\ out.sent[j].f = 1}))
                         - (IF dl.k = "ctl" /\ dl.f = 1 /\ open[c] > 0 THEN 1 ELSE 0)
PendAfter(c, dl, out) == (Pool(c, dl) \ ShownIds(out)) \ Retried(out)
AskedAfter(c, dl, out) == AskedNow(c, dl) \ Resent(c, out)
EmittedAfter(out) == emitted \cup FirstSent(out)
Mine(c, ms) == {i \in 1..Len(ms) : ms[i].s = c}

Lb(name, cond) == IF cond THEN {name} ELSE {}
Ls(name, S) == IF S # {} THEN {name} ELSE {}
Labels(c, dl, out, ms) ==
  LET S == ShownIds(out)  R == Retried(out)  D == Acked(out) IN
     Lb("shown-twice", ~ReshowAllowed /\ ((\E i \in S : <<c, i>> \in shown) \/ Len(out.shown) # Cardinality(S)))
\cup Ls("shown-undelivered", {i \in S : i \notin Pool(c, dl) /\ <<c, i>> \notin shown})
\cup Ls("shown-not-recipient", {i \in S : i \in 1..Len(ms) /\ c \notin ms[i].r})
\cup Ls("content-altered", {j \in 1..Len(out.shown) : out.shown[j].ok = 0})
\cup Ls("shown-without-receipt", S \ D)
\cup Ls("dup-not-reacknowledged", DupHere(c, dl) \ D)
\cup Ls("receipt-without-message", D \ (S \cup DupHere(c, dl)))
\cup Lb("corrupt-no-retry", dl.k = "msg" /\ dl.f = 1 /\ dl.i \notin R)
\cup Ls("retry-unfounded", {i \in R : i \notin Pool(c, dl) /\ ~(dl.k = "msg" /\ dl.f = 1 /\ dl.i = i)})
\cup Ls("retry-and-shown", R \cap S)
\cup Lb("parked-without-fetch", PendAfter(c, dl, out) # {} /\ OpenAfter(c, dl, out) = 0)
\cup Lb("retry-unserved", (\E a \in AskedAfter(c, dl, out) : a[1] = c) /\ OpenAfter(c, dl, out) = 0)
\cup Lb("unsent", Mine(c, ms) \ EmittedAfter(out) # {} /\ OpenAfter(c, dl, out) = 0)
\cup Ls("message-reemitted", {i \in FirstSent(out) : i \notin Mine(c, ms) \/ i \in emitted})
\cup Ls("resend-unrequested", Resent(c, out) \ AskedNow(c, dl))
\cup Lb("plaintext-on-wire", out.leak > 0)
\cup Lb("receipt-not-shown-to-app", dl.k = "rcpt" /\ dl.f = 0 /\ <<dl.i, dl.p>> \notin Range(out.seen))
\cup Ls("receipt-invented", {j \in 1..Len(out.seen) : ~(dl.k = "rcpt" /\ dl.f = 0 /\ out.seen[j] = <<dl.i, dl.p>>)})

Bump(f, S) == [x \in DOMAIN f \cup S |-> (IF x \in DOMAIN f THEN f[x] ELSE 0) + (IF x \in S THEN 1 ELSE 0)]
(* The effect of a client step on the abstract state (whatever it did).           *)
ClientEffect(c, dl, out) ==
  /\ inq' = [inq EXCEPT ![c] = @ \o out.sent]
  /\ shown' = shown \cup {<<c, i>> : i \in ShownIds(out)}
  /\ nshown' = Bump(nshown, {<<c, out.shown[j].i>> : j \in 1..Len(out.shown)})
  /\ pend' = [pend EXCEPT ![c] = PendAfter(c, dl, out)]
  /\ asked' = AskedAfter(c, dl, out)
  /\ emitted' = EmittedAfter(out)
  /\ seen' = seen \cup Range(out.seen)
  /\ open' = [open EXCEPT ![c] = OpenAfter(c, dl, out)]
  /\ nretry' = nretry + Cardinality(Retried(out))

-----------------------------------------------------------------------------
(* Environment and server actions.                                                *)
Submit(c, d, out) ==
  /\ d # c /\ (d = "G" => c \in members)
  /\ msgs' = Append(msgs, NewMsg(c, d))
  /\ ClientEffect(c, None, out)
  /\ UNCHANGED <<outq, faults, hit, members, nmem>>

(* The server serves the oldest stanza c sent.  Targets: who a message / receipt    *)
(* must be forwarded to.  tg: who it IS forwarded to (the design model takes the   *)
(* expected set; trace validation takes what the server double did - it routes by  *)
(* the addresses the client wrote - and names a difference "misaddressed").        *)
(* note: accounts that get an unsolicited control stanza (a key-count notification).*)
Targets(c) ==
  LET x == Head(inq[c]) IN
    CASE x.k = "msg" /\ x.p = "" -> IF x.i \in Ids /\ msgs[x.i].s = c THEN Rcp(x.i) ELSE {}
      [] x.k = "msg" /\ x.p # "" -> {x.p}
      [] x.k = "rcpt" -> IF x.i \in Ids /\ msgs[x.i].s # c THEN {msgs[x.i].s} ELSE {}
      [] OTHER -> {}
Process(c, tg, note) ==
  /\ inq[c] # <<>>
  /\ LET x == Head(inq[c])
         ack == St("ctl", 0, "", 0)
         fwd == IF x.k = "msg" THEN St("msg", x.i, c, 0) ELSE St("rcpt", x.i, c, x.f)
     IN /\ inq' = [inq EXCEPT ![c] = Tail(@)]
        /\ outq' = [a \in Acc |->
                      LET q1 == IF a = c /\ x.k \in {"msg", "rcpt"} /\ ServerAcks THEN Append(outq[a], ack)
                                ELSE IF a = c /\ x.k = "ctl" /\ x.f = 1 THEN Append(outq[a], St("ctl", 0, "", 1))
                                ELSE outq[a]
                          q2 == IF a \in tg /\ x.k \in {"msg", "rcpt"} THEN Append(q1, fwd) ELSE q1
                      IN IF a \in note THEN Append(q2, ack) ELSE q2]
  /\ UNCHANGED <<nretry, members, nmem, msgs, emitted, shown, nshown, pend, asked, seen, open, faults, hit>>

(* The server delivers the j-th stanza queued for c (j = 1: queue order).  Stanzas  *)
(* that originate from one party reach a recipient in the order that party sent     *)
(* them (the ratchets of first contact assume it); everything else may overtake.    *)
RemoveAt(q, j) == SubSeq(q, 1, j - 1) \o SubSeq(q, j + 1, Len(q))
SameSource(x, y) == x.k # "ctl" /\ y.k # "ctl" /\ x.p = y.p
DeliverAt(c, j, fault, out) ==
  /\ j \in 1..Len(outq[c])
  /\ \A m \in 1..(j - 1) : ~SameSource(outq[c][m], outq[c][j])
  /\ LET x == outq[c][j]
         dl == IF fault = "corrupt" THEN [x EXCEPT !.f = 1] ELSE x
     IN /\ fault # "" => /\ x.k = "msg" /\ <<c, x.i>> \notin hit /\ faults < MaxFaults
        /\ outq' = [outq EXCEPT ![c] = IF fault = "dup" THEN Append(RemoveAt(@, j), x) ELSE RemoveAt(@, j)]
        /\ faults' = IF fault = "" THEN faults ELSE faults + 1
        /\ hit' = IF fault = "" THEN hit ELSE hit \cup {<<c, x.i>>}
        /\ ClientEffect(c, dl, out)
  /\ UNCHANGED <<msgs, members, nmem>>
Deliver(c, fault, out) == DeliverAt(c, 1, fault, out)

(* A party's process is restarted while none of its stanzas is in flight.          *)
Restart(c) == Quiescent /\ UNCHANGED vars

(* Group membership changes while nothing is in flight (the group's administrator    *)
(* acts on the server; the clients are not told - yowsup keeps no member list, it    *)
(* asks for the group's members when it first writes to the group and from then on   *)
(* relies on a newcomer's retry receipt to learn that somebody lacks the sender key).*)
Rest == <<nretry, msgs, inq, outq, emitted, shown, nshown, pend, asked, seen, open, faults, hit>>
Join(a) == Quiescent /\ a \notin members /\ members' = members \cup {a} /\ nmem' = nmem + 1 /\ UNCHANGED Rest
Leave(a) == Quiescent /\ a \in members /\ members' = members \ {a} /\ nmem' = nmem + 1 /\ UNCHANGED Rest

-----------------------------------------------------------------------------
(* Bounded design model: clients do anything that breaks no local rule.            *)
NoOut == [sent |-> <<>>, shown |-> <<>>, seen |-> <<>>, leak |-> 0]
SeqOf(S) == CHOOSE s \in [1..Cardinality(S) -> S] : Range(s) = S
Candidates(c, dl, ms) ==
     {St("msg", i, "", 0) : i \in Mine(c, ms) \ emitted}
\cup {St("msg", a[3], a[2], 0) : a \in {b \in AskedNow(c, dl) : b[1] = c}}
\cup (IF open[c] < MaxOpen THEN {St("ctl", 0, "", 1)} ELSE {})
Outs(c, dl, ms) ==
  LET pool == Pool(c, dl) IN
  { [sent |-> SeqOf(em) \o SeqOf({St("rcpt", i, "", 0) : i \in S \cup DupHere(c, dl)}) \o SeqOf({St("rcpt", i, "", 1) : i \in R}),
     shown |-> SeqOf({[i |-> i, ok |-> 1] : i \in S}),
     seen |-> IF dl.k = "rcpt" /\ dl.f = 0 THEN <<<<dl.i, dl.p>>>> ELSE <<>>,
     leak |-> 0] :
       em \in SUBSET Candidates(c, dl, ms), S \in SUBSET (pool \cup DupHere(c, dl)),
       R \in SUBSET ((pool \cup (IF dl.k = "msg" /\ dl.f = 1 THEN {dl.i} ELSE {}))) }
Legal(c, dl, ms) == {o \in Outs(c, dl, ms) : Labels(c, dl, o, ms) = {}}

MSubmit == /\ Len(msgs) < MaxMsgs
           /\ \E c \in Acc, d \in (Acc \cup (IF members = {} THEN {} ELSE {"G"})) :
                 \E o \in Legal(c, None, Append(msgs, NewMsg(c, d))) : Submit(c, d, o)
MProcess == \E c \in Acc : inq[c] # <<>> /\ Process(c, Targets(c), {})
MDeliver == \E c \in Acc, f \in {"", "dup", "corrupt"}, j \in 1..MaxReorder :
              /\ j <= Len(outq[c])
              /\ LET x == outq[c][j] dl == IF f = "corrupt" THEN [x EXCEPT !.f = 1] ELSE x IN
                   \E o \in Legal(c, dl, msgs) : DeliverAt(c, j, f, o)
MMember == nmem < MaxJoins /\ \E a \in Acc : Join(a) \/ Leave(a)
MNext == MSubmit \/ MProcess \/ MDeliver \/ MMember
MSpec == Init /\ [][MNext]_vars

-----------------------------------------------------------------------------
AtMostOnce == \A x \in DOMAIN nshown : nshown[x] <= 1
OnlyRecipients == \A x \in shown : x[2] \in Ids /\ x[1] \in Rcp(x[2])
ReceiptsFounded == \A x \in seen : <<x[2], x[1]>> \in shown
Complete == Quiescent =>
              \A i \in Ids : \A r \in Rcp(i) : <<r, i>> \in shown /\ <<i, r>> \in seen
Bounded == /\ \A c \in Acc : Len(inq[c]) <= 3 /\ Len(outq[c]) <= 3
           /\ nretry <= MaxRetries
==============================================================================
