SPECIFICATION Spec
CONSTANTS
  Keys = {"k1", "k2", "k3"}
  Vals = {"v1", "v2"}
  EnabledOps = {"storePreKey", "removePreKey", "setAsSent", "setAllAsSent", "setSentEnds"}
  MaxOps = 4
  ReplaceInOneTxn = TRUE
VIEW View
INVARIANT Durable
INVARIANT AllOrNothing
PROPERTY SentMonotone
CHECK_DEADLOCK FALSE
