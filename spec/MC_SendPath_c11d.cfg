SPECIFICATION FairSpec
CONSTANTS
  Threads <- T2
  Jobs <- JobsC11d
  ReleaseOnException = TRUE
  SizeCheckedFirst = TRUE
VIEW View
INVARIANT WholeFrames
INVARIANT CounterOrder
INVARIANT ExactlyOnce
INVARIANT UpInOrder
INVARIANT Reported
INVARIANT AllReceived
INVARIANT NoLockLeak
INVARIANT NotStuck
PROPERTY Terminates
CHECK_DEADLOCK FALSE
