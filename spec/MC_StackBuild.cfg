SPECIFICATION Spec
CONSTANTS
  MaxOps = 3
VIEW View
INVARIANT BuiltIsProgram
INVARIANT LayersIsProgram
CHECK_DEADLOCK FALSE
