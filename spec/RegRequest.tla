------------------------------ MODULE RegRequest ------------------------------
(* Registration requests (yowsup/common/http/warequest.py, yowsup/env/env_android.py): *)
(* the per-byte percent-encoding rule, parameter strings, the token construction *)
(* and the encrypted blob as terms over uninterpreted crypto symbols, and the    *)
(* freshness history of ephemeral keys.  TLC evaluates the encoding as an        *)
(* independent reference implementation (mechanism C) and validates freshness    *)
(* traces (mechanism B).                                                         *)
EXTENDS Naturals, Sequences, SequencesExt, FiniteSets, TLC, Json, IOUtils

HexD  == << "0","1","2","3","4","5","6","7","8","9","a","b","c","d","e","f" >>
Upper == << "A","B","C","D","E","F","G","H","I","J","K","L","M","N","O","P","Q","R","S","T","U","V","W","X","Y","Z" >>
Lower == << "a","b","c","d","e","f","g","h","i","j","k","l","m","n","o","p","q","r","s","t","u","v","w","x","y","z" >>

\* literal iff alphanumeric or '.', everything else (including - _ ~) is %xx with lower-case hex
IsLiteral(b) == (b >= 48 /\ b <= 57) \/ (b >= 65 /\ b <= 90) \/ (b >= 97 /\ b <= 122) \/ b = 46
Lit(b) == IF b >= 48 /\ b <= 57 THEN HexD[b - 47]
          ELSE IF b >= 65 /\ b <= 90 THEN Upper[b - 64]
          ELSE IF b >= 97 /\ b <= 122 THEN Lower[b - 96] ELSE "."
EncByte(b) == IF IsLiteral(b) THEN << Lit(b) >> ELSE << "%", HexD[(b \div 16) + 1], HexD[(b % 16) + 1] >>
RECURSIVE EncBytes(_)
EncBytes(bs) == IF bs = <<>> THEN <<>> ELSE EncByte(Head(bs)) \o EncBytes(Tail(bs))

\* UTF-8 of a code point
UTF8(c) == IF c < 128 THEN << c >>
           ELSE IF c < 2048 THEN << 192 + (c \div 64), 128 + (c % 64) >>
           ELSE IF c < 65536 THEN << 224 + (c \div 4096), 128 + ((c \div 64) % 64), 128 + (c % 64) >>
           ELSE << 240 + (c \div 262144), 128 + ((c \div 4096) % 64), 128 + ((c \div 64) % 64), 128 + (c % 64) >>
RECURSIVE UTF8Seq(_)
UTF8Seq(cs) == IF cs = <<>> THEN <<>> ELSE UTF8(Head(cs)) \o UTF8Seq(Tail(cs))
RECURSIVE Digits(_)
Digits(n) == IF n < 10 THEN << 48 + n >> ELSE Digits(n \div 10) \o << 48 + (n % 10) >>

\* a value is [t |-> "bytes", b |-> Seq(0..255)] | [t |-> "str", b |-> code points] | [t |-> "int", b |-> <<sign, magnitude>>]
Bytes(v) == CASE v.t = "bytes" -> v.b
              [] v.t = "str"   -> UTF8Seq(v.b)
              [] v.t = "int"   -> (IF v.b[1] = 1 THEN << 45 >> ELSE <<>>) \o Digits(v.b[2])
EncVal(v) == EncBytes(Bytes(v))

RECURSIVE Cat(_)
Cat(cs) == IF cs = <<>> THEN "" ELSE Head(cs) \o Cat(Tail(cs))

\* parameters keep their list order: k1=v1&k2=v2...
RECURSIVE EncParamsSeq(_)
EncParamsSeq(ps) == IF ps = <<>> THEN <<>>
                    ELSE << ps[1].k, "=" >> \o EncVal(ps[1].v) \o (IF Len(ps) > 1 THEN << "&" >> \o EncParamsSeq(Tail(ps)) ELSE <<>>)
EncParams(ps) == Cat(EncParamsSeq(ps))

\* the standard percent-decoder
HexVal(c) == CHOOSE i \in 0..15 : HexD[i + 1] = c
RECURSIVE Dec(_)
CharByte(c) == IF \E i \in 1..10 : HexD[i] = c THEN 47 + (CHOOSE i \in 1..10 : HexD[i] = c)
               ELSE IF \E i \in 1..26 : Upper[i] = c THEN 64 + (CHOOSE i \in 1..26 : Upper[i] = c)
               ELSE IF \E i \in 1..26 : Lower[i] = c THEN 96 + (CHOOSE i \in 1..26 : Lower[i] = c) ELSE 46
Dec(cs) == IF cs = <<>> THEN <<>>
           ELSE IF Head(cs) = "%" THEN << HexVal(cs[2]) * 16 + HexVal(cs[3]) >> \o Dec(SubSeq(cs, 4, Len(cs)))
           ELSE << CharByte(Head(cs)) >> \o Dec(Tail(cs))

\* design-level facts checked by TLC
RoundTrip1 == \A b \in 0..255 : Dec(EncByte(b)) = << b >>
RoundTrip2 == \A b1 \in 0..255, b2 \in 0..255 : Dec(EncBytes(<< b1, b2 >>)) = << b1, b2 >>
OnlySafeChars == \A b \in 0..255 : \A i \in 1..Len(EncByte(b)) :
                    EncByte(b)[i] = "%" \/ EncByte(b)[i] = "." \/ (\E j \in 1..16 : HexD[j] = EncByte(b)[i])
                    \/ (\E j \in 1..26 : Upper[j] = EncByte(b)[i] \/ Lower[j] = EncByte(b)[i])
Reps == {0, 32, 37, 38, 43, 45, 46, 47, 48, 57, 61, 65, 90, 95, 97, 122, 126, 127, 128, 255}
CodePoints == {0, 65, 127, 128, 233, 2047, 2048, 8364, 65535, 65536, 128512, 1114111}
UTF8RoundTrip == \A c \in CodePoints : Dec(EncBytes(UTF8(c))) = UTF8(c)

\* expected encodings printed for the harness (single bytes; code points; numbers)
SingleTable == [b \in 0..255 |-> Cat(EncByte(b))]
CPTable == [i \in 1..Cardinality(CodePoints) |->
              LET c == SetToSeq(CodePoints)[i] IN [cp |-> c, enc |-> Cat(EncBytes(UTF8(c)))]]

\* ---- token and blob as terms over uninterpreted symbols (evaluated by independent primitives) ----
KEY == "eQV5aq/Cg63Gsq1sshN9T3gh+UUp0wIw0xgHYT1bnCjEqOJQKCRrWxdAe2yvsDeCJL+Y4G3PRD2HUF7oUgiGo8vGlNJOaux26k+A2F3hj8A="
MD5CLASSES == "WuFH18yXKRVezywQm+S24A=="
\* SIGNATURE is 1.1 kB of base64; the harness keeps the frozen copy (spec/RegRequest_signature.txt) referenced here by name
TokenTerm == [fn |-> "b64", of |->
               [fn |-> "sha1", of |-> << [fn |-> "xorpad", key |-> KEY, n |-> 64, pad |-> 92],
                 [fn |-> "sha1", of |-> << [fn |-> "xorpad", key |-> KEY, n |-> 64, pad |-> 54],
                                           [fn |-> "b64dec", sym |-> "SIGNATURE"],
                                           [fn |-> "b64dec", lit |-> MD5CLASSES],
                                           [fn |-> "utf8", var |-> "phone"] >>] >>]]
BlobTerm == [fn |-> "b64", of |-> << [fn |-> "var", var |-> "ephPub"],
               [fn |-> "aesgcm", key |-> [fn |-> "x25519", priv |-> "ephPriv", pub |-> "serverPub"],
                nonce |-> [fn |-> "zeros", n |-> 12], aad |-> "", pt |-> [fn |-> "utf8", var |-> "EncParams"]] >>]

\* ---- batch evaluation of harness-generated cases (mechanism C) ----
Cases == IF "CASES_FILE" \in DOMAIN IOEnv THEN JsonDeserialize(IOEnv.CASES_FILE) ELSE <<>>
CaseResults == [i \in 1..Len(Cases) |-> EncParams(Cases[i])]

\* ---- freshness history (mechanism B): every encryption uses an ephemeral key never used before ----
VARIABLES usedEph, l, tid
Traces == IF "TRACE_FILE" \in DOMAIN IOEnv THEN JsonDeserialize(IOEnv.TRACE_FILE) ELSE << <<1, 2>> >>
ASSUME \A i \in 1..Len(Traces) : TLCSet(i, 0)
FInit == tid \in 1..Len(Traces) /\ usedEph = {} /\ l = 1
Encrypt(e) == e \notin usedEph /\ usedEph' = usedEph \cup {e}
FNext == /\ l <= Len(Traces[tid]) /\ Encrypt(Traces[tid][l]) /\ l' = l + 1 /\ UNCHANGED tid
FSpec == FInit /\ [][FNext]_<<usedEph, l, tid>>
Fresh == Cardinality(usedEph) = l - 1
Progress == TLCSet(tid, IF TLCGet(tid) > l - 1 THEN TLCGet(tid) ELSE l - 1)
Accepted == \A i \in 1..Len(Traces) : IF TLCGet(i) = Len(Traces[i]) THEN TRUE
                                      ELSE PrintT(ToJson([rejected |-> i, matched |-> TLCGet(i)])) /\ TRUE
==============================================================================
