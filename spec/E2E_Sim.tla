------------------------------- MODULE E2E_Sim -------------------------------
(* Environment schedules for replay: random behaviours of the bounded design model *)
(* (TLC -simulate), each reduced to its environment / server choices               *)
(*   Submit c d | Process c | Deliver c fault | Join c | Leave c                   *)
(* carried in a history variable and printed whenever the behaviour reaches a      *)
(* quiescent state with every message submitted.  The harness performs these       *)
(* choices on the real stacks (skipping a choice the real world does not enable).  *)
EXTENDS E2E, Json
VARIABLE hist
FirstDiff(q, r) == IF \E k \in 1..Len(q) : k > Len(r) \/ q[k] # r[k] THEN CHOOSE k \in 1..Len(q) : (k > Len(r) \/ q[k] # r[k]) /\ \A m \in 1..(k - 1) : q[m] = r[m] ELSE 1
EnvAct ==
  IF members' # members
  THEN [t |-> IF members \subseteq members' THEN "Join" ELSE "Leave",
        c |-> CHOOSE a \in Acc : (a \in members) # (a \in members'), d |-> "", f |-> "", j |-> 1]
  ELSE IF Len(msgs') > Len(msgs) THEN [t |-> "Submit", c |-> msgs'[Len(msgs')].s, d |-> msgs'[Len(msgs')].d, f |-> "", j |-> 1]
  ELSE IF \E c \in Acc : Len(inq'[c]) < Len(inq[c])
       THEN [t |-> "Process", c |-> CHOOSE c \in Acc : Len(inq'[c]) < Len(inq[c]), d |-> "", f |-> "", j |-> 1]
  ELSE IF faults' # faults
       THEN LET c == (CHOOSE x \in hit' \ hit : TRUE)[1] IN
            [t |-> "Deliver", c |-> c, d |-> "", j |-> FirstDiff(outq[c], outq'[c]),
             f |-> IF \E a \in Acc : Len(outq'[a]) < Len(outq[a]) THEN "corrupt" ELSE "dup"]
  ELSE LET c == CHOOSE a \in Acc : Len(outq'[a]) < Len(outq[a]) IN
       [t |-> "Deliver", c |-> c, d |-> "", f |-> "", j |-> FirstDiff(outq[c], outq'[c])]
SInit == Init /\ hist = <<>>
SNext == MNext /\ hist' = Append(hist, EnvAct)
SSpec == SInit /\ [][SNext]_<<vars, hist>>
Done == Quiescent /\ Len(msgs) = MaxMsgs /\ Len(hist) > 0
Emit == Done => PrintT(ToJson([sched |-> hist]))
==============================================================================
