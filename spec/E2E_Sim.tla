------------------------------- MODULE E2E_Sim -------------------------------
(* Environment schedules for replay: random behaviours of the bounded design model *)
(* (TLC -simulate), each reduced to its environment / server choices               *)
(*   Submit c d | Process c | Deliver c fault                                      *)
(* carried in a history variable and printed whenever the behaviour reaches a      *)
(* quiescent state with every message submitted.  The harness performs these       *)
(* choices on the real stacks (skipping a choice the real world does not enable).  *)
EXTENDS E2E, Json
VARIABLE hist
EnvAct ==
  IF Len(msgs') > Len(msgs) THEN [t |-> "Submit", c |-> msgs'[Len(msgs')].s, d |-> msgs'[Len(msgs')].d, f |-> ""]
  ELSE IF \E c \in Acc : Len(inq'[c]) < Len(inq[c])
       THEN [t |-> "Process", c |-> CHOOSE c \in Acc : Len(inq'[c]) < Len(inq[c]), d |-> "", f |-> ""]
  ELSE IF faults' # faults
       THEN [t |-> "Deliver", c |-> (CHOOSE x \in hit' \ hit : TRUE)[1], d |-> "",
             f |-> IF \E c \in Acc : Len(outq'[c]) < Len(outq[c]) THEN "corrupt" ELSE "dup"]
  ELSE [t |-> "Deliver", c |-> CHOOSE c \in Acc : Len(outq'[c]) < Len(outq[c]), d |-> "", f |-> ""]
SInit == Init /\ hist = <<>>
SNext == MNext /\ hist' = Append(hist, EnvAct)
SSpec == SInit /\ [][SNext]_<<vars, hist>>
Done == Quiescent /\ Len(msgs) = MaxMsgs /\ Len(hist) > 0
Emit == Done => PrintT(ToJson([sched |-> hist]))
==============================================================================
