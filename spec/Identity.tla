------------------------------- MODULE Identity -------------------------------
(* Contact identity keys are pinned (C17).                                        *)
(*                                                                                *)
(* gen[c]      the identity generation account c currently has (a reinstall makes *)
(*             a new one and wipes c's own store)                                  *)
(* pin[h][c]   the generation of c's identity that h's store remembers (0: none)   *)
(* sess[h][c]  the generation of c that h's session with c was built for (0: none) *)
(* auto[h]     h's application has switched automatic trust on                     *)
(* last        outcome of the last exchange: [h, c, delivered]                     *)
(*                                                                                *)
(* Send(h, c) is one whole exchange run to quiescence (the application of h        *)
(* submits a message for c; key fetches, retries and re-sends included), modelled  *)
(* mechanistically: which identity each side is presented with, and what each side *)
(* does then.  A side ACCEPTS an identity iff it has none remembered, or the same  *)
(* one, or automatic trust is on.                                                  *)
EXTENDS Naturals, FiniteSets, TLC, Json

CONSTANTS Acc, MaxGen,
          TrustsAll     \* deviation switch: FALSE = claimed; TRUE = a store that answers "trusted" for every key
VARIABLES gen, pin, sess, auto, last, act
vars == <<gen, pin, sess, auto, last>>

Accepts(h, c) == pin[h][c] \in {0, gen[c]} \/ auto[h] \/ TrustsAll

Init == /\ gen = [c \in Acc |-> 1]
        /\ pin = [h \in Acc |-> [c \in Acc |-> 0]]
        /\ sess = [h \in Acc |-> [c \in Acc |-> 0]]
        /\ auto \in [Acc -> BOOLEAN]
        /\ last = [h |-> "", c |-> "", delivered |-> FALSE]
        /\ act = [name |-> "Init"]

(* c presents its identity to h through a key bundle h fetched.                   *)
\* result: <<accepted, pin', sess'>> for the pair (h, c)
Bundle(h, c, p, s) == IF p[h][c] \in {0, gen[c]} \/ auto[h] \/ TrustsAll
                        THEN <<TRUE, [p EXCEPT ![h][c] = gen[c]], [s EXCEPT ![h][c] = gen[c]]>>
                        ELSE <<FALSE, p, s>>
(* h presents its identity to c through a first message on a session built for     *)
(* c's current generation.                                                         *)
First(h, c, p, s) == IF p[c][h] \in {0, gen[h]} \/ auto[c] \/ TrustsAll
                       THEN <<TRUE, [p EXCEPT ![c][h] = gen[h]], [s EXCEPT ![c][h] = IF @ = 0 THEN gen[h] ELSE @]>>
                       ELSE <<FALSE, p, s>>

Send(h, c) ==
  /\ h # c
  /\ LET \* step 1: h has no session -> bundle; otherwise it encrypts for the session it has
         b1 == IF sess[h][c] = 0 THEN Bundle(h, c, pin, sess) ELSE <<TRUE, pin, sess>>
         emitted == b1[1]
         sgen == b1[3][h][c]
         \* step 2a: the ciphertext is for c's current install -> c checks h's identity
         d1 == First(h, c, b1[2], b1[3])
         \* step 2b: the ciphertext is for an older install of c: c cannot decrypt; without a session it first fetches h's
         \* keys (pinning h), then asks for a retry; h fetches c's keys and meets c's new identity
         c1 == IF b1[3][c][h] = 0 THEN Bundle(c, h, b1[2], b1[3]) ELSE <<TRUE, b1[2], b1[3]>>
         r1 == Bundle(h, c, c1[2], c1[3])
         d2 == First(h, c, r1[2], r1[3])
         fin == IF ~emitted THEN <<FALSE, b1[2], b1[3]>>
                ELSE IF sgen = gen[c] THEN d1
                ELSE IF ~c1[1] THEN <<FALSE, c1[2], c1[3]>>
                ELSE IF ~r1[1] THEN <<FALSE, r1[2], r1[3]>>
                ELSE d2
     IN /\ pin' = fin[2] /\ sess' = fin[3]
        /\ last' = [h |-> h, c |-> c, delivered |-> fin[1]]
  /\ UNCHANGED <<gen, auto>>
  /\ act' = [name |-> "Send", h |-> h, c |-> c]

Reinstall(c) ==
  /\ gen[c] < MaxGen
  /\ gen' = [gen EXCEPT ![c] = @ + 1]
  /\ pin' = [pin EXCEPT ![c] = [x \in Acc |-> 0]]
  /\ sess' = [sess EXCEPT ![c] = [x \in Acc |-> 0]]
  /\ last' = [h |-> "", c |-> "", delivered |-> FALSE]
  /\ UNCHANGED auto
  /\ act' = [name |-> "Reinstall", c |-> c]

(* The server tells h that c's identity changed; h fetches c's bundle.  With an    *)
(* accepted known-or-new identity the session is (re)built from the bundle; under  *)
(* automatic trust the new key is remembered and the session is rebuilt later (at   *)
(* the retry the stale session provokes).                                           *)
Notify(h, c) ==
  /\ h # c
  /\ IF pin[h][c] \in {0, gen[c]} \/ TrustsAll
       THEN pin' = [pin EXCEPT ![h][c] = gen[c]] /\ sess' = [sess EXCEPT ![h][c] = gen[c]]
       ELSE IF auto[h] THEN pin' = [pin EXCEPT ![h][c] = gen[c]] /\ UNCHANGED sess
       ELSE UNCHANGED <<pin, sess>>
  /\ last' = [h |-> "", c |-> "", delivered |-> FALSE]
  /\ UNCHANGED <<gen, auto>>
  /\ act' = [name |-> "Notify", h |-> h, c |-> c]

Restart(h) == /\ UNCHANGED <<gen, pin, sess, auto>> /\ last' = [h |-> "", c |-> "", delivered |-> FALSE]
              /\ act' = [name |-> "Restart", h |-> h]
SetAuto(h, v) == /\ auto[h] # v /\ auto' = [auto EXCEPT ![h] = v] /\ UNCHANGED <<gen, pin, sess>>
                 /\ last' = [h |-> "", c |-> "", delivered |-> FALSE]
                 /\ act' = [name |-> "SetAuto", h |-> h, v |-> v]

Next == \/ \E h, c \in Acc : Send(h, c) \/ Notify(h, c)
        \/ \E c \in Acc : Reinstall(c) \/ Restart(c)
        \/ \E h \in Acc, v \in BOOLEAN : SetAuto(h, v)
Spec == Init /\ [][Next]_<<vars, act>>

-----------------------------------------------------------------------------
(* A remembered key changes only by a reinstall of the holder or under automatic   *)
(* trust.                                                                          *)
PinStable == [][\A h, c \in Acc : (pin[h][c] # 0 /\ pin'[h][c] # pin[h][c]) => (auto[h] \/ gen'[h] # gen[h])]_<<vars, act>>
(* Nothing is delivered across an identity that one side refuses.                  *)
NoSilentAccept == last.delivered => /\ pin[last.h][last.c] = gen[last.c]
                                    /\ pin[last.c][last.h] = gen[last.h]
(* A session is never built for an identity other than the remembered one.         *)
SessionMatchesPin == \A h, c \in Acc : sess[h][c] # 0 => pin[h][c] # 0 /\ (sess[h][c] = pin[h][c] \/ sess[h][c] < pin[h][c])
(* With automatic trust on both sides messaging always resumes.                    *)
Resumes == (last.h # "" /\ auto[last.h] /\ auto[last.c]) => last.delivered
St == [gen |-> gen, pin |-> pin, sess |-> sess, auto |-> auto, last |-> last]
View == St
Edge == PrintT(ToJson([from |-> St, act |-> act', to |-> St']))
==============================================================================
