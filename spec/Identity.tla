------------------------------- MODULE Identity -------------------------------
(* Contact identity keys are pinned (C17).                                        *)
(*                                                                                *)
(* gen[c]      the identity generation account c currently has (a reinstall makes *)
(*             a new one and wipes c's own store)                                  *)
(* pin[h][c]   the generation of c's identity that h's store remembers (0: none)   *)
(* sess[h][c]  the generation of c that h's session with c was built for (0: none) *)
(* auto[h]     h's application has switched automatic trust on                     *)
(* last        outcome of the last exchange: [h, c, delivered]                     *)
(*                                                                                *)
(* Send(h, c) is one whole exchange run to quiescence (the application of h        *)
(* submits a message for c; key fetches, retries and re-sends included), modelled  *)
(* mechanistically: which identity each side is presented with, and what each side *)
(* does then.  A side ACCEPTS an identity iff it has none remembered, or the same  *)
(* one, or automatic trust is on.                                                  *)
EXTENDS Naturals, FiniteSets, TLC, Json

CONSTANTS Acc, MaxGen,
          TrustsAll     \* deviation switch: FALSE = claimed; TRUE = a store that answers "trusted" for every key
VARIABLES gen, pin, sess, unack, auto, last, act
\* unack[h][c]: h built its session with c from a key bundle and has not yet received a message from c on it; what h
\* sends on such a session is a "first message" (it carries h's identity and names one of c's one-time keys)
vars == <<gen, pin, sess, unack, auto, last>>

Accepts(h, c) == pin[h][c] \in {0, gen[c]} \/ auto[h] \/ TrustsAll

Init == /\ gen = [c \in Acc |-> 1]
        /\ pin = [h \in Acc |-> [c \in Acc |-> 0]]
        /\ sess = [h \in Acc |-> [c \in Acc |-> 0]]
        /\ unack = [h \in Acc |-> [c \in Acc |-> FALSE]]
        /\ auto \in [Acc -> BOOLEAN]
        /\ last = [h |-> "", c |-> "", delivered |-> FALSE]
        /\ act = [name |-> "Init"]

W(p, s, u) == [pin |-> p, sess |-> s, unack |-> u]
(* c presents its identity to h through a key bundle h fetched: <<accepted, world'>>.  *)
Bundle(h, c, w) ==
  IF w.pin[h][c] \in {0, gen[c]} \/ auto[h] \/ TrustsAll
    THEN <<TRUE, W([w.pin EXCEPT ![h][c] = gen[c]], [w.sess EXCEPT ![h][c] = gen[c]], [w.unack EXCEPT ![h][c] = TRUE])>>
    ELSE <<FALSE, w>>
(* A message of h on a session built for c's CURRENT install reaches c.  A first message *)
(* presents h's identity (checked, then remembered, and it sets up c's session); a later  *)
(* message is simply decrypted.                                                          *)
Arrive(h, c, w) ==
  IF w.unack[h][c]
    THEN IF w.pin[c][h] \in {0, gen[h]} \/ auto[c] \/ TrustsAll
           THEN <<TRUE, W([w.pin EXCEPT ![c][h] = gen[h]], [w.sess EXCEPT ![c][h] = gen[h]], [w.unack EXCEPT ![c][h] = FALSE])>>
           ELSE <<FALSE, w>>
    ELSE <<TRUE, W(w.pin, w.sess, [w.unack EXCEPT ![c][h] = FALSE])>>
(* A message of h on a session built for an OLDER install of c reaches c: it cannot be   *)
(* decrypted.  <<c asks for a retry, world'>>                                            *)
(* save: whether the key ids the first message names happen to exist in c's new store - *)
(* then c gets as far as remembering h's identity before the decryption fails.          *)
Stale(h, c, w, save) ==
  IF w.unack[h][c]
    THEN \* a first message: identity check, then the keys it names are unknown or wrong -> retry (under automatic trust a
         \* different remembered key is replaced before the retry)
         IF w.pin[c][h] \in {0, gen[h]} \/ TrustsAll
           THEN <<TRUE, IF save THEN W([w.pin EXCEPT ![c][h] = gen[h]], w.sess, w.unack) ELSE w>>
         ELSE IF auto[c] THEN <<TRUE, W([w.pin EXCEPT ![c][h] = gen[h]], w.sess, w.unack)>>
         ELSE <<FALSE, w>>
    ELSE \* a later message: without a session c first fetches h's keys (and meets h's identity), then asks for a retry
         IF w.sess[c][h] = 0 THEN Bundle(c, h, w) ELSE <<TRUE, w>>

Send(h, c) ==
  /\ h # c
  /\ \E save \in BOOLEAN :
     LET w0 == W(pin, sess, unack)
         b1 == IF sess[h][c] = 0 THEN Bundle(h, c, w0) ELSE <<TRUE, w0>>
         w1 == b1[2]
         s1 == Stale(h, c, w1, save)
         r1 == Bundle(h, c, s1[2])            \* the retry makes h fetch c's keys: it meets c's new identity
         fin == IF ~b1[1] THEN <<FALSE, w1>>
                ELSE IF w1.sess[h][c] = gen[c] THEN Arrive(h, c, w1)
                ELSE IF ~s1[1] THEN <<FALSE, s1[2]>>
                ELSE IF ~r1[1] THEN <<FALSE, r1[2]>>
                ELSE Arrive(h, c, r1[2])
     IN /\ pin' = fin[2].pin /\ sess' = fin[2].sess /\ unack' = fin[2].unack
        /\ last' = [h |-> h, c |-> c, delivered |-> fin[1]]
  /\ UNCHANGED <<gen, auto>>
  /\ act' = [name |-> "Send", h |-> h, c |-> c]

Reinstall(c) ==
  /\ gen[c] < MaxGen
  /\ gen' = [gen EXCEPT ![c] = @ + 1]
  /\ pin' = [pin EXCEPT ![c] = [x \in Acc |-> 0]]
  /\ sess' = [sess EXCEPT ![c] = [x \in Acc |-> 0]]
  /\ unack' = [unack EXCEPT ![c] = [x \in Acc |-> FALSE]]
  /\ last' = [h |-> "", c |-> "", delivered |-> FALSE]
  /\ UNCHANGED auto
  /\ act' = [name |-> "Reinstall", c |-> c]

(* The server tells h that c's identity changed; h fetches c's bundle: an accepted     *)
(* identity is remembered and the session is (re)built from the bundle.                *)
Notify(h, c) ==
  /\ h # c
  /\ LET b == Bundle(h, c, W(pin, sess, unack)) IN
       pin' = b[2].pin /\ sess' = b[2].sess /\ unack' = b[2].unack
  /\ last' = [h |-> "", c |-> "", delivered |-> FALSE]
  /\ UNCHANGED <<gen, auto>>
  /\ act' = [name |-> "Notify", h |-> h, c |-> c]

Restart(h) == /\ UNCHANGED <<gen, pin, sess, unack, auto>> /\ last' = [h |-> "", c |-> "", delivered |-> FALSE]
              /\ act' = [name |-> "Restart", h |-> h]
SetAuto(h, v) == /\ auto[h] # v /\ auto' = [auto EXCEPT ![h] = v] /\ UNCHANGED <<gen, pin, sess, unack>>
                 /\ last' = [h |-> "", c |-> "", delivered |-> FALSE]
                 /\ act' = [name |-> "SetAuto", h |-> h, v |-> v]

Next == \/ \E h, c \in Acc : Send(h, c) \/ Notify(h, c)
        \/ \E c \in Acc : Reinstall(c) \/ Restart(c)
        \/ \E h \in Acc, v \in BOOLEAN : SetAuto(h, v)
Spec == Init /\ [][Next]_<<vars, act>>

-----------------------------------------------------------------------------
(* A remembered key changes only by a reinstall of the holder or under automatic   *)
(* trust.                                                                          *)
PinStable == [][\A h, c \in Acc : (pin[h][c] # 0 /\ pin'[h][c] # pin[h][c]) => (auto[h] \/ gen'[h] # gen[h])]_<<vars, act>>
(* Nothing is delivered across an identity that one side refuses.                  *)
NoSilentAccept == last.delivered => /\ pin[last.h][last.c] = gen[last.c]
                                    /\ pin[last.c][last.h] = gen[last.h]
(* A session is never built for an identity other than the remembered one.         *)
SessionMatchesPin == \A h, c \in Acc : sess[h][c] # 0 => pin[h][c] # 0 /\ (sess[h][c] = pin[h][c] \/ sess[h][c] < pin[h][c])
(* With automatic trust on both sides messaging always resumes.                    *)
Resumes == (last.h # "" /\ auto[last.h] /\ auto[last.c]) => last.delivered
St == [gen |-> gen, pin |-> pin, sess |-> sess, unack |-> unack, auto |-> auto, last |-> last]
View == St
Edge == PrintT(ToJson([from |-> St, act |-> act', to |-> St']))
==============================================================================
