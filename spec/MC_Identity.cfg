SPECIFICATION Spec
CONSTANTS
  Acc = {"a", "b"}
  MaxGen = 3
  TrustsAll = FALSE
VIEW View
PROPERTY PinStable
INVARIANT NoSilentAccept
INVARIANT SessionMatchesPin
INVARIANT Resumes
CHECK_DEADLOCK FALSE
