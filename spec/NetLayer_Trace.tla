---------------------------- MODULE NetLayer_Trace ----------------------------
(* Batched trace validation of the real network layer + dispatcher over loopback   *)
(* (harness/realnet.py) against NetLayer.tla.  One record per event:                *)
(*   requests from above   ConnectReq(listens|refuses)  Send(n)  DisconnectReq      *)
(*   observed above        Ann(connected|disconnected)  Up(n, ok)  UpRaised         *)
(*   the peer              PeerSend(n) PeerGot(n, ok) PeerClose PeerReset           *)
(*                         PeerSawEOF PeerSawError                                  *)
(*   synchronisation       Quiet(open|over)  ConnectReturned  ConnectRaised  End    *)
(* Every event must be a step the contract allows in the current state, with the    *)
(* logged fields bound (byte counts; the layer's state and flag where the event is  *)
(* logged by the thread that changed them); an event that is no such step - or one  *)
(* of the failure events the harness logs (SendRaised, Quiet(never-down), ...) -    *)
(* leaves the trace REJECTED at that event.  Adjacent Up / PeerGot events are       *)
(* merged by the harness (any split of a byte stream into chunks is allowed).       *)
(* The disconnect request is the asynchronous one; a dispatcher that reports the    *)
(* end before the request returns (asyncore) is the special case LocalDown.         *)
EXTENDS NetLayer, Json, IOUtils
VARIABLES tid, l
Traces == JsonDeserialize(IOEnv.TRACE_FILE)
N == Len(Traces)
ASSUME \A i \in 1..N : TLCSet(i, 0)
tvars == <<vars, tid, l>>
Ev == Traces[tid].ev[l]
TInit == Init /\ tid \in 1..N /\ l = 1
More == l <= Len(Traces[tid].ev)
Consume == l' = l + 1 /\ UNCHANGED tid
Is(n) == More /\ Ev.e = n
Bind == net' = Ev.st /\ conn' = (Ev.cn = 1)       \* the layer's own state, logged by the thread that just changed it

TConnectReq == Is("ConnectReq") /\ ConnectReq(Ev.what = "listens") /\ Consume
TSend == Is("Send") /\ (Ev.cn = 1) = conn /\ Send(Ev.n) /\ Consume
TDisconnectReq ==
  /\ Is("DisconnectReq") /\ net \in {"connecting", "up"}
  /\ net' = "closing" /\ link' = IF link = "open" THEN "localclosed" ELSE link
  /\ UNCHANGED <<conn, k, c2s, got, s2c, up, ann, nops, cause>> /\ Consume
LocalDown == net = "closing" /\ link \in {"localclosed", "opening", "refusing"} /\ GoDown("local") /\ UNCHANGED <<k, c2s, got, s2c, up, nops>>
TAnn == /\ Is("Ann")
        /\ IF Ev.what = "connected" THEN Established ELSE (Refused \/ SeeEOF \/ SeeReset \/ SeeFailure \/ LocalDown)
        /\ Bind /\ Consume
(* An empty chunk is no data (the asyncore dispatcher hands one up when it reads the end of the stream); data that another thread   *)
(* is still handing up while the application closes the connection is of no consequence.                                          *)
TUp == Is("Up") /\ Ev.ok = 1 /\ (IF Ev.n = 0 \/ cause = "local" THEN UNCHANGED vars ELSE DeliverUp(Ev.n)) /\ Consume
TUpRaised == Is("UpRaised") /\ HandlerFails /\ Consume
TPeerSend == Is("PeerSend") /\ PeerSend(Ev.n) /\ Consume
TPeerGot == Is("PeerGot") /\ Ev.ok = 1 /\ PeerGet(Ev.n) /\ Consume
TPeerClose == Is("PeerClose") /\ (PeerClose \/ (link = "dead" /\ UNCHANGED vars)) /\ Consume
TPeerReset == Is("PeerReset") /\ (PeerReset \/ (link = "dead" /\ UNCHANGED vars)) /\ Consume
(* The peer sees the end of the client's stream only when the client has closed it.  *)
TPeerSawEnd == (Is("PeerSawEOF") \/ Is("PeerSawError")) /\ link \in {"localclosed", "dead"} /\ UNCHANGED vars /\ Consume
TQuiet == /\ Is("Quiet")
          /\ \/ Ev.what = "open" /\ net = "up" /\ conn /\ link = "open" /\ got = c2s /\ up = s2c /\ Ev.st = "up" /\ Ev.cn = 1
             \/ Ev.what = "over" /\ net = "down" /\ ~conn /\ link \in {"none", "dead"} /\ Ev.st = "down" /\ Ev.cn = 0
          /\ UNCHANGED vars /\ Consume
TReturned == Is("ConnectReturned") /\ UNCHANGED vars /\ Consume
(* The thread that served the connection may see its descriptor vanish when ANOTHER thread closes the connection: tolerated there only. *)
TRaised == Is("ConnectRaised") /\ net = "down" /\ cause = "local" /\ UNCHANGED vars /\ Consume
TEnd == Is("End") /\ net = "down" /\ ~conn /\ Alternate /\ UNCHANGED vars /\ Consume
TNext == TConnectReq \/ TSend \/ TDisconnectReq \/ TAnn \/ TUp \/ TPeerSend \/ TPeerGot \/ TPeerClose \/ TPeerReset \/ TPeerSawEnd
         \/ TQuiet \/ TReturned \/ TRaised \/ TUpRaised \/ TEnd
TSpec == TInit /\ [][TNext]_tvars
Progress == TLCSet(tid, IF TLCGet(tid) > l - 1 THEN TLCGet(tid) ELSE l - 1)
Accepted == \A i \in 1..N : IF TLCGet(i) = Len(Traces[i].ev) THEN TRUE
                            ELSE PrintT(ToJson([rejected |-> i, matched |-> TLCGet(i)])) /\ TRUE
==============================================================================
