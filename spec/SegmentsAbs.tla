----------------------------- MODULE SegmentsAbs -----------------------------
(* Length-only abstraction of Segments ("run-length instance"): frames are     *)
(* their lengths, the stream is a cursor.  Used (i) as refinement target of    *)
(* Segments and (ii) to validate traces of the real layer on frames far larger *)
(* than TLC could hold as sequences (64 KiB .. 16 MiB).                        *)
EXTENDS Naturals, Sequences
VARIABLES lens,   \* lengths of the frames the peer sent
          pos,    \* bytes handed to receive() so far
          upn     \* number of frames handed upward

RECURSIVE Sum(_, _)
Sum(s, k) == IF k = 0 THEN 0 ELSE (3 + s[k]) + Sum(s, k - 1)
Total == Sum(lens, Len(lens))
\* number of complete frames contained in the first p bytes
RECURSIVE Complete(_, _)
Complete(p, k) == IF k < Len(lens) /\ Sum(lens, k + 1) <= p THEN Complete(p, k + 1) ELSE k

AInit == lens = <<>> /\ pos = 0 /\ upn = 0
APeerSend == \E n \in Nat \ {0} : lens' = Append(lens, n) /\ UNCHANGED <<pos, upn>>
ADeliver(n) == /\ n >= 1 /\ pos + n <= Total
               /\ pos' = pos + n
               /\ upn' = Complete(pos + n, upn)
               /\ UNCHANGED lens
ANext == (\E n \in 1..Total : ADeliver(n)) \/ (Len(lens') = Len(lens) + 1 /\ SubSeq(lens', 1, Len(lens)) = lens /\ lens'[Len(lens')] >= 1 /\ UNCHANGED <<pos, upn>>)
ASpec == AInit /\ [][ANext]_<<lens, pos, upn>>
AInv == upn = Complete(pos, 0)
==============================================================================
