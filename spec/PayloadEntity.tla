---------------------------- MODULE PayloadEntity ----------------------------
(* A message entity over its lifetime (protomessage.py): the application edits   *)
(* the content in place, replaces the attribute object, serialises (possibly     *)
(* several times) and forwards copies.  Whatever the history, a serialisation    *)
(* carries the content as it is at that moment, and a forwarded copy carries the *)
(* content as it was when it was forwarded.                                      *)
EXTENDS Naturals, Sequences, TLC, Json
CONSTANT MaxOps
VARIABLES cur,     \* version of the entity's content (each edit / replacement yields a new version)
          copyv,   \* version held by the forwarded copy (0: none)
          sent,    \* versions carried by the serialisations so far: Seq of [who, v]
          n, act
vars == <<cur, copyv, sent, n>>
View == vars
Init == cur = 1 /\ copyv = 0 /\ sent = <<>> /\ n = 0 /\ act = [name |-> "Init"]
EditInPlace == n < MaxOps /\ cur' = cur + 1 /\ n' = n + 1 /\ act' = [name |-> "EditInPlace"] /\ UNCHANGED <<copyv, sent>>
Replace     == n < MaxOps /\ cur' = cur + 1 /\ n' = n + 1 /\ act' = [name |-> "Replace"] /\ UNCHANGED <<copyv, sent>>
Serialise   == n < MaxOps /\ sent' = Append(sent, [who |-> "entity", v |-> cur]) /\ n' = n + 1 /\ act' = [name |-> "Serialise"] /\ UNCHANGED <<cur, copyv>>
Forward     == n < MaxOps /\ copyv = 0 /\ copyv' = cur /\ n' = n + 1 /\ act' = [name |-> "Forward"] /\ UNCHANGED <<cur, sent>>
SerialiseCopy == n < MaxOps /\ copyv # 0 /\ sent' = Append(sent, [who |-> "copy", v |-> copyv]) /\ n' = n + 1 /\ act' = [name |-> "SerialiseCopy"] /\ UNCHANGED <<cur, copyv>>
Next == EditInPlace \/ Replace \/ Serialise \/ Forward \/ SerialiseCopy
Spec == Init /\ [][Next]_<<vars, act>>
\* a serialisation never carries a stale version
Fresh == [][act'.name = "Serialise" => sent'[Len(sent')].v = cur]_<<vars, act>>
CopyStable == copyv # 0 => copyv <= cur
St == [cur |-> cur, copyv |-> copyv, sent |-> sent, n |-> n]
Edge == PrintT(ToJson([from |-> St, act |-> act', to |-> St']))
==============================================================================
