------------------------------- MODULE Segments -------------------------------
(* YowNoiseSegmentsLayer (yowsup/layers/noise/layer_noise_segments.py).         *)
(* Incoming: a byte stream of 3-byte big-endian length headers + payloads,      *)
(* delivered by the network in arbitrary chunks; `receive` appends the chunk to *)
(* the read buffer and peels complete frames in a loop (one atomic action: it   *)
(* runs to completion on the calling thread).  Outgoing: `send` refuses         *)
(* payloads of >= 2^24 bytes, else writes header and payload as two downward    *)
(* writes.  PROP_ENABLED switches framing off (pass-through) - the Noise layer  *)
(* flips it around the prologue.                                                *)
EXTENDS Naturals, Sequences, SequencesExt, TLC, Json

CONSTANTS Sym,        \* payload byte values used by the peer
          MaxLen,     \* longest frame the peer sends (bytes)
          MaxFrames,  \* number of frames the peer sends
          SendLens,   \* payload lengths offered to `send`
          AllowToggle, \* explore PROP_ENABLED flips (send-side configuration)
          MaxLoss,     \* connection losses explored (0: one connection)
          ResetOnDisconnect \* deviation switch: TRUE = claimed (a partial frame of a dead connection is discarded); FALSE = as read at the pinned commit

VARIABLES sent,     \* ghost: frames the peer has put on the wire (Seq of byte seqs)
          wire,     \* bytes in flight, not yet handed to receive()
          rbuf,     \* the layer's read buffer
          up,       \* what went upward, in order
          down,     \* what went downward, in order: records [hdr, len]
          refused,  \* payload lengths that send() refused
          raw,      \* chunks passed upward verbatim while framing was disabled
          enabled,  \* PROP_ENABLED
          lost,     \* connections lost so far
          act       \* history: label of the last action (hidden by VIEW)

vars == <<sent, wire, rbuf, up, down, refused, raw, enabled, lost>>
View == vars
Limit == 16777216

BE24(n) == << n \div 65536, (n \div 256) % 256, n % 256 >>
Val(b)  == b[1] * 65536 + b[2] * 256 + b[3]
Framed(f) == BE24(Len(f)) \o f

FramesUpTo(n) == UNION { [1..k -> Sym] : k \in 1..n }

RECURSIVE Peel(_, _)
\* while len(buf) > 3: if len(buf) >= 3 + size: emit, continue; else break
Peel(buf, acc) ==
  IF Len(buf) > 3 /\ Len(buf) >= 3 + Val(buf)
  THEN Peel(SubSeq(buf, 4 + Val(buf), Len(buf)), Append(acc, SubSeq(buf, 4, 3 + Val(buf))))
  ELSE <<buf, acc>>

Init == /\ sent = <<>> /\ wire = <<>> /\ rbuf = <<>> /\ up = <<>> /\ down = <<>>
        /\ refused = <<>> /\ raw = <<>> /\ enabled = TRUE /\ lost = 0 /\ act = [name |-> "Init"]

PeerSend(f) ==
  /\ enabled /\ Len(sent) < MaxFrames
  /\ sent' = Append(sent, f)
  /\ wire' = wire \o Framed(f)
  /\ act' = [name |-> "PeerSend", frame |-> f]
  /\ UNCHANGED <<rbuf, up, down, refused, raw, enabled, lost>>

\* the network thread calls receive(chunk) with the next n bytes
Deliver(n) ==
  /\ enabled /\ n \in 1..Len(wire)
  /\ LET chunk == SubSeq(wire, 1, n)
         r == Peel(rbuf \o chunk, <<>>)
     IN /\ rbuf' = r[1]
        /\ up' = up \o r[2]
        /\ wire' = SubSeq(wire, n + 1, Len(wire))
  /\ act' = [name |-> "Deliver", n |-> n]
  /\ UNCHANGED <<sent, down, refused, raw, enabled, lost>>

\* pass-through while framing is disabled: the chunk goes up as is (modelled on
\* a separate raw stream of one-byte chunks tagged as sequences)
RawDeliver(c) ==
  /\ ~enabled
  /\ Len(raw) < 2
  /\ raw' = Append(raw, c)
  /\ act' = [name |-> "RawDeliver", chunk |-> c]
  /\ UNCHANGED <<sent, up, wire, rbuf, down, refused, enabled, lost>>

Send(n) ==
  /\ Len(down) + Len(refused) < 3
  /\ IF n >= Limit
     THEN refused' = Append(refused, n) /\ UNCHANGED down
     ELSE /\ down' = IF enabled THEN down \o << [kind |-> "hdr", bytes |-> BE24(n)], [kind |-> "payload", len |-> n] >>
                               ELSE Append(down, [kind |-> "payload", len |-> n])
          /\ UNCHANGED refused
  /\ act' = [name |-> "Send", n |-> n]
  /\ UNCHANGED <<sent, wire, rbuf, up, raw, enabled, lost>>

\* the property is flipped only between frames (Noise layer: around the prologue)
Toggle ==
  /\ AllowToggle /\ wire = <<>> /\ rbuf = <<>>
  /\ enabled' = ~enabled
  /\ act' = [name |-> "Toggle"]
  /\ UNCHANGED <<sent, wire, rbuf, up, down, refused, raw, lost>>

\* the connection goes down between two receive() calls: bytes in flight are gone, the frames not yet handed up will never
\* arrive (the ghost `sent` forgets them), and the DISCONNECTED event makes the layer discard its partial frame
ConnLost ==
  /\ lost < MaxLoss /\ enabled
  /\ lost' = lost + 1 /\ wire' = <<>> /\ sent' = up
  /\ rbuf' = IF ResetOnDisconnect THEN <<>> ELSE rbuf
  /\ act' = [name |-> "ConnLost"]
  /\ UNCHANGED <<up, down, refused, raw, enabled>>

\* ... or it goes down WHILE receive() is handing frames upward: a layer above reacts to the j-th frame of this call by closing the
\* connection (a stream error, a failed login).  The frames behind it in the same chunk belong to the dead connection.
DeliverLost(n, j) ==
  /\ lost < MaxLoss /\ enabled /\ ResetOnDisconnect /\ n \in 1..Len(wire)
  /\ LET r == Peel(rbuf \o SubSeq(wire, 1, n), <<>>) IN
       /\ j \in 1..Len(r[2])
       /\ up' = up \o SubSeq(r[2], 1, j)
       /\ sent' = up \o SubSeq(r[2], 1, j)
  /\ rbuf' = <<>> /\ wire' = <<>> /\ lost' = lost + 1
  /\ act' = [name |-> "DeliverLost", n |-> n, j |-> j]
  /\ UNCHANGED <<down, refused, raw, enabled>>

Next == \/ \E f \in FramesUpTo(MaxLen) : PeerSend(f)
        \/ ConnLost
        \/ \E n \in 1..(MaxFrames * (MaxLen + 3)), j \in 1..MaxFrames : DeliverLost(n, j)
        \/ \E n \in 1..(MaxFrames * (MaxLen + 3)) : Deliver(n)
        \/ \E c \in FramesUpTo(2) : RawDeliver(c)
        \/ \E n \in SendLens : Send(n)
        \/ Toggle

Spec == Init /\ [][Next]_<<vars, act>>

-----------------------------------------------------------------------------
\* C05: whatever the chunking, upward = the frames sent, complete, unmodified, in order
UpIsPrefix == IsPrefix(up, sent)

RECURSIVE Flat(_)
Flat(fs) == IF fs = <<>> THEN <<>> ELSE Framed(Head(fs)) \o Flat(Tail(fs))

\* nothing is lost or invented: framed(up) ++ rbuf ++ wire is exactly the framed stream sent
\* (restricted to framed mode; raw chunks are in `sent`/`up` verbatim)
Conservation ==
  enabled => Flat(SubSeq(sent, Len(up) + 1, Len(sent))) = rbuf \o wire

\* a complete frame never lingers in the buffer
NoLinger == ~(Len(rbuf) > 3 /\ Len(rbuf) >= 3 + Val(rbuf))

Quiescent == (wire = <<>> /\ enabled) => (up = sent /\ rbuf = <<>>)

\* outgoing: 3-byte big-endian header immediately followed by its payload; >= 2^24 refused
DownShape ==
  /\ \A i \in 1..Len(refused) : refused[i] >= Limit
  /\ \A i \in 1..Len(down) :
        /\ down[i].kind = "payload" => down[i].len < Limit
        /\ down[i].kind = "hdr" => /\ i < Len(down) /\ down[i + 1].kind = "payload"
                                   /\ Val(down[i].bytes) = down[i + 1].len

\* refinement: Segments implements the reliable FIFO channel
Chan == INSTANCE Channel WITH inflight <- SubSeq(sent, Len(up) + 1, Len(sent)), recv <- up
Refines == Chan!CSpec

\* refinement: Segments implements its length-only abstraction
RECURSIVE LensOf(_)
LensOf(fs) == IF fs = <<>> THEN <<>> ELSE <<Len(Head(fs))>> \o LensOf(Tail(fs))
Abs == INSTANCE SegmentsAbs WITH lens <- LensOf(sent), pos <- Len(Flat(sent)) - Len(wire), upn <- Len(up)
RefinesAbs == Abs!ASpec

\* edge dump for behaviour replay (mechanism A)
St == [sent |-> sent, wire |-> wire, rbuf |-> rbuf, up |-> up, down |-> down,
       refused |-> refused, raw |-> raw, enabled |-> enabled, lost |-> lost]
Edge == PrintT(ToJson([from |-> St, act |-> act', to |-> St']))
==============================================================================
