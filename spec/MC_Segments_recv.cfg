SPECIFICATION Spec
CONSTANTS
  Sym = {0, 2}
  MaxLen = 2
  MaxFrames = 3
  SendLens = {}
  AllowToggle = FALSE
  MaxLoss = 0
  ResetOnDisconnect = TRUE
VIEW View
INVARIANT UpIsPrefix
INVARIANT Conservation
INVARIANT NoLinger
INVARIANT Quiescent
INVARIANT DownShape
PROPERTY Refines
PROPERTY RefinesAbs
CHECK_DEADLOCK FALSE
