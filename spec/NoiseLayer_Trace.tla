--------------------------- MODULE NoiseLayer_Trace ---------------------------
(* Trace validation of recorded executions of the real YowNoiseLayer (driven by   *)
(* the deterministic scheduler) against NoiseLayer.tla.  Logged events: the shared *)
(* state operations (queue put / get / size, flush lock, protocol state read /     *)
(* write), logins, disconnects and the server's outputs.  The worker's private     *)
(* steps (writing the client hello, processing the server hello) are not logged:   *)
(* they are composed silently, at most two before each logged event.               *)
EXTENDS NoiseLayer, IOUtils
VARIABLES tid, l, silent
Traces == JsonDeserialize(IOEnv.TRACE_FILE)
N == Len(Traces)
ASSUME \A i \in 1..N : TLCSet(i, 0)
tvars == <<vars, act, tid, l, silent>>
Ev == Traces[tid].ev[l]
TInit == Init /\ tid \in 1..N /\ l = 1 /\ silent = 0
More == l <= Len(Traces[tid].ev)
Consume == l' = l + 1 /\ silent' = 0 /\ UNCHANGED tid
Is(n) == More /\ Ev.name = n

TLogin == Is("Login") /\ Login(Ev.v) /\ cur' = Ev.a /\ Consume
TDisconnect == Is("Disconnect") /\ Disconnect /\ Consume
TServerHello == Is("ServerHello") /\ ServerHello /\ Consume
TServerData == Is("ServerData") /\ ServerData /\ sent'[cur] = Ev.n /\ Consume
TNetPut == Is("NetPut") /\ NetPut /\ Head(inflight).k = Ev.k /\ Head(inflight).n = Ev.n /\ Consume
TNetRead == Is("NetRead") /\ NetRead /\ proto = Ev.state /\ Consume
TFlushAcq == Is("FlushAcq") /\ FlushAcq(Ev.t) /\ Consume
TFlushSize == Is("FlushSize") /\ FlushSize(Ev.t) /\ Len(incomingQ) = Ev.n /\ Consume
TFlushGet == Is("FlushGet") /\ FlushGet(Ev.t) /\ Consume
TFlushDeliver == Is("FlushDeliver") /\ FlushDeliver(Ev.t) /\ (Ev.ok = (Len(up') = Len(up) + 1)) /\ Consume
TFlushRel == Is("FlushRel") /\ FlushRel(Ev.t) /\ Consume
TWReset == Is("WReset") /\ WReset(Ev.a) /\ Consume
TWStart == Is("WStart") /\ WStart(Ev.a) /\ Consume
TWAwait == Is("WAwait") /\ WAwait(Ev.a) /\ Head(incomingQ).k = Ev.k /\ Consume
TWFinish == Is("WFinish") /\ WFinish(Ev.a) /\ Consume
TWFail == Is("WFail") /\ WFail(Ev.a) /\ Consume
TWDie == Is("WDie") /\ WDie(Ev.a) /\ Consume
\* unlogged worker-private steps
TSilent == /\ More /\ silent < 2
           /\ \E a \in Att : WHello(a) \/ WProc(a)
           /\ silent' = silent + 1 /\ UNCHANGED <<tid, l>>
TNext == TLogin \/ TDisconnect \/ TServerHello \/ TServerData \/ TNetPut \/ TNetRead \/ TFlushAcq \/ TFlushSize \/ TFlushGet \/ TFlushDeliver
         \/ TFlushRel \/ TWReset \/ TWStart \/ TWAwait \/ TWFinish \/ TWFail \/ TWDie \/ TSilent
TSpec == TInit /\ [][TNext]_tvars
Progress == TLCSet(tid, IF TLCGet(tid) > l - 1 THEN TLCGet(tid) ELSE l - 1)
Accepted == \A i \in 1..N : IF TLCGet(i) = Len(Traces[i].ev) THEN TRUE
                            ELSE PrintT(ToJson([rejected |-> i, matched |-> TLCGet(i)])) /\ TRUE
==============================================================================
