SPECIFICATION Spec
CONSTANTS
  Batch = 3
  Threshold = 2
  MaxId = 9
  MaxSteps = 7
  FreshIds = TRUE
VIEW View




CHECK_DEADLOCK FALSE
ACTION_CONSTRAINT Edge
