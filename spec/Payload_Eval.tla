----------------------------- MODULE Payload_Eval -----------------------------
EXTENDS Payload
ASSUME SchemaCovers
Table == [t \in DOMAIN Modelled |-> [i \in 1..Len(Modelled[t]) |->
             LET f == FieldOf(t, Modelled[t][i]) IN [attr |-> Modelled[t][i], num |-> f.num, wt |-> f.wt, kind |-> f.kind, bits |-> f.bits, sub |-> f.sub, rep |-> f.rep, ev |-> f.ev]]]
ASSUME IF "DUMP_TABLE" \in DOMAIN IOEnv THEN PrintT(ToJson([table |-> Table])) ELSE TRUE
ASSUME \A i \in 1..Len(Cases) : PrintT(ToJson(CaseOut(i)))
VARIABLE x
Init == x = 0
Next == UNCHANGED x
Spec == Init /\ [][Next]_x
==============================================================================
