SPECIFICATION Spec
CONSTANTS
  MaxEvents = 9
  ReconnectOpt = TRUE
  PingOpt = TRUE
  Kinds = {}
  LoopBeforeConnect = TRUE
VIEW View









CHECK_DEADLOCK FALSE
ACTION_CONSTRAINT Edge
