SPECIFICATION Spec
CONSTANTS
  Batch = 2
  Threshold = 1
  MaxId = 6
  MaxSteps = 9
  FreshIds = FALSE
VIEW View




CHECK_DEADLOCK FALSE
ACTION_CONSTRAINT EdgeReuse
