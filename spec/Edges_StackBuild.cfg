SPECIFICATION Spec
CONSTANTS
  MaxOps = 3
VIEW View


CHECK_DEADLOCK FALSE
ACTION_CONSTRAINT Edge
