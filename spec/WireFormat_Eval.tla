---------------------------- MODULE WireFormat_Eval ----------------------------
EXTENDS WireFormat
ASSUME \A i \in 1..Len(Cases) : PrintT(ToJson(CaseOut(i)))
ASSUME IF "DUMP_DICT" \in DOMAIN IOEnv THEN PrintT(ToJson([primary |-> Dict!Primary, secondary |-> Dict!Secondary])) ELSE TRUE
VARIABLE x
Init == x = 0
Next == UNCHANGED x
Spec == Init /\ [][Next]_x
==============================================================================
