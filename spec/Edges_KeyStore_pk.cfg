SPECIFICATION Spec
CONSTANTS
  Keys = {"k1", "k2", "k3"}
  Vals = {"v1", "v2"}
  EnabledOps = {"storePreKey", "removePreKey", "setAsSent", "setAllAsSent", "setSentEnds"}
  MaxOps = 3
  ReplaceInOneTxn = TRUE
VIEW View



CHECK_DEADLOCK FALSE
ACTION_CONSTRAINT Edge
