------------------------------- MODULE KeyStore -------------------------------
(* LiteAxolotlStore (yowsup/axolotl/store/sqlite/*.py) over one SQLite           *)
(* connection: five tables, each API operation is the sequence of SQL            *)
(* statements and commits the code issues.  `disk` is the committed database,    *)
(* `txn` the connection's view including uncommitted statements.  A crash may    *)
(* happen between any two statements: the uncommitted part is rolled back        *)
(* (SQLite hot-journal recovery) and the store is reopened.                      *)
EXTENDS Naturals, Sequences, SequencesExt, FiniteSets, TLC, Json

CONSTANTS Keys,            \* record keys per table (recipient ids / prekey ids / group names)
          Vals,            \* distinguishable record contents
          MaxOps,          \* API operations per history
          EnabledOps,      \* names of the API operations explored in this configuration
          ReplaceInOneTxn  \* TRUE: replace = delete+insert in ONE transaction (claimed)
                           \* FALSE: delete, COMMIT, insert, COMMIT (as read at 4127b7c)

VARIABLES disk, txn,   \* [table -> [key -> value]]
          prog, pc,    \* statement program of the API call in progress, position
          before, after, touched,  \* ghost: committed value of the touched record before / intended after
          nops, act

vars == <<disk, txn, prog, pc, before, after, touched, nops>>
View == vars

Absent == <<>>
V(v) == <<v>>     \* every stored value is a tuple so that values of all tables are comparable
Tables == {"identities", "sessions", "prekeys", "signed", "senderkeys"}
\* prekeys carry the uploaded flag
PK(v, sent) == <<v, sent>>

KeyOrder == SetToSeq(Keys)
Empty == [t \in Tables |-> [k \in Keys |-> Absent]]

Del(t, k)      == [s |-> "del", t |-> t, k |-> k, v |-> Absent]
Ins(t, k, v)   == [s |-> "ins", t |-> t, k |-> k, v |-> v]
MarkSent(k)    == [s |-> "sent", t |-> "prekeys", k |-> k, v |-> Absent]
Commit         == [s |-> "commit", t |-> "none", k |-> "none", v |-> Absent]

\* statement sequences of the API operations
Replace(t, k, v) == IF ReplaceInOneTxn THEN << Del(t, k), Ins(t, k, v), Commit >>
                                       ELSE << Del(t, k), Commit, Ins(t, k, v), Commit >>
Program(o) ==
  CASE o.op = "storeSession"      -> Replace("sessions", o.k, V(o.v))
    [] o.op = "saveIdentity"      -> Replace("identities", o.k, V(o.v))
    [] o.op = "deleteSession"     -> << Del("sessions", o.k), Commit >>
    [] o.op = "storePreKey"       -> << Ins("prekeys", o.k, PK(o.v, FALSE)), Commit >>
    [] o.op = "removePreKey"      -> << Del("prekeys", o.k), Commit >>
    [] o.op = "setAsSent"         -> << MarkSent(o.k), Commit >>
    [] o.op = "setAllAsSent"      -> [i \in 1..Len(KeyOrder) |-> MarkSent(KeyOrder[i])] \o << Commit >>
    [] o.op = "setSentEnds"       -> << MarkSent(KeyOrder[1]), MarkSent(KeyOrder[Len(KeyOrder)]), Commit >>
    [] o.op = "storeSignedPreKey" -> << Ins("signed", o.k, V(o.v)), Commit >>
    [] o.op = "removeSignedPreKey"-> << Del("signed", o.k), Commit >>
    [] o.op = "storeSenderKey"    -> << Ins("senderkeys", o.k, V(o.v)), Commit >>   \* INSERT OR REPLACE: one statement

TableOf(o) ==
  CASE o.op \in {"storeSession", "deleteSession"} -> "sessions"
    [] o.op = "saveIdentity" -> "identities"
    [] o.op \in {"storePreKey", "removePreKey", "setAsSent", "setAllAsSent", "setSentEnds"} -> "prekeys"
    [] o.op \in {"storeSignedPreKey", "removeSignedPreKey"} -> "signed"
    [] o.op = "storeSenderKey" -> "senderkeys"

\* intended committed value of record <<t,k>> after the operation, given its committed value c before
Intended(o, c) ==
  CASE o.op \in {"storeSession", "saveIdentity", "storeSignedPreKey", "storeSenderKey"} -> V(o.v)
    [] o.op = "storePreKey" -> PK(o.v, FALSE)
    [] o.op \in {"deleteSession", "removePreKey", "removeSignedPreKey"} -> Absent
    [] o.op \in {"setAsSent", "setAllAsSent", "setSentEnds"} -> IF c = Absent THEN Absent ELSE PK(c[1], TRUE)

Ops == [op : {"storeSession", "saveIdentity", "storeSignedPreKey", "storeSenderKey", "storePreKey"}, k : Keys, v : Vals]
       \cup [op : {"deleteSession", "removePreKey", "removeSignedPreKey", "setAsSent"}, k : Keys, v : {"none"}]
       \cup [op : {"setAllAsSent", "setSentEnds"}, k : {"all"}, v : {"none"}]

\* the UNIQUE columns make a second plain INSERT of an existing key an error: callers never do that
Allowed(o) ==
  /\ (o.op = "storePreKey" => txn["prekeys"][o.k] = Absent)
  /\ (o.op = "storeSignedPreKey" => txn["signed"][o.k] = Absent)

Init == /\ disk = Empty /\ txn = Empty /\ prog = <<>> /\ pc = 0
        /\ before = Empty /\ after = Empty /\ touched = {} /\ nops = 0 /\ act = [name |-> "Init"]

Begin(o) ==
  /\ prog = <<>> /\ nops < MaxOps /\ Allowed(o) /\ o.op \in EnabledOps
  /\ prog' = Program(o) /\ pc' = 1 /\ nops' = nops + 1
  /\ LET t == TableOf(o) ks == IF o.op = "setAllAsSent" THEN Keys
                               ELSE IF o.op = "setSentEnds" THEN {KeyOrder[1], KeyOrder[Len(KeyOrder)]} ELSE {o.k} IN
       /\ touched' = { <<t, k>> : k \in ks }
       /\ before' = disk
       /\ after' = [disk EXCEPT ![t] = [k \in Keys |-> IF k \in ks THEN Intended(o, disk[t][k]) ELSE disk[t][k]]]
  /\ act' = [name |-> "Begin", o |-> o]
  /\ UNCHANGED <<disk, txn>>

Apply(st, db) ==
  CASE st.s = "del"  -> [db EXCEPT ![st.t][st.k] = Absent]
    [] st.s = "ins"  -> [db EXCEPT ![st.t][st.k] = st.v]
    [] st.s = "sent" -> [db EXCEPT !["prekeys"][st.k] = IF @ = Absent THEN Absent ELSE PK(@[1], TRUE)]

Step ==
  /\ prog # <<>> /\ pc <= Len(prog)
  /\ LET st == prog[pc] IN
       IF st.s = "commit" THEN disk' = txn /\ UNCHANGED txn
                          ELSE txn' = Apply(st, txn) /\ UNCHANGED disk
  /\ pc' = pc + 1
  /\ act' = [name |-> "Step", s |-> prog[pc].s]
  /\ UNCHANGED <<prog, before, after, touched, nops>>

End ==
  /\ prog # <<>> /\ pc > Len(prog)
  /\ prog' = <<>> /\ pc' = 0 /\ touched' = {}
  /\ act' = [name |-> "End"]
  /\ UNCHANGED <<disk, txn, before, after, nops>>

\* process dies between two statements; the reopened store sees the committed database
Crash ==
  /\ prog # <<>>
  /\ txn' = disk /\ prog' = <<>> /\ pc' = 0 /\ touched' = {}
  /\ act' = [name |-> "Crash", at |-> pc - 1]
  /\ UNCHANGED <<disk, before, after, nops>>

\* clean close + reopen between operations
Reopen ==
  /\ prog = <<>> /\ act.name # "Reopen"
  /\ txn' = disk
  /\ act' = [name |-> "Reopen"]
  /\ UNCHANGED <<disk, prog, pc, before, after, touched, nops>>

Next == (\E o \in Ops : Begin(o)) \/ Step \/ End \/ Crash \/ Reopen
Spec == Init /\ [][Next]_<<vars, act>>

-----------------------------------------------------------------------------
\* C13 durability: when no call is in progress everything the API accepted is on disk
Durable == prog = <<>> => disk = txn

\* C13 atomicity: at every instant (= at every possible crash point) each record holds its previous
\* or its new value - in particular an existing session / pinned identity being replaced is never absent
AllOrNothing ==
  \A t \in Tables, k \in Keys :
     IF <<t, k>> \in touched THEN disk[t][k] \in {before[t][k], after[t][k]}
                             ELSE prog # <<>> => disk[t][k] = before[t][k]

\* the uploaded flag never reverts and never applies to a different key
SentMonotone == [][\A k \in Keys : (disk["prekeys"][k] # Absent /\ disk["prekeys"][k][2] /\ disk'["prekeys"][k] # Absent
                                   /\ disk'["prekeys"][k][1] = disk["prekeys"][k][1]) => disk'["prekeys"][k][2]]_vars

Flat(db) == [t \in Tables |-> [k \in Keys |-> db[t][k]]]
St == [disk |-> disk, txn |-> txn, pc |-> pc, progs |-> [i \in 1..Len(prog) |-> prog[i].s], prog |-> prog, nops |-> nops]
Edge == PrintT(ToJson([from |-> St, act |-> act', to |-> St']))
==============================================================================
