SPECIFICATION Spec
