SPECIFICATION SSpec
CONSTANTS
  Sizes = {1, 2, 3, 4}
  MaxConn = 2
  MaxOps = 4
  EOFAfterData = TRUE
  SyncClose = FALSE
INVARIANT Emit
CHECK_DEADLOCK FALSE
