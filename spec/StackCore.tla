------------------------------ MODULE StackCore ------------------------------
(* YowStack / YowLayer / YowParallelLayer (yowsup/stacks/yowstack.py,          *)
(* yowsup/layers/__init__.py): wiring, data propagation, event propagation     *)
(* with stop-on-true, detached events and the stack loop, stack-level entry    *)
(* points, parallel groups.  A configuration (shape + per-layer behaviour) is  *)
(* chosen in the initial state; one operation is performed; queued             *)
(* continuations are run by LoopStep.                                          *)
EXTENDS Naturals, Sequences, SequencesExt, FiniteSets, TLC, Json

CONSTANTS MaxDepth,     \* slots per stack
          MaxGroup,     \* members per parallel group
          MaxConsumers  \* layers whose onEvent returns True

VARIABLES shape,    \* Seq over 0..MaxGroup: 0 = plain layer, k>0 = parallel group of k members
          consume,  \* set of layers <<slot, member>> that consume the event
          mode,     \* function layer -> "pass" | "drop" | "xform"   (data behaviour)
          log,      \* global ordered log of what each layer saw: [l, what, d]
          q,        \* detached queue: continuations [dir, at]
          phase,    \* "idle" | "done"
          act       \* label of last action (hidden from VIEW)

vars == <<shape, consume, mode, log, q, phase>>
View == vars

Layers(sh) == { <<s, m>> : s \in 1..Len(sh), m \in 0..MaxGroup } \cap
              { l \in (1..Len(sh)) \X (0..MaxGroup) : IF sh[l[1]] = 0 THEN l[2] = 0 ELSE l[2] \in 1..sh[l[1]] }
Members(sh, s) == IF sh[s] = 0 THEN << <<s, 0>> >> ELSE [m \in 1..sh[s] |-> <<s, m>>]

-----------------------------------------------------------------------------
(* Events.  onEvent of a slot: a plain layer sees the event; a group shows it  *)
(* to its members in order with `stop = stop or member.onEvent(e)` - Python's  *)
(* `or` short-circuits, so members after a consuming member are not shown the  *)
(* event (as written; the property does not decide this, the harness treats    *)
(* those members as don't-care).                                               *)
RECURSIVE GroupSee(_, _, _)
GroupSee(ms, i, stopped) ==
  IF i > Len(ms) THEN [seen |-> <<>>, stop |-> stopped]
  ELSE IF stopped THEN GroupSee(ms, i + 1, stopped)
  ELSE LET r == GroupSee(ms, i + 1, ms[i] \in consume)
       IN [seen |-> <<ms[i]>> \o r.seen, stop |-> r.stop]
SlotSee(s) == GroupSee(Members(shape, s), 1, FALSE)

Ev(l) == [l |-> l, what |-> "event", d |-> <<>>]
EvLog(ls) == [i \in 1..Len(ls) |-> Ev(ls[i])]

\* walk from slot s (first slot to see the event) in direction dir (+1 up, -1 down as "up"/"down").
\* Returns [log, q]: visits performed synchronously and the continuation queued (if detached).
Step(s, dir) == IF dir = "up" THEN s + 1 ELSE s - 1
InRange(s) == s >= 1 /\ s <= Len(shape)

RECURSIVE Walk(_, _, _)
Walk(s, dir, detached) ==
  IF ~InRange(s) THEN [log |-> <<>>, q |-> <<>>]
  ELSE LET r == SlotSee(s) IN
       IF r.stop THEN [log |-> EvLog(r.seen), q |-> <<>>]
       ELSE IF detached
            \* the first neighbour has seen it; the rest of the walk is deferred (non-detached)
            THEN [log |-> EvLog(r.seen), q |-> << [dir |-> dir, at |-> s] >>]
            ELSE LET w == Walk(Step(s, dir), dir, FALSE)
                 IN [log |-> EvLog(r.seen) \o w.log, q |-> w.q]

\* a plain layer (or a whole group acting as a layer) at slot s emits / broadcasts
LayerEmit(s, dir, detached) ==
  IF InRange(Step(s, dir)) THEN Walk(Step(s, dir), dir, detached) ELSE [log |-> <<>>, q |-> <<>>]

\* a member of the group at slot s emits: subEmitEvent = group.onEvent (all members incl. the
\* emitter, result ignored) then group.emitEvent   -- deliberate deviation from "layers above only"
MemberEmit(s, dir, detached) ==
  LET own == SlotSee(s) w == LayerEmit(s, dir, detached)
  IN [log |-> EvLog(own.seen) \o w.log, q |-> w.q]

\* stack.emitEvent: bottom layer sees it, then emits; stack.broadcastEvent: top layer likewise
StackEntry(dir, detached) ==
  LET s == IF dir = "up" THEN 1 ELSE Len(shape) r == SlotSee(s) IN
  IF r.stop THEN [log |-> EvLog(r.seen), q |-> <<>>]
  ELSE LET w == LayerEmit(s, dir, detached) IN [log |-> EvLog(r.seen) \o w.log, q |-> w.q]

-----------------------------------------------------------------------------
(* Data.  send from the top / receive from the bottom.  A plain layer logs the *)
(* datum and, per its mode, passes it on, drops it, or passes a transformed    *)
(* datum.  A group offers the datum to every member in order; each member's    *)
(* output continues (depth-first) at the group's neighbour.                    *)
Out(l, d) == IF mode[l] = "pass" THEN <<d>> ELSE IF mode[l] = "xform" THEN << Append(d, l) >> ELSE <<>>

RECURSIVE DataWalk(_, _, _)
RECURSIVE DataMembers(_, _, _, _, _)
DataMembers(ms, i, s, dir, d) ==
  IF i > Len(ms) THEN <<>>
  ELSE LET l == ms[i] o == Out(l, d)
       IN << [l |-> l, what |-> dir, d |-> d] >>
          \o (IF o = <<>> THEN <<>> ELSE DataWalk(Step(s, dir), dir, o[1]))
          \o DataMembers(ms, i + 1, s, dir, d)
DataWalk(s, dir, d) == IF ~InRange(s) THEN <<>> ELSE DataMembers(Members(shape, s), 1, s, dir, d)

-----------------------------------------------------------------------------
Shapes == UNION { [1..n -> 0..MaxGroup] : n \in 1..MaxDepth }
Modes == {"pass", "drop", "xform"}

Init == /\ shape \in Shapes
        /\ consume \in { c \in SUBSET Layers(shape) : Cardinality(c) <= MaxConsumers }
        \* data behaviour: everybody passes, except at most one deviating layer
        /\ \E dev \in Layers(shape) \cup {<<0, 0>>}, md \in Modes :
              mode = [l \in Layers(shape) |-> IF l = dev THEN md ELSE "pass"]
        /\ log = <<>> /\ q = <<>> /\ phase = "idle" /\ act = [name |-> "Init"]

DoEvent(l, dir, detached) ==
  /\ phase = "idle" /\ l \in Layers(shape)
  /\ LET r == IF l[2] = 0 THEN LayerEmit(l[1], dir, detached) ELSE MemberEmit(l[1], dir, detached)
     IN log' = r.log /\ q' = r.q
  /\ phase' = "done"
  /\ act' = [name |-> "Event", l |-> l, dir |-> dir, detached |-> detached]
  /\ UNCHANGED <<shape, consume, mode>>

DoStackEvent(dir, detached) ==
  /\ phase = "idle"
  /\ LET r == StackEntry(dir, detached) IN log' = r.log /\ q' = r.q
  /\ phase' = "done"
  /\ act' = [name |-> "StackEvent", dir |-> dir, detached |-> detached]
  /\ UNCHANGED <<shape, consume, mode>>

DoData(dir) ==
  /\ phase = "idle" /\ consume = {}
  /\ log' = DataWalk(IF dir = "down" THEN Len(shape) ELSE 1, dir, <<>>)
  /\ phase' = "done" /\ q' = <<>>
  /\ act' = [name |-> "Data", dir |-> dir]
  /\ UNCHANGED <<shape, consume, mode>>

\* the stack loop runs one queued continuation: layer `at` re-emits (non-detached)
LoopStep ==
  /\ q # <<>>
  /\ LET c == Head(q) r == LayerEmit(c.at, c.dir, FALSE)
     IN log' = log \o r.log /\ q' = Tail(q) \o r.q
  /\ act' = [name |-> "LoopStep"]
  /\ UNCHANGED <<shape, consume, mode, phase>>

Next == \/ \E l \in Layers(shape), dir \in {"up", "down"}, det \in BOOLEAN : DoEvent(l, dir, det)
        \/ \E dir \in {"up", "down"}, det \in BOOLEAN : DoStackEvent(dir, det)
        \/ \E dir \in {"up", "down"} : DoData(dir)
        \/ LoopStep
Spec == Init /\ [][Next]_<<vars, act>>

-----------------------------------------------------------------------------
(* Properties (C18).                                                           *)
EvSeen == SelectSeq(log, LAMBDA e : e.what = "event")
SeenBy(l) == Len(SelectSeq(EvSeen, LAMBDA e : e.l = l))

\* exactly-once: nobody sees one event twice
AtMostOnce == \A l \in Layers(shape) : SeenBy(l) <= 1

\* stack order: the slots appear in walking order
Ordered == \A i, j \in 1..Len(EvSeen) : i < j =>
              \/ EvSeen[i].l[1] = EvSeen[j].l[1]
              \/ (act.name \in {"Event", "StackEvent"} =>
                    IF act.dir = "up" THEN EvSeen[i].l[1] < EvSeen[j].l[1] ELSE EvSeen[i].l[1] > EvSeen[j].l[1])

\* once the loop has run, every slot beyond the emitter up to and including the first consuming
\* slot has seen the event (plain layers: exactly once; groups: at least the members up to the
\* consumer), and no slot past the consuming one has.
ConsumingSlots == { s \in 1..Len(shape) : \E l \in consume : l[1] = s }
FirstSlot(dir, from) ==
  LET cand == { s \in ConsumingSlots : IF dir = "up" THEN s > from ELSE s < from }
  IN IF cand = {} THEN (IF dir = "up" THEN Len(shape) + 1 ELSE 0)
     ELSE IF dir = "up" THEN CHOOSE s \in cand : \A t \in cand : s <= t
                        ELSE CHOOSE s \in cand : \A t \in cand : s >= t
EventReach ==
  (phase = "done" /\ q = <<>> /\ act.name = "Event") =>
     LET from == act.l[1] stop == FirstSlot(act.dir, from) IN
     \A s \in 1..Len(shape) :
        LET beyond == IF act.dir = "up" THEN s > from /\ s <= stop ELSE s < from /\ s >= stop
            past   == IF act.dir = "up" THEN s > stop ELSE s < stop
        IN /\ (beyond /\ shape[s] = 0) => SeenBy(<<s, 0>>) = 1
           /\ (beyond /\ shape[s] > 0) => SeenBy(<<s, 1>>) = 1
           /\ past => \A l \in Layers(shape) : l[1] = s => SeenBy(l) = 0

\* data is offered to every member of a group once per arrival, and arrivals at a slot equal
\* the number of outputs of the slot before it
DataLog == SelectSeq(log, LAMBDA e : e.what \in {"up", "down"})
Arrivals(l) == Len(SelectSeq(DataLog, LAMBDA e : e.l = l))
DataFanout ==
  (act.name = "Data") =>
     \A s \in 1..Len(shape) :
        LET ms == Members(shape, s) IN
        /\ \A i, j \in 1..Len(ms) : Arrivals(ms[i]) = Arrivals(ms[j])
        /\ LET nxt == Step(s, act.dir) IN
             InRange(nxt) =>
               Arrivals(Members(shape, nxt)[1]) =
                 Len(SelectSeq(DataLog, LAMBDA e : e.l[1] = s /\ mode[e.l] # "drop"))

St == [shape |-> shape, consume |-> SetToSeq(consume), mode |-> [l \in Layers(shape) |-> mode[l]],
       log |-> log, q |-> q, phase |-> phase]
\* compact: configuration in every record so that edges are self-contained
ModeSeq == LET ls == SetToSeq(Layers(shape)) IN [i \in 1..Len(ls) |-> [l |-> ls[i], m |-> mode[ls[i]]]]
Cfg == [shape |-> shape, consume |-> SetToSeq(consume), mode |-> ModeSeq]
Edge == PrintT(ToJson([from |-> [cfg |-> Cfg, log |-> log, q |-> q],
                       act |-> act', to |-> [cfg |-> Cfg, log |-> log', q |-> q']]))
==============================================================================
