SPECIFICATION Spec
CONSTANTS
  MaxDepth = 3
  MaxGroup = 2
  MaxConsumers = 1
VIEW View
INVARIANT AtMostOnce
INVARIANT Ordered
INVARIANT EventReach
INVARIANT DataFanout
CHECK_DEADLOCK FALSE
