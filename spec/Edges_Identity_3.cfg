SPECIFICATION Spec
CONSTANTS
  Acc = {"a", "b", "c"}
  MaxGen = 2
  TrustsAll = FALSE
VIEW View
CHECK_DEADLOCK FALSE
ACTION_CONSTRAINT Edge
