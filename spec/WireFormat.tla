------------------------------ MODULE WireFormat ------------------------------
(* WhatsApp binary-XML stanza format (yowsup/layers/coder/encoder.py, decoder.py,  *)
(* tokendictionary.py) transcribed as an independent reference: abstract trees,     *)
(* the encoding the library's encoder is specified to choose (Policy), every        *)
(* alternative the format permits per position (Alts), and a decoder on item        *)
(* sequences.  Strings are abstract: a dictionary word, a nibble-packable string    *)
(* (digits - .), a hex-packable string (0-9A-F with at least one letter), other     *)
(* text, or a JID user@server; byte contents are referenced, not held, so that      *)
(* 1 MiB / 16 MiB payloads cost nothing.  The harness supplies trees (CASES_FILE),  *)
(* TLC computes the expected item sequences and checks Decode(e) = t for every      *)
(* enumerated encoding e of every tree t.                                           *)
EXTENDS Naturals, Sequences, SequencesExt, FiniteSets, TLC, Json, IOUtils
Dict == INSTANCE WADict

\* ---- items ----
B(n) == [k |-> "b", v |-> n, ref |-> "-", kind |-> 0]                 \* one literal byte
Raw(ref) == [k |-> "raw", v |-> 0, ref |-> ref, kind |-> 0]           \* the bytes of the referenced string / blob
Packed(ref, kind) == [k |-> "packed", v |-> 0, ref |-> ref, kind |-> kind]  \* its nibble (255) / hex (251) packing
Bs(seq) == [i \in 1..Len(seq) |-> B(seq[i])]

\* ---- abstract strings: [cls, ref, len, user, server] ----
\* cls "tok1": ref = "p<i>"  (primary word i, 3..235);  "tok2": ref = "s<i>" (secondary word i, 0..1023)
\* cls "nib" / "hex" / "raw": ref names generated content of length len;  cls "jid": user, server are strings
IsTok(s) == s.cls \in {"tok1", "tok2"}
Packable(s) == s.cls \in {"nib", "hex"}
PackKind(s) == IF s.cls = "nib" THEN 255 ELSE 251
PackedLen(s) == (s.len + 1) \div 2

RawForm(form, n, ref) ==
  CASE form = 8  -> << B(252), B(n) >> \o << Raw(ref) >>
    [] form = 20 -> << B(253), B((n \div 65536) % 16), B((n \div 256) % 256), B(n % 256) >> \o << Raw(ref) >>
    [] form = 31 -> << B(254), B((n \div 16777216) % 128), B((n \div 65536) % 256), B((n \div 256) % 256), B(n % 256) >> \o << Raw(ref) >>
RawForms(n, ref) == (IF n < 256 THEN {RawForm(8, n, ref)} ELSE {}) \cup (IF n < 1048576 THEN {RawForm(20, n, ref)} ELSE {}) \cup {RawForm(31, n, ref)}
\* the library: 8 bits below 256, 20 bits below 1 MiB, 31 bits from 1 MiB
ShortestRaw(n, ref) == IF n < 256 THEN RawForm(8, n, ref) ELSE IF n < 1048576 THEN RawForm(20, n, ref) ELSE RawForm(31, n, ref)
PackedForm(s) == << B(PackKind(s)), B((s.len % 2) * 128 + PackedLen(s)), Packed(s.ref, PackKind(s)) >>

\* content identity of a string: dictionary words are "w:p<i>" / "w:s<i>", generated strings their reference
ContentRef(s) == IF s.cls = "tok1" THEN "w:p" \o ToString(s.idx) ELSE IF s.cls = "tok2" THEN "w:s" \o ToString(s.idx) ELSE s.ref
RECURSIVE StrPolicy(_, _)
StrPolicy(s, packedPos) ==
  CASE s.cls = "tok1" -> << B(s.idx) >>
    [] s.cls = "tok2" -> << B(236 + (s.idx \div 256)), B(s.idx % 256) >>
    [] s.cls = "jid"  -> << B(250) >> \o StrPolicy(s.user, TRUE) \o StrPolicy(s.server, FALSE)
    [] OTHER -> IF Packable(s) /\ packedPos /\ s.len < 128 THEN PackedForm(s) ELSE ShortestRaw(s.len, s.ref)

RECURSIVE StrAlts(_)
\* everything a conforming peer may send for this string (one-at-a-time inside JIDs)
StrAlts(s) ==
  CASE IsTok(s) -> {StrPolicy(s, FALSE)} \cup RawForms(s.len, ContentRef(s))         \* literal word instead of its token
                   \cup {<< B(250), B(0) >> \o StrPolicy(s, FALSE)}                     \* JID without user part
    [] s.cls = "jid" -> { << B(250) >> \o a \o StrPolicy(s.server, FALSE) : a \in StrAlts(s.user) \ {<< B(250), B(0) >> \o StrPolicy(s.user, FALSE)} }
                        \cup { << B(250) >> \o StrPolicy(s.user, TRUE) \o b : b \in StrAlts(s.server) \ {<< B(250), B(0) >> \o StrPolicy(s.server, FALSE)} }
    [] OTHER -> RawForms(s.len, s.ref) \cup (IF Packable(s) /\ PackedLen(s) <= 127 THEN {PackedForm(s)} ELSE {})
                \cup (IF s.cls = "raw" THEN {<< B(250), B(0) >> \o ShortestRaw(s.len, s.ref)} ELSE {})

ListPolicy(n) == IF n = 0 THEN << B(0) >> ELSE IF n < 256 THEN << B(248), B(n) >> ELSE << B(249), B(n \div 256), B(n % 256) >>
ListAlts(n) == {ListPolicy(n)} \cup (IF n > 0 /\ n < 65536 THEN {<< B(249), B(n \div 256), B(n % 256) >>} ELSE {})

\* ---- trees: [tag, attrs (Seq of [k, v]), ckind \in {"none","bin","kids"}, bin (string-like record), kids (Seq of trees)] ----
\* a segment is one position of the encoding: the library's choice and the permitted alternatives
Seg(pol, alts) == [pol |-> pol, alts |-> alts \ {pol}]
HdrSize(t) == 1 + 2 * Len(t.attrs) + (IF t.ckind = "none" THEN 0 ELSE 1)

\* binary content: raw length forms; a peer may also send it as a string (token / packed) when the bytes are one
BinAlts(b) == RawForms(b.len, ContentRef(b)) \cup (IF IsTok(b) THEN {StrPolicy(b, FALSE)} ELSE {})
                \cup (IF Packable(b) /\ PackedLen(b) <= 127 THEN {PackedForm(b)} ELSE {})

RECURSIVE AttrSegs(_, _)
AttrSegs(as, i) == IF i > Len(as) THEN <<>>
                   ELSE << Seg(StrPolicy(as[i].k, FALSE), StrAlts(as[i].k)), Seg(StrPolicy(as[i].v, TRUE), StrAlts(as[i].v)) >> \o AttrSegs(as, i + 1)
RECURSIVE NodeSegs(_)
RECURSIVE KidSegs(_, _)
KidSegs(ks, i) == IF i > Len(ks) THEN <<>> ELSE NodeSegs(ks[i]) \o KidSegs(ks, i + 1)
NodeSegs(t) ==
  << Seg(ListPolicy(HdrSize(t)), ListAlts(HdrSize(t))), Seg(StrPolicy(t.tag, FALSE), StrAlts(t.tag)) >>
  \o AttrSegs(t.attrs, 1)
  \o (CASE t.ckind = "none" -> <<>>
        [] t.ckind = "bin"  -> << Seg(ShortestRaw(t.bin.len, ContentRef(t.bin)), BinAlts(t.bin)) >>
        [] t.ckind = "kids" -> << Seg(ListPolicy(Len(t.kids)), ListAlts(Len(t.kids))) >> \o KidSegs(t.kids, 1))

RECURSIVE CatPol(_, _, _, _)
\* concatenation of the segments' policy items, segment `at` replaced by `alt` (at = 0: none replaced)
CatPol(segs, i, at, alt) == IF i > Len(segs) THEN <<>>
                            ELSE (IF i = at THEN alt ELSE segs[i].pol) \o CatPol(segs, i + 1, at, alt)
Body(t) == CatPol(NodeSegs(t), 1, 0, <<>>)
Frame(body) == << B(0) >> \o body
\* all enumerated encodings of the body: the library's, and each single-position deviation
BodyEncodings(t) == LET segs == NodeSegs(t) IN
  {CatPol(segs, 1, 0, <<>>)} \cup UNION { { CatPol(segs, 1, i, a) : a \in segs[i].alts } : i \in 1..Len(segs) }

\* ---- the reference decoder, on item sequences; returns [v |-> value, r |-> remaining items] ----
Word1(i) == [cls |-> "tok1", idx |-> i, ref |-> "-", len |-> Len(Dict!Primary[i + 1])]
Word2(i) == [cls |-> "tok2", idx |-> i, ref |-> "-", len |-> Len(Dict!Secondary[i + 1])]
\* strings are compared by content identity
Ident(s) == CASE s.cls = "tok1" -> <<"p", s.idx, "-">> [] s.cls = "tok2" -> <<"s", s.idx, "-">>
              [] s.cls = "jid" -> <<"j", 0, "-">> [] OTHER -> <<"r", 0, s.ref>>
RECURSIVE SameStr(_, _)
SameStr(a, b) == IF a.cls = "jid" \/ b.cls = "jid"
                 THEN a.cls = "jid" /\ b.cls = "jid" /\ SameStr(a.user, b.user) /\ SameStr(a.server, b.server)
                 ELSE Ident(a) = Ident(b)
\* a literal spelling of a dictionary word has the reference "w:p<i>" / "w:s<i>": resolved back to the word
RefStr(ref, n) == [cls |-> "ref", idx |-> 0, ref |-> ref, len |-> n]

BE(items, n) == IF n = 1 THEN items[1].v ELSE IF n = 2 THEN items[1].v * 256 + items[2].v
                 ELSE IF n = 3 THEN items[1].v * 65536 + items[2].v * 256 + items[3].v
                 ELSE items[1].v * 16777216 + items[2].v * 65536 + items[3].v * 256 + items[4].v
Drop(items, n) == SubSeq(items, n + 1, Len(items))

RECURSIVE DecStr(_)
DecStr(items) ==
  LET c == items[1].v r == Drop(items, 1) IN
  CASE c >= 3 /\ c <= 235 -> [v |-> Word1(c), r |-> r]
    [] c >= 236 /\ c <= 239 -> [v |-> Word2((c - 236) * 256 + r[1].v), r |-> Drop(r, 1)]
    [] c = 250 -> IF r[1].k = "b" /\ r[1].v = 0
                  THEN DecStr(Drop(r, 1))                                    \* no user part: the server alone
                  ELSE LET u == DecStr(r) s == DecStr(u.r) IN
                       [v |-> [cls |-> "jid", user |-> u.v, server |-> s.v, idx |-> 0, ref |-> "-", len |-> 0], r |-> s.r]
    [] c = 251 \/ c = 255 -> [v |-> RefStr(r[2].ref, 0), r |-> Drop(r, 2)]      \* size byte, packed chunk
    [] c = 252 -> [v |-> RefStr(r[2].ref, BE(r, 1)), r |-> Drop(r, 2)]
    [] c = 253 -> [v |-> RefStr(r[4].ref, BE(r, 3)), r |-> Drop(r, 4)]
    [] c = 254 -> [v |-> RefStr(r[5].ref, BE(r, 4)), r |-> Drop(r, 5)]

ListSize(items) == LET c == items[1].v IN
  IF c = 0 THEN [v |-> 0, r |-> Drop(items, 1)]
  ELSE IF c = 248 THEN [v |-> items[2].v, r |-> Drop(items, 2)]
  ELSE [v |-> items[2].v * 256 + items[3].v, r |-> Drop(items, 3)]

RECURSIVE DecAttrs(_, _)
DecAttrs(items, n) == IF n = 0 THEN [v |-> <<>>, r |-> items]
                      ELSE LET k == DecStr(items) v == DecStr(k.r) rest == DecAttrs(v.r, n - 1) IN
                           [v |-> << [k |-> k.v, v |-> v.v] >> \o rest.v, r |-> rest.r]
RECURSIVE DecNode(_)
RECURSIVE DecKids(_, _)
DecKids(items, n) == IF n = 0 THEN [v |-> <<>>, r |-> items]
                     ELSE LET k == DecNode(items) rest == DecKids(k.r, n - 1) IN [v |-> << k.v >> \o rest.v, r |-> rest.r]
DecNode(items) ==
  LET sz == ListSize(items) tag == DecStr(sz.r)
      nattr == ((sz.v - 2) + (sz.v % 2)) \div 2
      as == DecAttrs(tag.r, nattr) IN
  IF sz.v % 2 = 1 THEN [v |-> [tag |-> tag.v, attrs |-> as.v, ckind |-> "none", bin |-> <<>>, kids |-> <<>>], r |-> as.r]
  ELSE LET c == as.r[1].v IN
       IF c \in {0, 248, 249}
       THEN LET ls == ListSize(as.r) ks == DecKids(ls.r, ls.v) IN
            [v |-> [tag |-> tag.v, attrs |-> as.v, ckind |-> "kids", bin |-> <<>>, kids |-> ks.v], r |-> ks.r]
       ELSE LET b == DecStr(as.r) IN
            [v |-> [tag |-> tag.v, attrs |-> as.v, ckind |-> "bin", bin |-> b.v, kids |-> <<>>], r |-> b.r]

\* equality of a decoded tree with the original: strings by content identity (a literal / packed spelling
\* refers to the same content as the token / raw spelling)
RECURSIVE StrEq(_, _)
StrEq(orig, dec) ==
  IF orig.cls = "jid" THEN dec.cls = "jid" /\ StrEq(orig.user, dec.user) /\ StrEq(orig.server, dec.server)
  ELSE IF dec.cls = "ref" THEN dec.ref = ContentRef(orig)
  ELSE dec.cls = orig.cls /\ dec.idx = orig.idx
RECURSIVE TreeEq(_, _)
TreeEq(t, d) ==
  /\ StrEq(t.tag, d.tag) /\ Len(t.attrs) = Len(d.attrs)
  /\ \A i \in 1..Len(t.attrs) : StrEq(t.attrs[i].k, d.attrs[i].k) /\ StrEq(t.attrs[i].v, d.attrs[i].v)
  /\ t.ckind = d.ckind
  /\ (t.ckind = "bin" => StrEq(t.bin, d.bin))
  /\ (t.ckind = "kids" => Len(t.kids) = Len(d.kids) /\ \A i \in 1..Len(t.kids) : TreeEq(t.kids[i], d.kids[i]))

\* C01 / C02, design level: every enumerated encoding decodes to the tree, consuming all items
DecodesTo(t, e) == LET d == DecNode(e) IN d.r = <<>> /\ TreeEq(t, d.v)
Unambiguous(t) == \A e \in BodyEncodings(t) : DecodesTo(t, e)

\* ---- batch evaluation ----
Cases == IF "CASES_FILE" \in DOMAIN IOEnv THEN JsonDeserialize(IOEnv.CASES_FILE) ELSE <<>>
Compact(it) == IF it.k = "b" THEN it.v ELSE IF it.k = "raw" THEN "r:" \o it.ref ELSE "p" \o ToString(it.kind) \o ":" \o it.ref
CompactSeq(items) == [j \in 1..Len(items) |-> Compact(items[j])]
SegOut(sg) == [pol |-> CompactSeq(sg.pol), alts |-> LET a == SetToSeq(sg.alts) IN [j \in 1..Len(a) |-> CompactSeq(a[j])]]
CaseOut(i) == LET segs == NodeSegs(Cases[i]) IN
  [i |-> i, ok |-> (IF Len(segs) <= 80 THEN Unambiguous(Cases[i]) ELSE DecodesTo(Cases[i], Body(Cases[i]))),
   n |-> (IF Len(segs) <= 80 THEN Cardinality(BodyEncodings(Cases[i])) ELSE 1), segs |-> [j \in 1..Len(segs) |-> SegOut(segs[j])]]
==============================================================================
