SPECIFICATION Spec
CONSTANTS
  Cfgs = {"c1", "c2"}
  MaxSaves = 3
  CreateDir = TRUE
  AtomicSave = TRUE
  NameByType = FALSE
VIEW View
INVARIANT SaveThenLoad
INVARIANT NeverFails
INVARIANT CrashSafe
INVARIANT NeverLost
CHECK_DEADLOCK FALSE
