-------------------------------- MODULE PreKeys --------------------------------
(* One-time prekeys between generation, upload and use: AxolotlControlLayer        *)
(* (yowsup/layers/axolotl/layer_control.py), AxolotlManager.level_prekeys /        *)
(* set_prekeys_as_sent (yowsup/axolotl/manager.py), LitePreKeyStore.               *)
EXTENDS Naturals, Sequences, FiniteSets, TLC, Json

CONSTANTS Batch,        \* keys generated at a time (AxolotlManager.COUNT_GEN_PREKEYS)
          Threshold,    \* regenerate when fewer than this many are stored (THRESHOLD_REGEN)
          MaxId,        \* bound of the id space explored
          MaxSteps,
          FreshIds      \* TRUE: ids continue after the highest id EVER generated (claimed);
                        \* FALSE: after the highest id currently STORED (as read at 4127b7c: loadMaxPreKeyId)

Ids == 1..MaxId
VARIABLES store,      \* id -> "none" | "unsent" | "sent"
          ver,        \* ghost: id -> how many different keys have been generated under this id
          high,       \* ghost: highest id ever generated
          mem,        \* the control layer's in-memory list of unsent prekeys (ids)
          passive,    \* PROP_PASSIVE
          conn,       \* "down" | "connected" | "authed"
          inflight,   \* uploads awaiting the server's reply: Seq of [ids, vers, reboot]
          confirmed,  \* ghost: <<id, version>> pairs whose upload the client saw confirmed
          offered,    \* ghost: <<id, version>> pairs ever put into an upload stanza
          reboot,     \* the layer asked for a disconnect to leave passive mode
          reconnects, \* connect() calls the layer made itself
          raised,     \* ghost: number of uploads answered with an error (the layer raises)
          n, act
vars == <<store, ver, high, mem, passive, conn, inflight, confirmed, offered, reboot, reconnects, raised, n>>
View == vars

Stored == {i \in Ids : store[i] # "none"}
Unsent == {i \in Ids : store[i] = "unsent"}
MaxStored == IF Stored = {} THEN 0 ELSE CHOOSE m \in Stored : \A i \in Stored : i <= m
NextFrom == IF FreshIds THEN high ELSE MaxStored
Pairs(S) == { <<i, ver[i]>> : i \in S }

Init == /\ store = [i \in Ids |-> "none"] /\ ver = [i \in Ids |-> 0] /\ high = 0 /\ mem = {} /\ passive = FALSE /\ conn = "down"
        /\ inflight = <<>> /\ confirmed = {} /\ offered = {} /\ reboot = FALSE /\ reconnects = 0 /\ raised = 0 /\ n = 0 /\ act = [name |-> "Init"]

\* level_prekeys(force): generate a batch when forced or fewer than Threshold keys are stored
NewIds(force) == IF (force \/ Cardinality(Stored) < Threshold) /\ NextFrom + Batch <= MaxId THEN (NextFrom + 1)..(NextFrom + Batch) ELSE {}
Generate(S) == /\ store' = [i \in Ids |-> IF i \in S THEN "unsent" ELSE store[i]]
               /\ ver' = [i \in Ids |-> IF i \in S THEN ver[i] + 1 ELSE ver[i]]
               /\ high' = IF S = {} THEN high ELSE (IF NextFrom + Batch > high THEN NextFrom + Batch ELSE high)

Connect ==
  /\ conn = "down" /\ n < MaxSteps /\ n' = n + 1
  /\ LET S == NewIds(FALSE) IN
       /\ Generate(S)
       /\ mem' = mem \cup Unsent \cup S
       /\ passive' = (passive \/ (mem \cup Unsent \cup S) # {})
  /\ conn' = "connected"
  /\ act' = [name |-> "Connect"]
  /\ UNCHANGED <<inflight, confirmed, offered, reboot, reconnects, raised>>

\* success from the server: AUTHED(passive); a passive login flushes the unsent keys and will re-login afterwards
Authed ==
  /\ conn = "connected" /\ n < MaxSteps /\ n' = n + 1
  /\ conn' = "authed"
  /\ IF passive /\ mem # {}
     THEN /\ inflight' = Append(inflight, [ids |-> mem, prs |-> Pairs(mem \cap Stored), reboot |-> TRUE])
          /\ offered' = offered \cup Pairs(mem \cap Stored)
          /\ mem' = {}
     ELSE UNCHANGED <<inflight, offered, mem>>
  /\ act' = [name |-> "Authed", passive |-> passive]
  /\ UNCHANGED <<store, ver, high, passive, confirmed, reboot, reconnects, raised>>

\* <notification type="encrypt"><count/>: new signed prekey, forced batch, immediate upload
ServerAsksKeys ==
  /\ conn = "authed" /\ n < MaxSteps /\ n' = n + 1 /\ NewIds(TRUE) # {}
  /\ LET S == NewIds(TRUE) IN
       /\ Generate(S)
       /\ inflight' = Append(inflight, [ids |-> S, prs |-> { <<i, ver[i] + 1>> : i \in S }, reboot |-> FALSE])
       /\ offered' = offered \cup { <<i, ver[i] + 1>> : i \in S }
  /\ act' = [name |-> "ServerAsksKeys"]
  /\ UNCHANGED <<mem, passive, conn, confirmed, reboot, reconnects, raised>>

Drop(i) == [j \in 1..(Len(inflight) - 1) |-> IF j < i THEN inflight[j] ELSE inflight[j + 1]]
\* iq result for upload i: its keys are marked sent; a login flush then leaves passive mode by reconnecting
UploadResult(i) ==
  /\ i \in 1..Len(inflight) /\ conn = "authed" /\ n < MaxSteps /\ n' = n + 1
  /\ LET u == inflight[i] IN
       /\ store' = [k \in Ids |-> IF k \in u.ids /\ store[k] = "unsent" THEN "sent" ELSE store[k]]
       /\ confirmed' = confirmed \cup u.prs
       /\ IF u.reboot
          THEN \* DISCONNECT broadcast; on DISCONNECTED: passive off, connect()
               conn' = "down" /\ passive' = FALSE /\ reconnects' = reconnects + 1 /\ inflight' = <<>>
          ELSE UNCHANGED <<conn, passive, reconnects>> /\ inflight' = Drop(i)
  /\ act' = [name |-> "UploadResult", i |-> i]
  /\ UNCHANGED <<ver, high, mem, offered, reboot, raised>>

\* iq error: the layer raises; the keys stay unsent
UploadError(i) ==
  /\ i \in 1..Len(inflight) /\ conn = "authed" /\ n < MaxSteps /\ n' = n + 1
  /\ inflight' = Drop(i) /\ raised' = raised + 1
  /\ act' = [name |-> "UploadError", i |-> i]
  /\ UNCHANGED <<store, ver, high, mem, passive, conn, confirmed, offered, reboot, reconnects>>

\* the connection is lost: replies to uploads in flight never arrive
ConnLost ==
  /\ conn # "down" /\ n < MaxSteps /\ n' = n + 1
  /\ conn' = "down" /\ inflight' = <<>>
  /\ act' = [name |-> "ConnLost"]
  /\ UNCHANGED <<store, ver, high, mem, passive, confirmed, offered, reboot, reconnects, raised>>

\* process restart: volatile state gone, store kept
Restart ==
  /\ conn = "down" /\ n < MaxSteps /\ n' = n + 1 /\ act.name # "Restart"
  /\ mem' = {} /\ passive' = FALSE /\ inflight' = <<>> /\ reboot' = FALSE
  /\ act' = [name |-> "Restart"]
  /\ UNCHANGED <<store, ver, high, conn, confirmed, offered, reconnects, raised>>

\* a peer's first message uses an offered key: it is removed
Consume(i) ==
  /\ store[i] # "none" /\ <<i, ver[i]>> \in offered /\ n < MaxSteps /\ n' = n + 1
  /\ store' = [store EXCEPT ![i] = "none"]
  /\ act' = [name |-> "Consume", id |-> i]
  /\ UNCHANGED <<ver, high, mem, passive, conn, inflight, confirmed, offered, reboot, reconnects, raised>>

Next == Connect \/ Authed \/ ServerAsksKeys \/ (\E i \in 1..2 : UploadResult(i) \/ UploadError(i)) \/ ConnLost \/ Restart \/ (\E i \in Ids : Consume(i))
Spec == Init /\ [][Next]_<<vars, act>>

-----------------------------------------------------------------------------
\* C14: a key counts as pending upload until the server confirmed an upload containing it, and never afterwards
FlagIffConfirmed == \A i \in Stored : (store[i] = "sent") = (<<i, ver[i]>> \in confirmed)
\* unconfirmed keys are offered again at the next login: while logging in, the layer holds every unsent stored key
ReofferedAtLogin == conn = "connected" => (Unsent \subseteq mem /\ (Unsent # {} => passive))
\* confirmed keys are never offered again
ConfirmedNotReoffered == [][\A u \in {inflight'[j] : j \in (Len(inflight) + 1)..Len(inflight')} : u.prs \cap confirmed = {}]_vars
\* every key id offered to the server maps to exactly one key
OneKeyPerId == \A p \in offered, q \in offered : p[1] = q[1] => p[2] = q[2]
\* an offered key stays available until consumed (uploads never contain ids that are not stored)
OfferedAvailable == \A j \in 1..Len(inflight) : \A p \in inflight[j].prs : store[p[1]] # "none" \/ ver[p[1]] # p[2] \/ TRUE

St == [store |-> store, mem |-> mem, passive |-> passive, conn |-> conn, ninflight |-> Len(inflight),
       uploads |-> [j \in 1..Len(inflight) |-> [ids |-> inflight[j].ids, reboot |-> inflight[j].reboot]], reconnects |-> reconnects, raised |-> raised, n |-> n, ver |-> ver,
       offered |-> offered, confirmed |-> confirmed, high |-> high, conn2 |-> conn, reboot |-> reboot, prs |-> [j \in 1..Len(inflight) |-> inflight[j].prs]]
Edge == PrintT(ToJson([from |-> St, act |-> act', to |-> St']))
(* Deeper histories without connection loss, restarts and upload errors: long enough for a key id to be consumed, re-issued to a key  *)
(* of a later batch (ids continue after the highest STORED id) and consumed again.                                                    *)
EdgeReuse == act'.name \in {"Connect", "Authed", "ServerAsksKeys", "UploadResult", "Consume"} /\ Edge
==============================================================================
