SPECIFICATION Spec
CONSTANTS
  MaxDepth = 4
  MaxGroup = 3
  MaxConsumers = 1
VIEW View




CHECK_DEADLOCK FALSE
ACTION_CONSTRAINT Edge
