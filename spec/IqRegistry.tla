------------------------------ MODULE IqRegistry ------------------------------
(* Request/response correlation (yowsup/layers/__init__.py processIqRegistry,     *)
(* yowsup/layers/interface/interface.py, the iq-transporting protocol layers).    *)
(* Two registry levels: the protocol layer that transports a request ("holder")   *)
(* and the interface layer that holds the application's callbacks.  A reply first *)
(* meets the holder, which converts it to an entity and hands it upward, then the *)
(* interface layer, which invokes the application callback.                       *)
EXTENDS Naturals, Sequences, FiniteSets, TLC, Json

CONSTANTS MaxReq,              \* requests per history
          MaxDeliveries,       \* stanzas delivered by the server per history
          MatchRepliesOnly,    \* TRUE: registries are consulted for result/error stanzas only (claimed)
                               \* FALSE: any iq whose id is outstanding is taken as its reply and swallowed (as read at 4127b7c)
          HolderForwardsErrors,\* TRUE: every holder hands error replies upward (claimed)
                               \* FALSE: holders registered with a success handler only swallow the error (as read: ping, group list, participants)
          DirectErrorsForwarded\* TRUE: error replies to unregistered requests (contact sync) reach the application (claimed); FALSE as read

\* kind classes: how the transporting layer treats the request
\*   "full"   : registered by its protocol layer with success and error handlers (last seen, pictures, statuses, privacy, most group ops, upload)
\*   "okonly" : registered with a success handler only (ping, group list, group participants)
\*   "direct" : sent without registration; the result is recognised by its shape in the layer's ordinary receive path (contact sync)
KindClasses == {"full", "okonly", "direct"}

VARIABLES reqs,     \* Seq of [kind, appOk, appErr, app, retry]  (index = model id); app = FALSE: issued by a library layer itself;
                    \* retry = TRUE: the application's error callback re-sends the same request (same id) from inside the callback
          lreg,     \* ids registered in a protocol layer's registry
          ireg,     \* ids registered in the interface layer's registry
          calls,    \* application callbacks invoked: Seq of [id, which]
          top,      \* entities that reached the top unclaimed: Seq of [id, type]
          pongs,    \* ids of pongs sent downward
          pings,    \* ghost: ids of server pings received
          answered, \* ghost: id -> "none" | "result" | "error" (first reply delivered while outstanding)
          expOk, expErr, \* ghost: id -> number of success / error callbacks owed so far
          ndel, act

vars == <<reqs, lreg, ireg, calls, top, pongs, pings, answered, expOk, expErr, ndel>>
View == vars
Ids == 1..MaxReq

Init == /\ reqs = <<>> /\ lreg = {} /\ ireg = {} /\ calls = <<>> /\ top = <<>> /\ pongs = <<>> /\ pings = <<>>
        /\ answered = [i \in Ids |-> "none"] /\ expOk = [i \in Ids |-> 0] /\ expErr = [i \in Ids |-> 0] /\ ndel = 0 /\ act = [name |-> "Init"]

Request(kind, app, ok, err, retry) ==
  /\ Len(reqs) < MaxReq
  /\ LET id == Len(reqs) + 1 IN
       /\ reqs' = Append(reqs, [kind |-> kind, appOk |-> ok, appErr |-> err, app |-> app, retry |-> retry])
       /\ lreg' = IF kind # "direct" THEN lreg \cup {id} ELSE lreg
       /\ ireg' = IF app THEN ireg \cup {id} ELSE ireg
  /\ act' = [name |-> "Request", kind |-> kind, app |-> app, ok |-> ok, err |-> err, retry |-> retry]
  /\ UNCHANGED <<calls, top, pongs, pings, answered, expOk, expErr, ndel>>

\* does the transporting level hand an entity upward for this stanza?
Forwarded(id, type, known) ==
  IF known /\ id \in lreg
  THEN (type = "result") \/ (type = "error" /\ (reqs[id].kind = "full" \/ HolderForwardsErrors))
  ELSE IF known /\ reqs[id].kind = "direct"
       THEN (type = "result") \/ (type = "error" /\ DirectErrorsForwarded /\ id \in ireg)
       ELSE FALSE

\* the interface level; `retrying`: the error callback re-sends the request, which registers the id again
\* at both levels (after the old entries were removed)
Retrying(id, type, known, fwd) == fwd /\ known /\ id \in ireg /\ type = "error" /\ reqs[id].appErr /\ reqs[id].retry
Upper(id, type, known, fwd) ==
  IF ~fwd THEN UNCHANGED <<ireg, calls, top>>
  ELSE IF known /\ id \in ireg
       THEN /\ ireg' = IF Retrying(id, type, known, fwd) THEN ireg ELSE ireg \ {id}
            /\ calls' = IF type = "result" /\ reqs[id].appOk THEN Append(calls, [id |-> id, which |-> "ok"])
                        ELSE IF type = "error" /\ reqs[id].appErr THEN Append(calls, [id |-> id, which |-> "err"])
                        ELSE calls
            /\ UNCHANGED top
       ELSE /\ top' = Append(top, [id |-> id, type |-> type]) /\ UNCHANGED <<ireg, calls>>

\* the server delivers a result / error stanza carrying the id of request `id` (outstanding or already
\* answered = replay).  Replies to direct requests that were answered before are replays too.
Deliver(id, type) ==
  /\ ndel < MaxDeliveries /\ id \in 1..Len(reqs)
  /\ LET fwd == Forwarded(id, type, TRUE) retrying == Retrying(id, type, TRUE, fwd) IN
       /\ lreg' = IF retrying /\ reqs[id].kind # "direct" THEN lreg \cup {id} ELSE lreg \ {id}
       /\ Upper(id, type, TRUE, fwd)
       /\ reqs' = IF retrying THEN [reqs EXCEPT ![id].retry = FALSE] ELSE reqs
       /\ answered' = IF retrying THEN [answered EXCEPT ![id] = "none"]
                      ELSE IF answered[id] = "none" THEN [answered EXCEPT ![id] = type] ELSE answered
  \* what the property demands, independent of the registry mechanics: the first reply to an outstanding
  \* application request owes exactly one callback of the matching kind (if one was registered)
  /\ expOk' = IF answered[id] = "none" /\ reqs[id].app /\ type = "result" /\ reqs[id].appOk THEN [expOk EXCEPT ![id] = @ + 1] ELSE expOk
  /\ expErr' = IF answered[id] = "none" /\ reqs[id].app /\ type = "error" /\ reqs[id].appErr THEN [expErr EXCEPT ![id] = @ + 1] ELSE expErr
  /\ ndel' = ndel + 1
  /\ act' = [name |-> "Deliver", id |-> id, type |-> type]
  /\ UNCHANGED <<pongs, pings>>

\* a reply whose id was never issued: handled as an ordinary stanza (a sync-shaped result is still
\* presented upward by the contacts layer; anything else is ignored)
DeliverUnknown(type, shape) ==
  /\ ndel < MaxDeliveries
  /\ IF type = "result" /\ shape = "sync" THEN top' = Append(top, [id |-> 0, type |-> type]) ELSE UNCHANGED top
  /\ ndel' = ndel + 1
  /\ act' = [name |-> "DeliverUnknown", type |-> type, shape |-> shape]
  /\ UNCHANGED <<reqs, lreg, ireg, calls, pongs, pings, answered, expOk, expErr>>

\* a server-initiated ping (iq get) whose id equals that of request `id` (0 = no collision)
ServerPing(id) ==
  /\ ndel < MaxDeliveries /\ id \in 0..Len(reqs)
  /\ pings' = Append(pings, id)
  /\ IF MatchRepliesOnly \/ id = 0 \/ id \notin lreg
     THEN pongs' = Append(pongs, id) /\ UNCHANGED lreg
     ELSE \* as read: the holder takes it for the reply, drops the entry, invokes nothing
          /\ lreg' = lreg \ {id}
          /\ pongs' = IF reqs[id].kind = "okonly" THEN pongs ELSE Append(pongs, id)
  /\ ndel' = ndel + 1
  /\ act' = [name |-> "ServerPing", id |-> id]
  /\ UNCHANGED <<reqs, ireg, calls, top, answered, expOk, expErr>>

Next == \/ \E k \in KindClasses, ok \in BOOLEAN, err \in BOOLEAN : Request(k, TRUE, ok, err, FALSE)
        \/ \E k \in KindClasses, ok \in BOOLEAN : Request(k, TRUE, ok, TRUE, TRUE)
        \/ Request("okonly", FALSE, FALSE, FALSE, FALSE)          \* the keep-alive ping issued by the iq layer itself
        \/ \E id \in Ids, t \in {"result", "error"} : Deliver(id, t)
        \/ \E t \in {"result", "error"}, s \in {"plain", "sync"} : DeliverUnknown(t, s)
        \/ \E id \in 0..MaxReq : ServerPing(id)
Spec == Init /\ [][Next]_<<vars, act>>

-----------------------------------------------------------------------------
Count(id, which) == Len(SelectSeq(calls, LAMBDA c : c.id = id /\ c.which = which))
\* C08: a result reply invokes the success callback, an error reply the error callback of the request
\* with the same id, exactly once; nothing else invokes anything
Correlation ==
  \A id \in 1..Len(reqs) :
     /\ Count(id, "ok")  = expOk[id]
     /\ Count(id, "err") = expErr[id]
NoLeak == \A id \in 1..Len(reqs) : answered[id] # "none" => id \notin ireg /\ id \notin lreg
\* non-reply stanzas are handled as ordinary stanzas: every server ping is answered
PingsAnswered == pongs = pings
\* unanswered requests stay registered
StillWaiting == \A id \in 1..Len(reqs) : answered[id] = "none" =>
                   (reqs[id].app => id \in ireg) /\ (reqs[id].kind # "direct" => id \in lreg)

St == [reqs |-> reqs, lreg |-> [i \in Ids |-> i \in lreg], ireg |-> [i \in Ids |-> i \in ireg], calls |-> calls, top |-> top, pongs |-> pongs, pings |-> pings,
       answered |-> answered, expOk |-> expOk, expErr |-> expErr, ndel |-> ndel]
Edge == PrintT(ToJson([from |-> St, act |-> act', to |-> St']))
==============================================================================
