--------------------------- MODULE MediaCipher_Design ---------------------------
EXTENDS MediaCipher
ASSUME PrintT(ToJson([roundtrip |-> RoundTrip, length |-> Length, tamper |-> TamperRejected]))
ASSUME PrintT(ToJson([layout |-> LayoutTerm, cases |-> SetToSeq(Cases), B |-> B]))
VARIABLE x
Init == x = 0
Next == UNCHANGED x
Spec == Init /\ [][Next]_x
==============================================================================
