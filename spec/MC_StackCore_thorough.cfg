SPECIFICATION Spec
CONSTANTS
  MaxDepth = 4
  MaxGroup = 3
  MaxConsumers = 1
VIEW View
INVARIANT AtMostOnce
INVARIANT Ordered
INVARIANT EventReach
INVARIANT DataFanout
CHECK_DEADLOCK FALSE
