SPECIFICATION Spec
CONSTANTS
  MaxDepth = 3
  MaxGroup = 2
  MaxConsumers = 1
VIEW View




CHECK_DEADLOCK FALSE
ACTION_CONSTRAINT Edge
