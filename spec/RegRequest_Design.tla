--------------------------- MODULE RegRequest_Design ---------------------------
EXTENDS RegRequest
ASSUME RoundTrip1
ASSUME RoundTrip2
ASSUME OnlySafeChars
ASSUME UTF8RoundTrip
ASSUME PrintT(ToJson([single |-> SingleTable, cps |-> CPTable, token |-> TokenTerm, blob |-> BlobTerm]))
ASSUME \A i \in 1..Len(Cases) : PrintT(ToJson([i |-> i, r |-> EncParams(Cases[i])]))
==============================================================================
