SPECIFICATION SSpec
CONSTANTS
  Acc = {"a", "b"}
  Members = {"a", "b"}
  MaxJoins = 2
  MaxMsgs = 3
  MaxFaults = 2
  MaxOpen = 1
  MaxRetries = 2
  ServerAcks = FALSE
  MaxReorder = 2
  ReshowAllowed = FALSE
CONSTRAINT Bounded
INVARIANT Emit
CHECK_DEADLOCK FALSE
