SPECIFICATION Spec
