SPECIFICATION Spec
CONSTANTS
  Sym = {0, 2}
  MaxLen = 2
  MaxFrames = 3
  SendLens = {}
  AllowToggle = FALSE
  MaxLoss = 0
  ResetOnDisconnect = TRUE
VIEW View





ACTION_CONSTRAINT Edge
CHECK_DEADLOCK FALSE
