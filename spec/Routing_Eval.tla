----------------------------- MODULE Routing_Eval -----------------------------
EXTENDS Routing
ASSUME \A i \in 1..Len(Kinds) : PrintT(ToJson(KindOut(i)))
VARIABLE x
Init == x = 0
Next == UNCHANGED x
Spec == Init /\ [][Next]_x
==============================================================================
