SPECIFICATION Spec
CONSTANTS
  Acc = {"a", "b"}
  MaxGen = 3
  TrustsAll = FALSE
VIEW View
CHECK_DEADLOCK FALSE
ACTION_CONSTRAINT Edge
