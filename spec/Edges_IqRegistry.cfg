SPECIFICATION Spec
CONSTANTS
  MaxReq = 2
  MaxDeliveries = 2
  MatchRepliesOnly = TRUE
  HolderForwardsErrors = TRUE
  DirectErrorsForwarded = TRUE
VIEW View




CHECK_DEADLOCK FALSE
ACTION_CONSTRAINT Edge
