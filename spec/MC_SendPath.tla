----------------------------- MODULE MC_SendPath -----------------------------
EXTENDS SendPath
S(e) == [kind |-> "send", entry |-> e, fault |-> "none"]
SF(e, f) == [kind |-> "send", entry |-> e, fault |-> f]
R == [kind |-> "recv", entry |-> "-", fault |-> "none"]
RF == [kind |-> "recv", entry |-> "-", fault |-> "deliver"]
RR == [kind |-> "recvreply", entry |-> "top", fault |-> "none"]
RU == [kind |-> "recv", entry |-> "-", fault |-> "undecodable"]
\* C11: two application threads (one sends twice) and the keep-alive thread entering below the top
T2 == {"a", "b"}
T3 == {"a", "b", "c"}
JobsC11a == [a |-> << S("top"), S("top") >>, b |-> << S("mid") >>]
JobsC11b == [a |-> << S("top") >>, b |-> << S("mid") >>, c |-> << S("top") >>]
\* the network thread answers an incoming stanza from within its delivery while application threads send
JobsC11d == [a |-> << S("top"), S("mid") >>, b |-> << RR, R >>]
JobsC11c == [a |-> << S("top"), S("mid") >>, b |-> << S("mid"), S("top") >>, c |-> << R, R >>]
\* C12: a failing send / receive at every site, then follow-up work from the same and another thread
JobsC12a == [a |-> << SF("top", "coder"), S("top") >>, b |-> << S("mid") >>]
JobsC12b == [a |-> << SF("top", "oversize"), S("top") >>, b |-> << R, S("top") >>]
JobsC12c == [a |-> << SF("top", "notready"), S("mid") >>, b |-> << S("top") >>]
JobsC12d == [a |-> << RF, R, R >>, b |-> << S("top"), S("mid") >>]
\* the largest refusable boundary: plaintext of exactly 2^24 - 16 bytes (its ciphertext no longer fits a 24-bit length)
JobsC12g == [a |-> << SF("top", "oversize_edge"), S("top") >>, b |-> << S("mid") >>]
JobsC12f == [a |-> << R, RU, R >>, b |-> << S("top"), SF("mid", "coder"), S("top") >>]
JobsC12e == [a |-> << SF("mid", "logger"), S("top") >>, b |-> << R, R >>]
==============================================================================
