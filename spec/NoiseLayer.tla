------------------------------ MODULE NoiseLayer ------------------------------
(* YowNoiseLayer (yowsup/layers/noise/layer.py) with its handshake worker          *)
(* (noise/workers/handshake.py) and the consonance protocol object it drives:      *)
(* protocol state machine init / handshake / transport / error, the shared         *)
(* incoming-segments queue, the flush lock, login attempts (one worker thread       *)
(* each), the network thread, a server, disconnects and reconnects.                *)
(* Noise itself is symbolic: a server hello answers one attempt's client hello and *)
(* authenticates only against that attempt's handshake state; transport frames     *)
(* carry counters and decrypt only in order.                                       *)
(* Threads: "net" (delivers server frames: YowNoiseLayer.receive), worker a        *)
(* (attempt a), and the environment (login, disconnect, server).  One action per   *)
(* shared-state operation: queue put / get / size, flush-lock acquire / release,   *)
(* protocol-state read / write.                                                    *)
EXTENDS Naturals, Sequences, SequencesExt, FiniteSets, TLC, Json

CONSTANTS MaxAttempts,    \* login attempts (connections)
          MaxData,        \* transport frames the server sends per connection
          Variants,       \* subset of {"XX", "IK", "IKnew", "BAD"}: what the server does with an attempt
          FreshPerAttempt \* TRUE: a connection that goes down takes its transport state with it: queued segments are dropped and the
                          \*       worker of the cut-off attempt is inert - it no longer touches the protocol state or the queue (claimed)
                          \* FALSE: every worker keeps running on the shared protocol object and the shared queue, and segments of the
                          \*       old connection stay queued (as read at 4127b7c)

Att == 1..MaxAttempts
VARIABLES proto,      \* protocol state
          cur,        \* current attempt / connection (0: none yet)
          connected,  \* the current connection is up
          variant,    \* attempt -> variant chosen by the server
          pcW,        \* attempt -> worker program counter
          wst,        \* attempt -> the worker's private handshake state: "none" | "sentHello" | "ok" | "bad"
          incomingQ,  \* shared queue of segments: [k, a, n]
          inflight,   \* segments the server has written that the network thread has not delivered yet
          flush,      \* holder of the flush lock: Free | thread id
          pcN, seen,  \* network thread: program counter, state value it read
          fl,         \* thread -> flush sub-program counter ("-" when not flushing)
          fcur,       \* thread -> segment taken from the queue and being decrypted
          rctr,       \* next receive counter of the transport cipher (per connection: reset when a handshake completes)
          up,         \* what reached the layer above: Seq of [k \in {"data","failure"}, a, n]
          sent,       \* ghost: transport frames the server has produced: attempt -> count
          out,        \* what the client wrote: Seq of [k, a]
          storedKey,  \* server key in the profile: "old" | "new"
          act
vars == <<proto, cur, connected, variant, pcW, wst, incomingQ, inflight, flush, pcN, seen, fl, fcur, rctr, up, sent, out, storedKey>>
View == vars

Seg(k, a, n) == [k |-> k, a |-> a, n |-> n]
NoSeg == Seg("-", 0, 0)
NetT == 0          \* thread ids: 0 = network thread, a = worker of attempt a
Free == 99
Thr == {NetT} \cup Att

Init == /\ proto = "init" /\ cur = 0 /\ connected = FALSE /\ variant = [a \in Att |-> "-"]
        /\ pcW = [a \in Att |-> "none"] /\ wst = [a \in Att |-> "none"]
        /\ incomingQ = <<>> /\ inflight = <<>> /\ flush = Free /\ pcN = "idle" /\ seen = "-"
        /\ fl = [t \in Thr |-> "-"] /\ fcur = [t \in Thr |-> NoSeg] /\ rctr = 0 /\ up = <<>> /\ sent = [a \in Att |-> 0]
        /\ out = <<>> /\ storedKey = "old" /\ act = [name |-> "Init"]

\* ---- environment: connect + auth event (on_auth): prologue written, worker created if no handshake is running ----
Login(v) ==
  /\ ~connected /\ cur < MaxAttempts /\ v \in Variants
  /\ cur' = cur + 1 /\ connected' = TRUE
  /\ variant' = [variant EXCEPT ![cur + 1] = v]
  /\ out' = Append(out, Seg("prologue", cur + 1, 0))
  /\ IF proto # "handshake"
     THEN pcW' = [pcW EXCEPT ![cur + 1] = "reset"]
     ELSE UNCHANGED pcW                     \* a handshake is (still) marked as running: no new worker
  /\ act' = [name |-> "Login", a |-> cur + 1, v |-> v]
  /\ UNCHANGED <<proto, wst, incomingQ, inflight, flush, pcN, seen, fl, fcur, rctr, up, sent, storedKey>>

\* the connection goes down (peer close, socket error, disconnect request): DISCONNECTED event -> protocol reset;
\* bytes in flight are lost; queued segments stay in the queue
Disconnect ==
  /\ connected /\ pcN = "idle"
  /\ connected' = FALSE /\ inflight' = <<>> /\ proto' = "init"
  /\ IF FreshPerAttempt
     THEN \* queue, stream, flush lock and protocol object belong to the attempt: the cut-off worker keeps only the old ones
          /\ incomingQ' = <<>> /\ flush' = Free
          /\ pcW' = [a \in Att |-> IF pcW[a] \in {"none", "done", "dead"} THEN pcW[a] ELSE "dead"]
          /\ fl' = [t \in Thr |-> "-"] /\ fcur' = [t \in Thr |-> NoSeg]
     ELSE UNCHANGED <<incomingQ, flush, pcW, fl, fcur>>
  /\ act' = [name |-> "Disconnect", a |-> cur]
  /\ UNCHANGED <<cur, variant, wst, pcN, seen, rctr, up, sent, out, storedKey>>

\* ---- server ----
HelloFor(a) == \E i \in 1..Len(out) : out[i] = Seg("chello", a, 0)
HelloAnswered(a) == sent[a] > 0 \/ (\E i \in 1..Len(inflight) : inflight[i].k = "hello" /\ inflight[i].a = a)
                    \/ (\E i \in 1..Len(incomingQ) : incomingQ[i].k = "hello" /\ incomingQ[i].a = a) \/ wst[a] \in {"ok", "bad"}
                    \/ (\E t \in Thr : fcur[t].k = "hello" /\ fcur[t].a = a)
ServerHello ==
  /\ connected /\ HelloFor(cur) /\ ~HelloAnswered(cur)
  /\ inflight' = Append(inflight, Seg("hello", cur, 0))
  /\ act' = [name |-> "ServerHello", a |-> cur]
  /\ UNCHANGED <<proto, cur, connected, variant, pcW, wst, incomingQ, flush, pcN, seen, fl, fcur, rctr, up, sent, out, storedKey>>
\* transport frames: for IK right after the hello, for XX / IKnew after the client's finish message
ServerReady(a) == IF variant[a] = "IK" THEN HelloAnswered(a) ELSE \E i \in 1..Len(out) : out[i] = Seg("finish", a, 0)
ServerData ==
  /\ connected /\ variant[cur] # "BAD" /\ ServerReady(cur) /\ sent[cur] < MaxData
  /\ inflight' = Append(inflight, Seg("data", cur, sent[cur] + 1))
  /\ sent' = [sent EXCEPT ![cur] = @ + 1]
  /\ act' = [name |-> "ServerData", a |-> cur, n |-> sent[cur] + 1]
  /\ UNCHANGED <<proto, cur, connected, variant, pcW, wst, incomingQ, flush, pcN, seen, fl, fcur, rctr, up, out, storedKey>>

\* ---- the flush sub-program (_flush_incoming_buffer), run by the network thread or by a worker ----
FlushAcq(t) == /\ fl[t] = "acq" /\ flush = Free /\ flush' = t /\ fl' = [fl EXCEPT ![t] = "size"]
               /\ act' = [name |-> "FlushAcq", t |-> t]
               /\ UNCHANGED <<proto, cur, connected, variant, pcW, wst, incomingQ, inflight, pcN, seen, fcur, rctr, up, sent, out, storedKey>>
FlushSize(t) == /\ fl[t] = "size" /\ fl' = [fl EXCEPT ![t] = IF incomingQ = <<>> THEN "rel" ELSE "get"]
                /\ act' = [name |-> "FlushSize", t |-> t, n |-> Len(incomingQ)]
                /\ UNCHANGED <<proto, cur, connected, variant, pcW, wst, incomingQ, inflight, flush, pcN, seen, fcur, rctr, up, sent, out, storedKey>>
FlushGet(t) == /\ fl[t] = "get" /\ incomingQ # <<>>
               /\ fcur' = [fcur EXCEPT ![t] = Head(incomingQ)] /\ incomingQ' = Tail(incomingQ) /\ fl' = [fl EXCEPT ![t] = "dec"]
               /\ act' = [name |-> "FlushGet", t |-> t]
               /\ UNCHANGED <<proto, cur, connected, variant, pcW, wst, inflight, flush, pcN, seen, rctr, up, sent, out, storedKey>>
\* decrypt with the next counter and hand upward (a segment that does not decrypt raises: the flush is abandoned, lock released)
FlushDeliver(t) ==
  /\ fl[t] = "dec"
  /\ LET s == fcur[t] good == s.k = "data" /\ s.a = cur /\ s.n = rctr + 1 /\ proto = "transport" IN
       IF good THEN /\ up' = Append(up, s) /\ rctr' = rctr + 1 /\ fl' = [fl EXCEPT ![t] = "size"] /\ UNCHANGED flush
               ELSE /\ fl' = [fl EXCEPT ![t] = "-"] /\ flush' = Free /\ UNCHANGED <<up, rctr>>      \* exception to the caller
  /\ fcur' = [fcur EXCEPT ![t] = NoSeg]
  /\ (IF fl'[t] = "-" /\ t = NetT THEN pcN' = "idle" ELSE UNCHANGED pcN)
  /\ (IF fl'[t] = "-" /\ t \in Att THEN pcW' = [pcW EXCEPT ![t] = "done"] ELSE UNCHANGED pcW)
  /\ act' = [name |-> "FlushDeliver", t |-> t, seg |-> fcur[t]]
  /\ UNCHANGED <<proto, cur, connected, variant, wst, incomingQ, inflight, seen, sent, out, storedKey>>
FlushRel(t) == /\ fl[t] = "rel" /\ flush' = Free /\ fl' = [fl EXCEPT ![t] = "-"]
               /\ (IF t = NetT THEN pcN' = "idle" /\ UNCHANGED pcW ELSE pcW' = [pcW EXCEPT ![t] = "done"] /\ UNCHANGED pcN)
               /\ act' = [name |-> "FlushRel", t |-> t]
               /\ UNCHANGED <<proto, cur, connected, variant, wst, incomingQ, inflight, seen, fcur, rctr, up, sent, out, storedKey>>

\* ---- network thread: receive(segment) = put; read state; flush unless a handshake is running ----
NetPut == /\ pcN = "idle" /\ inflight # <<>>
          /\ incomingQ' = Append(incomingQ, Head(inflight)) /\ inflight' = Tail(inflight) /\ pcN' = "read"
          /\ act' = [name |-> "NetPut", seg |-> Head(inflight)]
          /\ UNCHANGED <<proto, cur, connected, variant, pcW, wst, flush, seen, fl, fcur, rctr, up, sent, out, storedKey>>
NetRead == /\ pcN = "read"
           /\ IF proto = "handshake" THEN pcN' = "idle" /\ UNCHANGED fl
              ELSE pcN' = "flush" /\ fl' = [fl EXCEPT ![NetT] = "acq"]
           /\ seen' = proto
           /\ act' = [name |-> "NetRead", state |-> proto]
           /\ UNCHANGED <<proto, cur, connected, variant, pcW, wst, incomingQ, inflight, flush, fcur, rctr, up, sent, out, storedKey>>

\* ---- handshake worker of attempt a ----
WReset(a) == /\ pcW[a] = "reset" /\ proto' = "init" /\ pcW' = [pcW EXCEPT ![a] = "start"]
             /\ act' = [name |-> "WReset", a |-> a]
             /\ UNCHANGED <<cur, connected, variant, wst, incomingQ, inflight, flush, pcN, seen, fl, fcur, rctr, up, sent, out, storedKey>>
WStart(a) == /\ pcW[a] = "start" /\ proto \in {"init", "error"}
             /\ proto' = "handshake" /\ pcW' = [pcW EXCEPT ![a] = "hello"]
             /\ act' = [name |-> "WStart", a |-> a]
             /\ UNCHANGED <<cur, connected, variant, wst, incomingQ, inflight, flush, pcN, seen, fl, fcur, rctr, up, sent, out, storedKey>>
WHello(a) == /\ pcW[a] = "hello"
             /\ out' = IF connected /\ a = cur THEN Append(out, Seg("chello", a, 0)) ELSE out
             /\ wst' = [wst EXCEPT ![a] = "sentHello"] /\ pcW' = [pcW EXCEPT ![a] = "await"]
             /\ act' = [name |-> "WHello", a |-> a]
             /\ UNCHANGED <<proto, cur, connected, variant, incomingQ, inflight, flush, pcN, seen, fl, fcur, rctr, up, sent, storedKey>>
\* blocking get on the shared queue: whatever segment is at its head
WAwait(a) == /\ pcW[a] = "await" /\ incomingQ # <<>>
             /\ LET s == Head(incomingQ) IN
                  wst' = [wst EXCEPT ![a] = IF s.k = "hello" /\ s.a = a /\ variant[a] # "BAD" THEN "ok" ELSE "bad"]
             /\ incomingQ' = Tail(incomingQ) /\ pcW' = [pcW EXCEPT ![a] = "proc"]
             /\ act' = [name |-> "WAwait", a |-> a, seg |-> Head(incomingQ)]
             /\ UNCHANGED <<proto, cur, connected, variant, inflight, flush, pcN, seen, fl, fcur, rctr, up, sent, out, storedKey>>
\* authentication of the server hello by this attempt's handshake state
WProc(a) == /\ pcW[a] = "proc"
            /\ IF wst[a] = "bad"
               THEN pcW' = [pcW EXCEPT ![a] = "fail"] /\ UNCHANGED out
               ELSE IF variant[a] = "IK" THEN pcW' = [pcW EXCEPT ![a] = "finish"] /\ UNCHANGED out
               ELSE /\ pcW' = [pcW EXCEPT ![a] = "finish"]
                    /\ out' = IF connected /\ a = cur THEN Append(out, Seg("finish", a, 0)) ELSE out
            /\ act' = [name |-> "WProc", a |-> a]
            /\ UNCHANGED <<proto, cur, connected, variant, wst, incomingQ, inflight, flush, pcN, seen, fl, fcur, rctr, up, sent, storedKey>>
\* machine.finish(): state := transport, then the state callback: persist a changed server key, flush
WFinish(a) == /\ pcW[a] = "finish" /\ proto = "handshake"
              /\ proto' = "transport" /\ rctr' = 0
              /\ storedKey' = IF variant[a] \in {"XX", "IKnew"} THEN "new" ELSE storedKey
              /\ pcW' = [pcW EXCEPT ![a] = "flush"] /\ fl' = [fl EXCEPT ![a] = "acq"]
              /\ act' = [name |-> "WFinish", a |-> a]
              /\ UNCHANGED <<cur, connected, variant, wst, incomingQ, inflight, flush, pcN, seen, fcur, up, sent, out>>
\* machine.fail(): state := error; on_handshake_finished(error): failure event + failure stanza upward
WFail(a) == /\ pcW[a] = "fail" /\ proto \in {"handshake", "transport"}
            /\ proto' = "error" /\ up' = Append(up, Seg("failure", a, 0)) /\ pcW' = [pcW EXCEPT ![a] = "done"]
            /\ act' = [name |-> "WFail", a |-> a]
            /\ UNCHANGED <<cur, connected, variant, wst, incomingQ, inflight, flush, pcN, seen, fl, fcur, rctr, sent, out, storedKey>>
\* the protocol object refuses finish / fail from a state it cannot leave that way (the attempt was reset meanwhile): the worker dies
WDie(a) == /\ (pcW[a] = "finish" /\ proto # "handshake") \/ (pcW[a] = "fail" /\ proto \notin {"handshake", "transport"}) \/ (pcW[a] = "start" /\ proto \notin {"init", "error"})
           /\ pcW' = [pcW EXCEPT ![a] = "dead"]
           /\ act' = [name |-> "WDie", a |-> a]
           /\ UNCHANGED <<proto, cur, connected, variant, wst, incomingQ, inflight, flush, pcN, seen, fl, fcur, rctr, up, sent, out, storedKey>>

Worker(a) == (WReset(a) \/ WStart(a) \/ WHello(a) \/ WAwait(a) \/ WProc(a) \/ WFinish(a) \/ WFail(a) \/ WDie(a)
             \/ FlushAcq(a) \/ FlushSize(a) \/ FlushGet(a) \/ FlushDeliver(a) \/ FlushRel(a))
Net == NetPut \/ NetRead \/ FlushAcq(NetT) \/ FlushSize(NetT) \/ FlushGet(NetT) \/ FlushDeliver(NetT) \/ FlushRel(NetT)
Env == (\E v \in Variants : Login(v)) \/ Disconnect \/ ServerHello \/ ServerData
Next == Env \/ Net \/ \E a \in Att : Worker(a)
Spec == Init /\ [][Next]_<<vars, act>>
\* fairness: threads and the server keep running; the environment is not forced to log in or disconnect
FairSpec == Spec /\ WF_vars(Net) /\ (\A a \in Att : WF_vars(Worker(a))) /\ WF_vars(ServerHello) /\ WF_vars(ServerData)

-----------------------------------------------------------------------------
Data(a) == SelectSeq(up, LAMBDA s : s.k = "data" /\ s.a = a)
\* C04 safety: the transport frames of a connection reach the layer above in sending order, each once, nothing else
InOrder == \A a \in Att : \A i \in 1..Len(Data(a)) : Data(a)[i].n = i
NothingForeign == \A i \in 1..Len(up) : up[i].k \in {"data", "failure"}
\* a changed server key is stored once the session is established
KeyStored == \A a \in Att : (pcW[a] \in {"flush", "done"} /\ wst[a] = "ok" /\ variant[a] \in {"XX", "IKnew"}) => storedKey = "new"
\* failure is reported for a server reply that fails authentication
FailureReported == \A a \in Att : (pcW[a] = "done" /\ wst[a] = "bad") => \E i \in 1..Len(up) : up[i] = Seg("failure", a, 0)
\* C04 liveness: an attempt that is not cut off establishes the session (all frames delivered) or reports failure
Settled(a) == \/ (variant[a] = "BAD" /\ \E i \in 1..Len(up) : up[i] = Seg("failure", a, 0))
              \/ (variant[a] # "BAD" /\ proto = "transport" /\ Len(Data(a)) = MaxData)
NotCutOff(a) == [](cur = a => connected)
Establishes == \A a \in Att : (<>(cur = a) /\ NotCutOff(a) /\ [](cur <= a)) => <>[]Settled(a)
\* every frame the server sent on the final connection is eventually delivered, including frames queued at the very moment
\* the handshake completes
St == [proto |-> proto, cur |-> cur, connected |-> connected, pcW |-> pcW, wst |-> wst, incomingQ |-> incomingQ, inflight |-> inflight, flush |-> flush,
       pcN |-> pcN, up |-> up, out |-> out, storedKey |-> storedKey, rctr |-> rctr]
Edge == PrintT(ToJson([from |-> St, act |-> act', to |-> St']))
==============================================================================
