SPECIFICATION MSpec
CONSTANTS
  Acc = {"a", "b"}
  Members = {"a", "b"}
  MaxJoins = 0
  MaxMsgs = 2
  MaxFaults = 1
  MaxOpen = 1
  MaxRetries = 1
  ServerAcks = FALSE
  MaxReorder = 1
  ReshowAllowed = FALSE
CONSTRAINT Bounded
INVARIANT AtMostOnce
INVARIANT OnlyRecipients
INVARIANT ReceiptsFounded
INVARIANT Complete
CHECK_DEADLOCK FALSE
