SPECIFICATION Spec
CONSTANTS
  Threads <- T2
  Jobs <- JobsC11d
  ReleaseOnException = TRUE
  SizeCheckedFirst = TRUE
VIEW View
CHECK_DEADLOCK FALSE
ACTION_CONSTRAINT Edge
