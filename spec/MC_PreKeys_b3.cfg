SPECIFICATION Spec
CONSTANTS
  Batch = 3
  Threshold = 2
  MaxId = 9
  MaxSteps = 7
  FreshIds = TRUE
VIEW View
INVARIANT FlagIffConfirmed
INVARIANT ReofferedAtLogin
INVARIANT OneKeyPerId
PROPERTY ConfirmedNotReoffered
CHECK_DEADLOCK FALSE
