SPECIFICATION TSpec
CONSTRAINT Progress
INVARIANT Inv
POSTCONDITION Accepted
CHECK_DEADLOCK FALSE
