SPECIFICATION FairSpec
CONSTANTS
  Threads <- T2
  Jobs <- JobsC12b
  ReleaseOnException = FALSE
  SizeCheckedFirst = TRUE
VIEW View
INVARIANT WholeFrames
INVARIANT CounterOrder
INVARIANT ExactlyOnce
INVARIANT UpInOrder
INVARIANT Reported
INVARIANT AllReceived
INVARIANT NoLockLeak
INVARIANT NotStuck
PROPERTY Terminates
CHECK_DEADLOCK FALSE
