SPECIFICATION FairSpec
CONSTANTS
  MaxAttempts = 2
  MaxData = 1
  Variants = {"XX", "IK", "IKnew", "BAD"}
  FreshPerAttempt = TRUE
VIEW View
INVARIANT InOrder
INVARIANT NothingForeign
INVARIANT KeyStored
INVARIANT FailureReported
PROPERTY Establishes
CHECK_DEADLOCK FALSE
