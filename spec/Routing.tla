------------------------------- MODULE Routing -------------------------------
(* The protocol-layer group (yowsup/stacks/yowstack.py getProtocolLayers, the       *)
(* handleMap and handler guards of the 15 protocol layers) and the encryption       *)
(* layers' pass-through: which layer claims which stanza / entity, for every        *)
(* selection of the optional modules.  A stanza kind is given by its features;      *)
(* the harness supplies the kind table (KINDS_FILE, extracted from the hand-written *)
(* catalogue); the guards below are transcribed from the layer code.                *)
EXTENDS Naturals, Sequences, FiniteSets, TLC, Json, IOUtils

Basic == {"auth", "messages", "receipts", "acks", "presence", "ib", "iq", "notifications", "contacts", "chatstate", "calls"}
Optional == {"groups", "media", "privacy", "profiles"}
Configs == SUBSET Optional
Active(cfg) == Basic \cup cfg

SupportedMedia == {"image", "sticker", "audio", "ptt", "video", "gif", "location", "contact", "document", "url"}
GroupClasses == {"CreateGroupsIqProtocolEntity", "InfoGroupsIqProtocolEntity", "LeaveGroupsIqProtocolEntity", "ListGroupsIqProtocolEntity",
                 "SubjectGroupsIqProtocolEntity", "ParticipantsGroupsIqProtocolEntity", "AddParticipantsIqProtocolEntity",
                 "PromoteParticipantsIqProtocolEntity", "DemoteParticipantsIqProtocolEntity", "RemoveParticipantsIqProtocolEntity"}
Has(f, c) == c \in f.children

\* ---- incoming: which layer hands an entity upward ----
\* f: [tag, type, xmlns, children (set of child tags), mediatype, payload, holder (layer that registered the solicited request or "none")]
Up(l, f) ==
  IF f.tag = "iq" /\ f.holder # "none" THEN l = f.holder          \* solicited reply: the registry of the transporting layer
  ELSE CASE l = "auth"      -> f.tag \in {"stream:features", "failure", "success", "stream:error"}
    [] l = "messages"       -> f.tag = "message" /\ Has(f, "proto") /\ f.mediatype = "none" /\ f.payload \in {"conversation", "extended_text"}
    [] l = "media"          -> f.tag = "message" /\ f.type = "media" /\ f.mediatype \in SupportedMedia
    [] l = "receipts"       -> f.tag = "receipt"
    [] l = "acks"           -> f.tag = "ack"
    [] l = "chatstate"      -> f.tag = "chatstate"
    [] l = "presence"       -> f.tag = "presence"
    [] l = "ib"             -> f.tag = "ib" /\ (Has(f, "dirty") \/ Has(f, "offline") \/ Has(f, "account"))
    [] l = "notifications"  -> f.tag = "notification" /\ ((f.type = "picture" /\ (Has(f, "set") \/ Has(f, "delete"))) \/ f.type = "status")
    [] l = "contacts"       -> \/ f.tag = "notification" /\ f.type = "contacts" /\ (Has(f, "remove") \/ Has(f, "add") \/ Has(f, "update") \/ Has(f, "sync"))
                               \/ f.tag = "iq" /\ f.type = "result" /\ Has(f, "sync")
    [] l = "groups"         -> f.tag = "notification" /\ f.type = "w:gp2" /\ (Has(f, "subject") \/ Has(f, "create") \/ Has(f, "remove") \/ Has(f, "add"))
    [] l = "calls"          -> f.tag = "call"
    [] OTHER                -> FALSE

\* ---- incoming: which layer answers downward (ack / receipt / pong) ----
Down(l, f) ==
  CASE l = "notifications" -> f.tag = "notification" /\ ~(f.type = "picture" /\ ~Has(f, "set") /\ ~Has(f, "delete"))
    [] l = "calls"         -> f.tag = "call"
    [] l = "iq"            -> f.tag = "iq" /\ f.holder = "none" /\ f.xmlns = "urn:xmpp:ping"
    [] l = "messages"      -> f.tag = "message" /\ Has(f, "proto") /\ f.mediatype = "none" /\ f.payload = "other"
    [] l = "media"         -> f.tag = "message" /\ f.type = "media" /\ f.mediatype \notin SupportedMedia
    [] OTHER               -> FALSE

\* ---- outgoing: which layer turns the entity into a stanza ----
\* f: [tag, type, xmlns, class]
Out(l, f) ==
  CASE l = "messages"      -> f.tag = "message" /\ f.type = "text"
    [] l = "media"         -> (f.tag = "message" /\ f.type = "media") \/ (f.tag = "iq" /\ f.type = "set" /\ f.xmlns = "w:m")
    [] l = "receipts"      -> f.tag = "receipt"
    [] l = "acks"          -> f.tag = "ack"
    [] l = "chatstate"     -> f.tag = "chatstate"
    [] l = "presence"      -> f.tag = "presence" \/ (f.tag = "iq" /\ f.xmlns = "jabber:iq:last")
    [] l = "ib"            -> f.tag = "iq" /\ f.class = "CleanIqProtocolEntity"
    [] l = "iq"            -> f.tag = "iq" /\ f.xmlns \in {"w:p", "urn:xmpp:whatsapp:push", "w", "urn:xmpp:whatsapp:account", "encrypt"}
    [] l = "notifications" -> f.tag = "notification"
    [] l = "calls"         -> f.tag = "call"
    [] l = "contacts"      -> f.tag = "iq" /\ f.xmlns = "urn:xmpp:whatsapp:sync"
    [] l = "groups"        -> f.tag = "iq" /\ f.class \in GroupClasses
    [] l = "profiles"      -> f.tag = "iq" /\ (f.xmlns \in {"w:profile:picture", "privacy"} \/ f.class \in {"GetStatusesIqProtocolEntity", "SetStatusIqProtocolEntity", "UnregisterIqProtocolEntity"})
    [] l = "privacy"       -> f.tag = "iq" /\ f.xmlns = "jabber:iq:privacy"
    [] OTHER               -> FALSE

\* ---- the encryption layers (control below, send || receive above it) ----
\* incoming: control consumes encrypt notifications with a count/identity child; receipts bubble through the send
\* layer only, everything else through the receive layer only
EncPass(f) == IF f.tag = "notification" /\ f.type = "encrypt" /\ (Has(f, "count") \/ Has(f, "identity")) THEN {}
              ELSE IF f.tag = "receipt" THEN {"send"} ELSE {"receive"}
\* outgoing: messages enter the send layer's encryption path; the receive layer forwards nothing
EncOut(f) == IF f.tag = "message" THEN "encrypt" ELSE "pass"

-----------------------------------------------------------------------------
Kinds == IF "KINDS_FILE" \in DOMAIN IOEnv THEN JsonDeserialize(IOEnv.KINDS_FILE) ELSE <<>>
F(k) == [tag |-> k.tag, type |-> k.type, xmlns |-> k.xmlns, children |-> {k.children[i] : i \in 1..Len(k.children)},
         mediatype |-> k.mediatype, payload |-> k.payload, holder |-> k.holder, class |-> k.class]
Claimers(k, cfg) == IF k.dir = "in" THEN {l \in Active(cfg) : Up(l, F(k))} ELSE {l \in Active(cfg) : Out(l, F(k))}
Reactors(k, cfg) == IF k.dir = "in" THEN {l \in Active(cfg) : Down(l, F(k))} ELSE {}
OwnerPresent(k, cfg) == k.module = "none" \/ k.module \in cfg

\* C06: exactly one claimer when the owning module is selected, none (and no error) otherwise; what the
\* catalogue expects (reaches the top / reaction demanded) is what the guards give, for all 16 selections
ExactlyOnce(k, cfg) ==
  /\ Cardinality(Claimers(k, cfg)) = (IF OwnerPresent(k, cfg) /\ k.expect_claim THEN 1 ELSE 0)
  /\ (OwnerPresent(k, cfg) /\ k.expect_claim) => Claimers(k, cfg) = {k.layer}
\* C07: exactly one acknowledgement
AckOnce(k, cfg) == Cardinality(Reactors(k, cfg)) = (IF k.expect_react /\ (k.react_module = "none" \/ k.react_module \in cfg) THEN 1 ELSE 0)

CfgSeq(cfg) == [g |-> "groups" \in cfg, m |-> "media" \in cfg, p |-> "privacy" \in cfg, pr |-> "profiles" \in cfg]
KindOut(i) == LET k == Kinds[i] IN
  [i |-> i, name |-> k.name,
   rows |-> { [cfg |-> CfgSeq(c), claim |-> Claimers(k, c), react |-> Reactors(k, c), ok1 |-> ExactlyOnce(k, c), ok2 |-> AckOnce(k, c),
               enc_in |-> IF k.dir = "in" THEN EncPass(F(k)) ELSE {}, enc_out |-> IF k.dir = "out" THEN EncOut(F(k)) ELSE "-"] : c \in Configs }]
==============================================================================
