#!/usr/bin/env python3
"""tools/seeded_table.py: rewrite the table between the SEEDED-TABLE markers of DESIGN.md from seeded/RESULTS.json and seeded/*/meta.json."""
import json, glob, os, re
os.chdir("/verif")
res = json.load(open("seeded/RESULTS.json"))
rows = []
def key(n):
    a, b = n.split("_")
    return (a, int(b))
for name in sorted(res, key=key):
    meta = json.load(open("seeded/%s/meta.json" % name))
    r = res[name]
    by = ", ".join(r.get("caught_by") or []) or ("- (does not apply to HEAD)" if r.get("caught") is None else "**missed**")
    first = r.get("first", "")
    m = re.search(r"#\s*([^:]+(?::[^:]+)?)", first)
    sig = (m.group(1).strip()[:60] if m else "")
    rows.append("| %s | %s | %s | %s |" % (name, meta["summary"].replace("|", "/")[:170], by, sig.replace("|", "/")))
table = "| change | what it does | caught by | first signature |\n|---|---|---|---|\n" + "\n".join(rows)
caught = sum(1 for r in res.values() if r.get("caught"))
head = "%d seeded changes, %d caught by the check of their property or a neighbouring one (quick tier).\n\n" % (len(res), caught)
s = open("DESIGN.md").read()
a, b = "<!-- SEEDED-TABLE:BEGIN -->", "<!-- SEEDED-TABLE:END -->"
if a not in s:
    marker = "\n---------------------------------------------------------------------------------------------\n\n## Appendix A."
    s = s.replace(marker, "\n### 11.9 Seeded changes and the checks that detect them\n\n" + a + "\n" + b + "\n" + marker)
s = s[:s.index(a) + len(a)] + "\n" + head + table + "\n" + s[s.index(b):]
open("DESIGN.md", "w").write(s)
print(head.strip())
