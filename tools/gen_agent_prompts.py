#!/usr/bin/env python3
"""tools/gen_agent_prompts.py <round> <first number>: prompts for a further round of seeded changes, one per property, written to
/tmp/agentprompts<round>/<ID>.txt from the round-4 template (/tmp/agentprompts4) with the list of earlier changes rebuilt from
/verif/seeded/*/meta.json (only the one-sentence summaries: nothing else from /verif reaches a sub-agent)."""
import glob, json, os, re, sys
rnd, first = sys.argv[1], int(sys.argv[2])
os.makedirs("/tmp/agentprompts%s" % rnd, exist_ok=True)
for f in sorted(glob.glob("/tmp/agentprompts4/C*.txt")):
    pid = os.path.basename(f)[:3]
    t = open(f).read()
    head = t[:t.index("Earlier rounds already produced")]
    intro = t[t.index("Earlier rounds already produced"):]
    intro = intro[:intro.index("\n  - ")]
    tail = "\n\nFinal answer:" + t.split("\n\nFinal answer:")[1]
    head = head.replace("wt4_", "wt%s_" % rnd).replace("agent4_", "agent%s_" % rnd).replace("11, 12, 13", "%d, %d, %d" % (first, first + 1, first + 2))
    prev = []
    for d in sorted(glob.glob("/verif/seeded/%s_*" % pid), key=lambda x: int(x.split("_")[-1])):
        try:
            prev.append("  - " + json.load(open(d + "/meta.json"))["summary"][:400])
        except Exception:
            pass
    open("/tmp/agentprompts%s/%s.txt" % (rnd, pid), "w").write(head + intro + "\n" + "\n".join(prev) + tail)
print("written", len(glob.glob("/tmp/agentprompts%s/C*.txt" % rnd)))
