#!/usr/bin/env python3
"""One-off generator of spec/PayloadSchema.tla: field numbers and wire types of the message payload, taken from the
protobuf DESCRIPTOR embedded in e2e_pb2.py of the pinned commit (i.e. from e2e.proto, not from the converter)."""
import sys, subprocess
sys.path[:0] = ["/verif/.deps", "/repo"]
from yowsup.layers.protocol_messages.proto import e2e_pb2 as pb
from yowsup.layers.protocol_messages.proto import protocol_pb2 as pb2
from google.protobuf.descriptor import FieldDescriptor as FD

TYPES = ["Message", "Message.ImageMessage", "Message.ContactMessage", "Message.LocationMessage", "Message.ExtendedTextMessage",
         "Message.DocumentMessage", "Message.AudioMessage", "Message.VideoMessage", "Message.StickerMessage",
         "Message.SenderKeyDistributionMessage", "Message.ProtocolMessage", "MessageKey", "ContextInfo"]
KIND = {FD.TYPE_STRING: ("str", 2), FD.TYPE_BYTES: ("bytes", 2), FD.TYPE_BOOL: ("bool", 0), FD.TYPE_UINT32: ("uint", 0), FD.TYPE_UINT64: ("uint", 0),
        FD.TYPE_INT32: ("int", 0), FD.TYPE_INT64: ("int", 0), FD.TYPE_DOUBLE: ("double", 1), FD.TYPE_FLOAT: ("float", 5), FD.TYPE_MESSAGE: ("msg", 2),
        FD.TYPE_ENUM: ("enum", 0), FD.TYPE_FIXED32: ("fixed32", 5), FD.TYPE_FIXED64: ("fixed64", 1)}


def desc(name):
    top = name.split(".")[0]
    d = (pb.DESCRIPTOR.message_types_by_name.get(top) or pb2.DESCRIPTOR.message_types_by_name[top])
    for part in name.split(".")[1:]:
        d = d.nested_types_by_name[part]
    return d


out = ["--------------------------- MODULE PayloadSchema ---------------------------",
       "(* Field numbers, wire types, value kinds and widths of the WhatsApp message    *)",
       "(* payload                                                                       *)",
       "(* (e2e.proto as embedded in yowsup/layers/protocol_messages/proto/e2e_pb2.py  *)",
       "(* at the pinned commit).  Generated once by tools/gen_payload_schema.py from  *)",
       "(* the protobuf descriptor - not from the converter under test - and frozen.   *)",
       "Schema == ["]
rows = []
for t in TYPES:
    d = desc(t)
    fs = []
    for f in d.fields:
        kind, wt = KIND[f.type]
        sub = f.message_type.full_name.replace(".", "_") if f.type == FD.TYPE_MESSAGE else "-"
        rep = "TRUE" if f.label == FD.LABEL_REPEATED else "FALSE"
        ev = "<<%s>>" % ", ".join(str(v.number) for v in f.enum_type.values) if f.type == FD.TYPE_ENUM else "<<>>"
        bits = 64 if f.type in (FD.TYPE_UINT64, FD.TYPE_INT64, FD.TYPE_FIXED64, FD.TYPE_DOUBLE) else (32 if f.type in (FD.TYPE_UINT32, FD.TYPE_INT32, FD.TYPE_FIXED32, FD.TYPE_FLOAT, FD.TYPE_ENUM) else 0)
        fs.append('[name |-> "%s", num |-> %d, wt |-> %d, kind |-> "%s", bits |-> %d, sub |-> "%s", rep |-> %s, ev |-> %s]' % (f.name, f.number, wt, kind, bits, sub, rep, ev))
    rows.append('  %s |-> <<\n    %s >>' % (t.replace(".", "_"), ",\n    ".join(fs)))
out.append(",\n".join(rows))
out.append("]")
out.append("=============================================================================")
open("/verif/spec/PayloadSchema.tla", "w").write("\n".join(out) + "\n")
print("types", len(TYPES))
