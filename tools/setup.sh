#!/bin/sh
# Offline setup: harness-only dependencies into /verif/.deps, then syntax-check every TLA+ module.
set -e
HERE="$(cd "$(dirname "$0")/.." && pwd)"
cd "$HERE"
if [ ! -f .deps/six.py ] || [ ! -d .deps/jsonschema ]; then
  /venv/bin/pip install -q --no-index --find-links /opt/veriftools/wheels --target "$HERE/.deps" six==1.17.0 jsonschema >/dev/null 2>&1 || \
  /venv/bin/pip install --no-index --find-links /opt/veriftools/wheels --target "$HERE/.deps" --upgrade six==1.17.0 jsonschema
fi
cd spec
fail=0
for f in *.tla; do
  if ! tla-sany "$f" >/tmp/sany.$$ 2>&1 || grep -q "^\*\*\* Errors\|Fatal errors\|Parse Error" /tmp/sany.$$; then
    echo "SANY failed on $f"; cat /tmp/sany.$$; fail=1
  fi
done
rm -f /tmp/sany.$$
exit $fail
