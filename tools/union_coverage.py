#!/venv/bin/python
"""tools/union_coverage.py [tier] [ids...]: run the checks in-process (one subprocess each) under line coverage of <repo>/yowsup and
report, per source file, the executable lines NO check executes.  A development aid that shows where the machinery is blind as a whole:
devnotes/coverage/UNION.txt (not evidence).  Uses VERIF_DEVRUN=1, so evidence files are left alone."""
import json, os, subprocess, sys, tempfile, shutil
sys.path.insert(0, "/verif")
tier = sys.argv[1] if len(sys.argv) > 1 else "quick"
ids = sys.argv[2:] or ["C%02d" % i for i in range(1, 21)]
work = tempfile.mkdtemp(prefix="verif_unioncov_")
child = r'''
import importlib, os, sys
sys.path.insert(0, "/verif")
from harness import core
core.setup_imports()
import coverage
cov = coverage.Coverage(source=[os.path.join(core.REPO, "yowsup")], data_file=sys.argv[2], concurrency=["thread"])
cov.start()
try:
    rc = importlib.import_module("harness.props.%s" % sys.argv[1].lower()).run()
except BaseException as e:
    rc = "exception %r" % e
cov.stop(); cov.save()
print(sys.argv[1], "rc", rc); sys.stdout.flush(); os._exit(0)
'''
open(os.path.join(work, "child.py"), "w").write(child)
env = dict(os.environ, VERIF_TIER=tier, VERIF_DEVRUN="1")
procs = []
from concurrent.futures import ThreadPoolExecutor
def one(pid):
    p = subprocess.run(["/venv/bin/python", os.path.join(work, "child.py"), pid, os.path.join(work, "cov.%s" % pid)], env=env,
                       stdout=subprocess.PIPE, stderr=subprocess.STDOUT, cwd="/verif")
    return pid, p.stdout.decode("utf-8", "replace").strip().splitlines()[-1:]
with ThreadPoolExecutor(3) as ex:
    for pid, last in ex.map(one, ids):
        print(pid, last, flush=True)
from harness import core
core.setup_imports()
import coverage
cov = coverage.Coverage(source=[os.path.join(core.REPO, "yowsup")], data_file=os.path.join(work, "union"))
cov.combine([os.path.join(work, "cov.%s" % p) for p in ids if os.path.exists(os.path.join(work, "cov.%s" % p))])
rows = []
for root, _, files in os.walk(os.path.join(core.REPO, "yowsup")):
    for f in files:
        if not f.endswith(".py") or "/test" in root or f.startswith("test_"):
            continue
        path = os.path.join(root, f)
        try:
            _, executable, _, missing, _ = cov.analysis2(path)
        except Exception:
            continue
        if executable:
            rows.append((len(missing), len(executable), os.path.relpath(path, core.REPO), missing))
rows.sort(reverse=True)
out = ["union of %s tiers of %s: executable lines no check runs" % (tier, " ".join(ids))]
tot_m = sum(r[0] for r in rows); tot_e = sum(r[1] for r in rows)
out.append("total: %d of %d executable lines never run (%.1f%% run)" % (tot_m, tot_e, 100.0 * (tot_e - tot_m) / tot_e))
for m, e, p, missing in rows:
    if m:
        out.append("%4d/%4d %s  %s" % (m, e, p, ",".join(map(str, missing[:40])) + (" ..." if m > 40 else "")))
os.makedirs("/verif/devnotes/coverage", exist_ok=True)
open("/verif/devnotes/coverage/UNION.txt", "w").write("\n".join(out) + "\n")
print("\n".join(out[:80]))
shutil.rmtree(work, ignore_errors=True)
