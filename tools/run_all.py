#!/usr/bin/env python3
"""tools/run_all.py [tier] [--jobs N] [ID ...]: run the checks of all (or the given) properties against /repo, N at a time, and print one
line per check (exit status, wall time, summary line).  Used to refresh /verif/evidence/*.json from the unchanged tree before committing."""
import json, os, subprocess, sys, time
from concurrent.futures import ThreadPoolExecutor
os.chdir("/verif")
args = sys.argv[1:]
tier = "quick"
jobs = 4
if args and args[0] in ("quick", "thorough"):
    tier = args.pop(0)
if args[:1] == ["--jobs"]:
    jobs = int(args[1]); args = args[2:]
ids = args or [c["property_id"] for c in json.load(open("MANIFEST.json"))["checks"]]
env = dict(os.environ)
env.pop("VERIF_REPO", None)
def one(pid):
    t = time.time()
    p = subprocess.run("./check %s --tier %s" % (pid, tier), shell=True, stdout=subprocess.PIPE, stderr=subprocess.STDOUT, env=env)
    out = p.stdout.decode("utf-8", "replace").strip().splitlines()
    v = [l for l in out if l.startswith(("VIOLATION", "MACHINERY"))]
    k = [l for l in out if l.startswith("KNOWN-FINDING")]
    return pid, p.returncode, time.time() - t, (out[-1] if out else ""), v[:3], len(k)
with ThreadPoolExecutor(jobs) as ex:
    bad = 0
    for pid, rc, dt, last, v, nk in ex.map(one, ids):
        print("%s rc=%d %.0fs known=%d | %s" % (pid, rc, dt, nk, last[:160]), flush=True)
        for l in v:
            print("    " + l[:300])
        bad += rc != 0
print("checks with non-zero exit: %d" % bad)
sys.exit(1 if bad else 0)
