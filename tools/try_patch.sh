#!/bin/sh
# tools/try_patch.sh <patch.diff> <ID> [tier]: apply a seeded change to a scratch worktree of /repo's HEAD, run the check against it
# (VERIF_REPO), remove the worktree.  /repo itself is not touched.
P="$(readlink -f "$1")"; ID="$2"; TIER="${3:-quick}"
WT="/tmp/trypatch_$$"
git -C /repo worktree add --detach "$WT" HEAD -q || exit 2
if ! git -C "$WT" apply --check "$P" 2>/dev/null; then echo "PATCH-DOES-NOT-APPLY $P"; git -C /repo worktree remove --force "$WT"; exit 3; fi
git -C "$WT" apply "$P"
cd /verif && VERIF_DEVRUN=1 VERIF_REPO="$WT" ./check "$ID" --tier "$TIER" 2>&1 | grep -E "^VIOLATION|^MACHINERY|tier=" | cut -c1-400 | head -8
git -C /repo worktree remove --force "$WT"
