#!/bin/sh
# tools/try_patch.sh <patch.diff> <ID> [tier]: apply a seeded change to /repo, run the check, undo.
P="$1"; ID="$2"; TIER="${3:-quick}"
cd /repo || exit 2
if ! git apply --check "$P" 2>/dev/null; then echo "PATCH-DOES-NOT-APPLY $P"; exit 3; fi
git apply "$P"
cd /verif && ./check "$ID" --tier "$TIER" 2>&1 | grep -E "^VIOLATION|^MACHINERY|tier=" | cut -c1-400 | head -6
git -C /repo checkout -- . 
git -C /repo status --short | grep -v '^??' | head
