#!/usr/bin/env python3
"""tools/confirm_seeded.py <agent_dir> <worktree> : confirm a seeded change independently, then keep it under /verif/seeded/.
Confirms: patch applies to the worktree; pinned test suite still gives 79 passed; demo FAILs with the patch, PASSes without."""
import json, os, shutil, subprocess, sys
src, wt = sys.argv[1].rstrip("/"), sys.argv[2]
name = os.path.basename(src)
def sh(cmd, cwd=None, env=None):
    p = subprocess.run(cmd, shell=True, cwd=cwd, env=env, stdout=subprocess.PIPE, stderr=subprocess.STDOUT, timeout=1200)
    return p.returncode, p.stdout.decode("utf-8", "replace")
sh("git checkout -- .", wt)
rc, out = sh("git apply --check %s/patch.diff" % src, wt)
if rc:
    print(name, "REJECT: patch does not apply:", out[:300]); sys.exit(1)
env = dict(os.environ, PYTHONPATH="/tmp/pydeps:" + wt, PYTHONDONTWRITEBYTECODE="1")
rc0, out0 = sh("/venv/bin/python %s/demo.py" % src, wt, env)
sh("git apply %s/patch.diff" % src, wt)
rct, outt = sh("/venv/bin/python -m pytest -q -p no:cacheprovider --continue-on-collection-errors 2>&1 | tail -1", wt)
rc1, out1 = sh("/venv/bin/python %s/demo.py" % src, wt, env)
sh("git checkout -- .", wt)
sh("find . -name __pycache__ -prune -exec rm -rf {} +", wt)
ok = rc0 == 0 and rc1 != 0 and "79 passed" in outt
print(name, "CONFIRMED" if ok else "REJECT", "| demo without patch rc=%d, with patch rc=%d | tests: %s" % (rc0, rc1, outt.strip()[-60:]))
if not ok:
    print(out0[-300:], out1[-300:]); sys.exit(1)
dst = os.path.join("/verif/seeded", name)
os.makedirs(dst, exist_ok=True)
for f in ("patch.diff", "demo.py"):
    shutil.copy(os.path.join(src, f), dst)
meta = json.load(open(os.path.join(src, "meta.json")))
meta["confirmed"] = {"by": "tools/confirm_seeded.py in a scratch worktree of the pinned commit",
                     "tests_with_patch": outt.strip()[-80:], "demo_without_patch_rc": rc0, "demo_with_patch_rc": rc1,
                     "demo_cmd": "cd <worktree> && PYTHONPATH=<six-1.17 deps>:<worktree> /venv/bin/python demo.py"}
json.dump(meta, open(os.path.join(dst, "meta.json"), "w"), indent=1)
