#!/bin/sh
# tools/round_done.sh <round> <ID>: confirm the three changes a sub-agent left for property <ID>, keep the confirmed ones under seeded/,
# remove the agent's scratch worktree, and run the property's quick check on each (scratch worktree per run).
R="$1"; ID="$2"
for d in /tmp/agent${R}_${ID}/${ID}_*; do [ -d "$d" ] && python3 /verif/tools/confirm_seeded.py "$d" /tmp/wt${R}_${ID}; done
git -C /repo worktree remove --force /tmp/wt${R}_${ID}
for d in /tmp/agent${R}_${ID}/${ID}_*; do n=$(basename $d); [ -d /verif/seeded/$n ] && echo "== $n $(/verif/tools/try_patch.sh /verif/seeded/$n/patch.diff $ID quick 2>&1 | cut -c1-260 | tail -2 | tr '\n' ' ')"; done
