#!/usr/bin/env python3
"""Generate /verif/MANIFEST.json from the table below (single source of truth for registered checks)."""
import json, os
HERE = os.path.dirname(os.path.dirname(os.path.abspath(__file__)))
props = [json.loads(l) for l in open(os.path.join(HERE, "properties.jsonl"))]

CHECKS = {
 "C05": dict(level="model_checking", design="4/C05",
   text="TLC exhaustively checks Segments.tla (read buffer, peel loop, send guard; refinement to a FIFO channel and to the length-only abstraction) for all streams of <=3 frames and all chunkings; every transition of that state graph is replayed into the real YowNoiseSegmentsLayer under several length scalings (up to 128 KiB frames, header-internal split points preserved), and recorded executions on random streams are validated by TLC against Segments_Trace.",
   note="Trusts TLC, the edge-dump/replay driver and the stub stack object; frame sizes beyond 200 KiB on the receive side are covered by the length-only abstraction only through sampled traces.",
   technique="TLA+ spec + TLC exhaustive model checking; behaviour replay (transition cover) into the real layer; TLC trace validation of recorded executions"),
 "C18": dict(level="model_checking", design="4/C18",
   text="TLC exhaustively checks StackCore.tla (all stack shapes up to depth 3 with groups of up to 2, quick; depth 4 / groups of 3, thorough; every emitter, consumer, direction, detached/normal, stack-level entry, data behaviour) against the order / exactly-once / reach / fan-out invariants, and StackBuild.tla (builder programs, both tuple order conventions, implicit/explicit groups, the 16+64 helper flag combinations). Every transition of both graphs is replayed on real YowStack objects made of synthesised recording layers in four construction variants; logs are compared after every step including each loop step.",
   note="Trusts TLC and the replay driver; members of a group behind a consuming member and siblings of an emitting member are compared as don't-care (the statement does not decide them); depth 5-6 shapes are not enumerated (the walk is uniform in depth).",
   technique="TLA+ spec + TLC exhaustive model checking; replay of every spec transition into the real stack (one implementation test per transition)"),
 "C13": dict(level="model_checking", design="4/C13",
   text="TLC exhaustively checks KeyStore.tla (five tables, every API operation as its SQL statement/commit sequence, crash between any two statements, reopen) for all histories of up to 3 (thorough 4) operations over 2 keys x 2 values against Durable, AllOrNothing and SentMonotone; the as-read statement order is kept as a switch and must violate AllOrNothing (self-test). Every transition of the graph is replayed on the real LiteAxolotlStore over a file, and at EVERY statement and commit boundary of every operation the database and its journal are copied, reopened by a fresh store and compared with the specification's committed state.",
   note="Trusts TLC, the sqlite3 proxy (statement numbering) and file-copy crash model (process death, not power loss); python-axolotl record classes are used to build distinguishable values.",
   technique="TLA+ spec + TLC exhaustive model checking; behaviour replay with crash injection at every statement boundary (copy db+journal, reopen)"),
 "C15": dict(level="model_checking", design="4/C15",
   text="TLC evaluates MediaCipher.tla on a small-block model (block size 4, all plaintexts up to 9 bytes over a 3-symbol alphabet incl. padding look-alikes, 2 keys, 4 kinds, every single-position modification, every truncation, wrong key, wrong kind) and establishes round trip, length formula and tamper rejection for the always-pad/verify-first design (the as-read conditional padding must fail: self-test); it prints the ciphertext layout as a term. The harness evaluates that term with cryptography's HKDF/AES-CBC and hmac and requires the real MediaCipher to produce byte-identical ciphertexts, to decrypt reference ciphertexts, and to reject every tampered variant, for all lengths 0..64, random larger ones, all kinds and wrappers.",
   note="The model's primitives are ideal (symbolic); the real ones are exercised only on the enumerated inputs. The WhatsApp layout is the one written in the specification; no server is available offline.",
   technique="TLA+ transcription evaluated by TLC as reference (term interpretation) + exhaustive small-length enumeration against the real cipher"),
 "C20": dict(level="model_checking", design="4/C20",
   text="TLC evaluates RegRequest.tla: percent-encoding round trip for all 1- and 2-byte strings (65,792 obligations) and boundary code points, safe-character set, and it computes the expected encoding of every harness-generated parameter list (str/bytes/int values, 0-6 parameters), the token and blob terms; the harness compares WARequest.urlencode/urlencodeParams byte for byte, decrypts every encryptParams blob with the recipient's private key (cryptography X25519 + AES-GCM) and compares with TLC's string, evaluates the token term with hashlib/hmac against getToken for generated phone numbers (repeated calls on one environment), and has TLC validate recorded ephemeral-key histories against the Fresh invariant.",
   note="Token constants are frozen copies in the specification; WhatsApp's servers are not available, so 'WhatsApp's construction' means the construction written in the specification.",
   technique="TLA+ transcription evaluated by TLC as reference implementation + TLC trace validation of ephemeral-key freshness"),
 "C08": dict(level="model_checking", design="4/C08",
   text="TLC exhaustively checks IqRegistry.tla (two registry levels: transporting protocol layer and interface layer; requests of every kind class with/without application callbacks, library-issued keep-alive ping, retry of the same id from inside the error callback; result / error / replayed / unknown-id replies in any order; server pings with colliding ids) against Correlation, NoLeak, PingsAnswered, StillWaiting; each of the three as-read deviation switches must violate an invariant (self-test). The graph's transitions are replayed on the real protocol-layer group + YowInterfaceLayer with request ids from the library's own generator and concrete request/reply stanzas rotated over the 20 iq kinds of the catalogue; callbacks, unclaimed entities at the top and pongs are compared after every step.",
   note="Quick replays half of the transition cover (the other half with the next seed) plus 1500 random walks of the larger instance; library-internal key fetch / upload / group-info requests are covered by the end-to-end checks, not here.",
   technique="TLA+ spec + TLC exhaustive model checking; behaviour replay (transition cover + random walks) into the assembled layers"),
 "C19": dict(level="model_checking", design="4/C19",
   text="TLC exhaustively checks ConfigStore.tla (profile directory, config.json / config.yo / temporary file, a save decomposed into mkdir/open/write/close/rename/remove-stale, crash between any two operations, load by profile name) for all histories of up to 3 saves in both formats against SaveThenLoad, NeverFails, CrashSafe, NeverLost; each as-read switch (no mkdir, truncate in place, one file name for both formats) must violate an invariant. The graph's save histories are replayed on the real ConfigManager/StorageTools with generated configurations (random field subsets, unicode / binary values, both formats, fresh and existing profiles); before EVERY file-system operation of every save the whole config root is copied (buffers flushed and unflushed) and must load as the previous or the new configuration; plus load by path with and without extension.",
   note="Trusts TLC, the file-operation proxies installed in yowsup.common.tools / yowsup.config.manager (open, os.*, tempfile.*) and the copy-at-boundary crash model (process death, not power loss).",
   technique="TLA+ spec + TLC exhaustive model checking; behaviour replay with crash injection at every file-system operation"),
 "C01": dict(level="model_checking", design="4/C01",
   text="WireFormat.tla transcribes the binary-XML format (list headers, tokens incl. double-byte pages, nibble/hex packing with parity flag and filler, 8/20/31-bit lengths, JIDs) over abstract strings and referenced contents; for every enumerated abstract tree TLC computes the encoding the library is specified to choose and checks that the reference decoder returns the tree for the library's and every single-position alternative encoding. The harness concretises each tree (every dictionary word, packed strings by length/parity, text and binary content across the three length classes incl. the 1 MiB boundary and - thorough - 16 MiB, list sizes around 255, nested and top-level large nodes, seeded random trees), and requires encoder bytes == specified bytes, decoder(encoder(tree)) == tree under a strict structural comparison and under __eq__, also through YowCoderLayer; every word of the library's own dictionaries must survive the codec.",
   note="The enumeration is a structured sweep, not all trees; lengths are covered by class boundaries. Trusts TLC's evaluation of the transcription and the item evaluator.",
   technique="TLA+ transcription of the format evaluated by TLC (expected encoding per case + reference decoder) bound to the real codec by term interpretation"),
 "C02": dict(level="model_checking", design="4/C02",
   text="The TLC-evaluated transcription WireFormat.tla with the frozen dictionary WADict.tla is the independent implementation: (a) the library's bytes for every enumerated tree must equal the encoding the reference computes and decodes back to the tree; (b) every permitted alternative per position (16-bit list header, 20/31-bit lengths, literal instead of token, packed or raw, JID without user, token/packed-valued node content), all alternatives at once, and the zlib-compressed frame must be decoded by the library to the tree; (c) the 236 + 1024 dictionary entries are compared one by one with the reference and round-tripped through getToken/getIndex.",
   note="No copy of WhatsApp's dictionary other than the repository's exists offline: the reference is a frozen transcription (detects change and index arithmetic errors, cannot certify the pinned table against the servers). Alternatives are enumerated one position at a time plus all at once.",
   technique="TLA+ transcription evaluated by TLC as independent reference encoder/decoder + entry-by-entry dictionary comparison"),
 "C06": dict(level="model_checking", design="4/C06",
   text="Routing.tla transcribes the claim guards of the 15 protocol layers and the encryption layers' pass-through over stanza features; TLC evaluates, for every kind of the hand-written catalogue (about 150 kinds: messages by payload/media type, receipts, acks, presence, chat state, every iq request and result, notifications, calls, ib, auth, encrypt notifications) and all 16 module selections, the set of claiming layers and checks it is exactly the owner when the owning module is selected and empty otherwise. Every (kind, selection, encryption on/off) row is replayed on a real assembled stack between probes: number and class of entities at the top, field-wise equality with the injected stanza, number of stanzas going down; outgoing entities: exactly one stanza equal to the entity's specified serialisation (messages with encryption on: exactly one entry into the send layer).",
   note="Concrete stanzas and expectations come from the catalogue (harness/catalogue.py, extra_kinds.py); encrypted message kinds are followed further by C03. Attributes that an entity's serialisation adds are left to C09.",
   technique="TLA+ guard model evaluated by TLC over all module selections + replay of every row into the real assembled stack"),
 "C07": dict(level="model_checking", design="4/C07",
   text="Same model and rig as C06, reaction part: TLC computes for every incoming kind and module selection the set of layers that answer downward and checks it is a singleton exactly where the statement demands an acknowledgement; the replay compares the stanzas actually sent down with the hand-built expected ack / receipt / pong (id, class, type, to, participant, call-id), for all notification types incl. unknown ones and encrypt notifications with a real key store, all call kinds, server pings incl. ids colliding with every outstanding request kind, and unpresentable message payloads in text / media / other message types, under all 16 module selections with and without the encryption layers.",
   note="The documented exception (picture notification that is neither set nor delete) is only required to raise. Key-management iqs of the encryption layers are not counted as reactions.",
   technique="TLA+ guard model evaluated by TLC over all module selections + replay of every row into the real assembled stack"),
 "C09": dict(level="exploration", design="4/C09",
   text="For every stanza kind of the hand-written shape catalogue (about 150 kinds, 100 entity classes in 16 packages; documented variants with optional attributes present/absent, 0..n list children, boundary-biased values) 48 (thorough: 300) seeded instances per variant: stanza -> fromProtocolTreeNode -> toProtocolTreeNode compared strictly with the stanza, numbers by value; outgoing kinds: entity built through its public constructor -> stanza compared with the hand-built expected stanza; forwarded copies must be independent of the received entity. Every stanza an entity produces for sending (requests, acks, receipts, forwarded messages, reactions) is abstracted into WireFormat.tla's tree language, TLC computes its specified encoding, and the real encoder/decoder must reproduce it / return it unchanged.",
   note="There is no temporal content: TLC contributes the codec oracle only; the structural oracle is the catalogue (class docstrings + parser code), which is hand-written and could itself be wrong - it is cross-checked by its own self-test. Nine documented deviations of the pinned tree are recorded as known findings (findings/known_findings.json). Encrypted message kinds and key-bundle iqs are not in the catalogue.",
   technique="catalogue-driven exhaustive/seeded enumeration of entity round trips + TLC-evaluated codec reference (WireFormat.tla)"),
 "C10": dict(level="exploration", design="4/C10",
   text="Payload.tla holds the correspondence attribute path <-> protobuf field (numbers, wire types, kinds frozen from e2e.proto's descriptor in PayloadSchema.tla); for every generated attribute object (11 content kinds x optional-field subsets {required only, all, each optional alone, random} x value classes {empty, unicode, zero, large, binary, enum members} x quoting depth 0..3) TLC computes the expected wire fields and checks the model round trip. The harness builds the real attribute objects through their constructors, serialises with message_to_protobytes and parses the bytes with a generic protobuf reader (no generated classes): fields must equal TLC's; protobytes_to_message must return every field set with the same value; bytes written by a generic writer from TLC's fields (a peer's payload) must be re-serialised unchanged. PayloadEntity.tla (edit in place / replace / serialise / forward histories, TLC-checked freshness) is replayed on real message entities.",
   note="Exploration level: the enumeration is structured and seeded, not exhaustive over values. An empty conversation string is not generated. Trusts the generic reader/writer (60 lines) and TLC's evaluation.",
   technique="TLA+ field-correspondence model evaluated by TLC as oracle (term interpretation) + generic protobuf reader/writer; TLC behaviour replay for entity histories"),
 "C11": dict(level="model_checking", design="4/C11",
   text="SendPath.tla models the threads' walks through the per-layer lock chain (hand-over-hand toLower), the coder, the noise layer's encrypt-with-counter / write-queue put+get, and the two-part segment write, one action per lock or queue operation; TLC exhaustively checks 2-3 threads x 1-2 stanzas with mixed entry layers and concurrent incoming frames (all interleavings, with weak fairness: termination) against WholeFrames, CounterOrder, ExactlyOnce, UpInOrder. Each TLC schedule of a transition cover is replayed step by step on a real network|segments|noise|coder|logger|mid|top stack (handshake done against the Noise server double) under a deterministic scheduler whose yield points are exactly the Lock / Queue operations - the evidence records how many schedules were realised exactly (drift = 0 on the pinned tree) - plus PCT-random schedules; the bytes at the dispatcher are parsed into frames and decrypted by a strict in-order peer.",
   note="Preemption is possible only at Lock / Queue operations (one managed thread runs at a time); 4-thread configurations are covered by random schedules only in the thorough tier. The keep-alive thread is represented by a thread entering below the top layer.",
   technique="TLA+ spec + TLC exhaustive model checking of interleavings; schedule replay into the real stack under a deterministic thread scheduler"),
 "C12": dict(level="model_checking", design="4/C12",
   text="SendPath.tla with fault actions (unencodable value at the coder, session not ready and oversized frame at the noise/segments layers, a raising layer above the coder, a raising application callback and an undecodable frame on the way up) and the switches ReleaseOnException / SizeCheckedFirst; TLC checks Reported, NoLockLeak, NotStuck, AllReceived, CounterOrder and termination under fairness for every failure site followed by same-thread and other-thread sends and receives; the as-read switch settings must violate NoLockLeak / CounterOrder (self-test). Schedules are replayed on the real stack under the deterministic scheduler with the concrete faults; a follow-up that cannot proceed is a detected deadlock.",
   note="Failure sites inside the protocol / encryption layers of the full default stack and reconnects are exercised by C16 / C06's rigs, not here. Oversized-frame cases are replayed on few schedules (each needs a 16 MiB stanza).",
   technique="TLA+ spec with fault actions + TLC (safety + liveness); schedule replay with fault injection under a deterministic thread scheduler"),
 "C04": dict(level="model_checking", design="4/C04",
   text="NoiseLayer.tla models the protocol state machine, the shared incoming-segments queue, the flush lock, one handshake worker per login attempt, the network thread, a server for the variants XX / IK / IK-with-new-key / failing authentication, disconnects and reconnects, one action per shared-state operation; TLC exhaustively checks in-order exactly-once delivery, key persistence, failure reporting and - under weak fairness - that every attempt that is not cut off establishes the session or reports failure, for 1 attempt x 2 frames and 2 attempts x 1 frame; the as-read switch (transport state shared across attempts) must violate it. The real network|segments|noise|coder stack is then run against a dissononce-based Noise server double under the deterministic scheduler: all variants x chunkings (whole / byte-wise / random) x edge-routing on/off x fair, PCT-random and all one-preemption schedules, and reconnect scripts with the first attempt cut before, during or after the server's reply; each execution is judged on observables (stanzas at the top, frames decrypted by the strict peer, decoded login payload, key in the profile and on disk, failure stanza/event, no blocked thread) and its event trace is validated by TLC against NoiseLayer_Trace.tla.",
   note="Noise is symbolic in the model and real (consonance/dissononce) in the executions. Preemption at queue / lock operations and at instrumented protocol-state reads/writes; a disconnect racing with a receive() in progress is not explored. Reconnect scripts are sampled in the quick tier.",
   technique="TLA+ spec + TLC (safety and liveness); deterministic-scheduler exploration of the real stack with TLC trace validation of every execution"),
 "C16": dict(level="model_checking", design="4/C16",
   text="Lifecycle.tla models the network layer's state and connected flag, dispatcher creation, the atomic login, success / failure / stream-error handling, the interface layer's reconnect decision, the detached DISCONNECTED event and the stack loop, and the keep-alive (ping queue, request registry, thread); TLC exhaustively checks all event histories up to 7 (thorough 9) events for the four option combinations against: announcements up/down pair up, one login per connect, one authed per success, nothing written to a closed connection, fresh transport state at every login, errors close, reconnect iff (stream error, not conflict, option on), ping-timeout rule. A transition cover of each graph is replayed on the real default stack (fake dispatcher, Noise server double with real encrypted success / failure / stream:error / pong stanzas, real YowInterfaceLayer) under the deterministic scheduler with virtual time; after every event the application-visible log, dispatcher calls and flags are compared, and after every history extra ping periods must change nothing once the keep-alive is stopped.",
   note="The login handshake is atomic here (C04). Connect requests overtaking a pending (detached) DISCONNECTED event are a recorded known finding and are replayed as dedicated scenarios. The two real dispatchers (asyncore / socket) are replaced by the fake dispatcher.",
   technique="TLA+ spec + TLC exhaustive model checking of event histories; behaviour replay into the real default stack under a deterministic scheduler with virtual time"),
}
NA_REASON = "check not built yet in this session (planned: see DESIGN.md section 4)"

def main():
    checks = []
    na = []
    for p in props:
        pid = p["id"]
        if pid in CHECKS:
            c = CHECKS[pid]
            checks.append({
                "property_id": pid,
                "quick_cmd": "./check %s --tier quick" % pid,
                "thorough_cmd": "./check %s --tier thorough" % pid,
                "evidence_file": "/verif/evidence/%s.json" % pid,
                "replay_cmd_template": "./check %s --replay {path}" % pid,
                "engine": c.get("engine", "tlc+replay"),
                "level_claimed": {"category": c["level"], "text": c["text"], "design_ref": c["design"]},
                "level_note": c["note"],
                "technique": c["technique"],
            })
        else:
            na.append({"property_id": pid, "reason": NA.get(pid, NA_REASON)})
    m = {
        "version": 1,
        "setup_cmd": "sh tools/setup.sh",
        "hooks": {"guard": "YOWSUP_VERIF", "enable": "no source hooks: checks import /repo's working tree directly (PYTHONPATH=/verif/.deps:/repo) and observe through probe layers, doubles and module-level rebinding",
                  "baseline_off_cmd": "cd /repo && /venv/bin/python -m pytest -ra -q -p no:cacheprovider --timeout=900 --continue-on-collection-errors",
                  "source_commits": HOOK_COMMITS, "add_only": True},
        "engines": ENGINES,
        "checks": checks,
        "not_applicable": na,
        "notes": "All checks are driven by ./check <ID>; exit 0 held, 1 VIOLATION, 2 machinery failure. Known findings: findings/known_findings.json.",
    }
    with open(os.path.join(HERE, "MANIFEST.json"), "w") as fh:
        json.dump(m, fh, indent=1)
    print("checks:", len(checks), "not_applicable:", len(na))

NA = {}
HOOK_COMMITS = []
ENGINES = [
 {"name": "tlc+replay", "path": "harness/core.py", "serves_properties": sorted(CHECKS), "kind_free_text": "TLC model checking of spec/*.tla; edge-dump replay into real objects; batched TLC trace validation"},
]
if __name__ == "__main__":
    main()
