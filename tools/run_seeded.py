#!/usr/bin/env python3
"""tools/run_seeded.py [--lanes N] [ID-prefix ...]: run every seeded change against the quick check of its property and write
/verif/seeded/RESULTS.json (which check catches which change).  Each lane owns a scratch git worktree of /repo's HEAD and runs the
checks with VERIF_REPO pointing at it, so /repo itself is never modified; all changes of one property go to one lane (evidence and
replay files of a property are not written by two lanes at once).  Worktrees are removed at the end."""
import json, os, subprocess, sys, glob, threading
os.chdir("/verif")
args = sys.argv[1:]
lanes = 4
if args[:1] == ["--lanes"]:
    lanes = int(args[1]); args = args[2:]
EXTRA = {"C06_2": ["C07"], "C11_2": ["C12"], "C12_3": ["C04"], "C06_6": ["C18"], "C08_7": ["C06"], "C13_5": ["C17"], "C11_5": ["C04"], "C11_6": ["C04"],
         "C18_7": ["C12"], "C05_7": ["C04"], "C09_5": ["C01"], "C04_9": ["C12"], "C11_8": ["C16"], "C12_8": ["C16"], "C12_10": ["C04"],
         "C11_10": ["C12"], "C13_9": ["C14"], "C09_8": ["C01"], "C05_9": ["C11"], "C06_10": ["C08"], "C06_11": ["C08"], "C06_13": ["C08"], "C05_11": ["C18"], "C05_13": ["C12"],
         "C11_11": ["C04"], "C11_12": ["C05"], "C14_11": ["C08"], "C14_13": ["C08"], "C17_12": ["C13"], "C16_13": ["C04"], "C05_12": ["C16"],
         "C04_14": ["C01"], "C04_15": ["C19"], "C05_15": ["C16"], "C05_16": ["C16"], "C06_15": ["C03"], "C06_16": ["C08"], "C08_16": ["C14"], "C13_16": ["C17"], "C13_15": ["C14"], "C14_15": ["C13"],
         "C04_17": ["C02"], "C05_17": ["C16"], "C06_19": ["C03"], "C11_17": ["C16"], "C11_19": ["C06"], "C12_17": ["C04"], "C16_17": ["C04"], "C05_21": ["C16"], "C04_20": ["C05"], "C04_21": ["C01"], "C12_20": ["C18"]}      # neighbouring checks that also see the change
resf = "/verif/seeded/RESULTS.json"
results = json.load(open(resf)) if os.path.exists(resf) else {}
lock = threading.Lock()
by_prop = {}
for d in sorted(glob.glob("/verif/seeded/C*_*")):
    name = os.path.basename(d)
    if args and not any(name.startswith(s) for s in args):
        continue
    by_prop.setdefault(name.split("_")[0], []).append(d)
props = sorted(by_prop)
def sh(cmd, **kw):
    return subprocess.run(cmd, shell=True, stdout=subprocess.PIPE, stderr=subprocess.STDOUT, **kw)
def lane(k):
    wt = "/tmp/seedlane_%d" % k
    sh("git -C /repo worktree remove --force %s" % wt)
    if sh("git -C /repo worktree add --detach %s HEAD" % wt).returncode:
        print("lane %d: cannot create worktree" % k); return
    env = dict(os.environ, VERIF_REPO=wt, VERIF_DEVRUN="1")     # development runs leave /verif/evidence alone
    try:
        for pid in props[k::lanes]:
            for d in by_prop[pid]:
                name = os.path.basename(d)
                sh("git -C %s checkout -- ." % wt)
                if sh("git -C %s apply --check %s/patch.diff" % (wt, d)).returncode:
                    with lock:
                        results[name] = {"caught": None, "note": "patch does not apply to current HEAD"}
                    print(name, "DOES-NOT-APPLY", flush=True); continue
                sh("git -C %s apply %s/patch.diff" % (wt, d))
                entry = {"caught_by": []}
                for chk in [pid] + EXTRA.get(name, []):
                    try:
                        p = sh("./check %s --tier quick" % chk, env=env, timeout=3000)
                        out, rc = p.stdout.decode("utf-8", "replace"), p.returncode
                    except subprocess.TimeoutExpired:
                        out, rc = "TIMEOUT", -1
                    v = [l for l in out.splitlines() if l.startswith("VIOLATION")]
                    if rc == 1 and v:
                        entry["caught_by"].append(chk)
                        entry.setdefault("first", v[0][:300])
                    else:
                        entry.setdefault("missed_by", []).append({"check": chk, "rc": rc, "last": (out.strip().splitlines() or [""])[-1][:200],
                                                                  "tail": out.strip().splitlines()[-25:] if rc not in (0, 1) else []})
                entry["caught"] = bool(entry["caught_by"])
                sh("git -C %s checkout -- ." % wt)
                sh("find %s -name __pycache__ -prune -exec rm -rf {} +" % wt)
                with lock:
                    results[name] = entry
                    json.dump(results, open(resf, "w"), indent=1, sort_keys=True)
                print(name, "CAUGHT by %s" % entry["caught_by"] if entry["caught"] else "MISSED", "|", entry.get("first", "")[:150], flush=True)
    finally:
        sh("git -C /repo worktree remove --force %s" % wt)
ts = [threading.Thread(target=lane, args=(k,)) for k in range(lanes)]
[t.start() for t in ts]
[t.join() for t in ts]
missed = sorted(n for n, r in results.items() if r.get("caught") is False)
print("total %d, missed %s" % (len(results), missed))
