#!/usr/bin/env python3
"""tools/run_seeded.py [ID-prefix ...]: apply each /verif/seeded/<name>/patch.diff to /repo, run the property's quick check, undo.
Writes /verif/seeded/RESULTS.json (which check catches which seeded change)."""
import json, os, subprocess, sys, glob
os.chdir("/verif")
sel = sys.argv[1:]
resf = "/verif/seeded/RESULTS.json"
results = json.load(open(resf)) if os.path.exists(resf) else {}
for d in sorted(glob.glob("/verif/seeded/C*_*")):
    name = os.path.basename(d)
    pid = name.split("_")[0]
    if sel and not any(name.startswith(s) for s in sel):
        continue
    st = subprocess.run("git -C /repo status --porcelain --untracked-files=no", shell=True, stdout=subprocess.PIPE).stdout
    if st.strip():
        print("refusing: /repo has uncommitted changes"); sys.exit(2)
    if subprocess.run("git -C /repo apply --check %s/patch.diff" % d, shell=True).returncode:
        results[name] = {"caught": None, "note": "patch does not apply to current /repo HEAD"}
        print(name, "DOES-NOT-APPLY"); continue
    subprocess.run("git -C /repo apply %s/patch.diff" % d, shell=True)
    try:
        p = subprocess.run("./check %s --tier quick" % pid, shell=True, stdout=subprocess.PIPE, stderr=subprocess.STDOUT, timeout=3000)
        out = p.stdout.decode("utf-8", "replace")
        rc = p.returncode
    except subprocess.TimeoutExpired:
        out, rc = "TIMEOUT", -1
    finally:
        subprocess.run("git -C /repo checkout -- .", shell=True)
    v = [l for l in out.splitlines() if l.startswith("VIOLATION")]
    results[name] = {"caught": rc == 1 and bool(v), "rc": rc, "first": (v[0][:300] if v else out.strip().splitlines()[-1][:300] if out.strip() else "")}
    print(name, "CAUGHT" if results[name]["caught"] else "MISSED rc=%s" % rc, "|", results[name]["first"][:160])
    json.dump(results, open(resf, "w"), indent=1, sort_keys=True)
