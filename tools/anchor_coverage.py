#!/venv/bin/python
"""tools/anchor_coverage.py <ID> [tier]: run one check in-process under line coverage of /repo/yowsup and report, for every file the
property is anchored in (properties.jsonl anchors.files), which executable lines the check never executed.  A development aid: code the
check never runs is code where a property-breaking change cannot be seen.  Writes /verif/devnotes/coverage/<ID>.txt (not evidence)."""
import importlib, json, os, sys
sys.path.insert(0, "/verif")
pid = sys.argv[1]
os.environ["VERIF_TIER"] = sys.argv[2] if len(sys.argv) > 2 else "quick"
os.environ["VERIF_DEVRUN"] = "1"
from harness import core
core.setup_imports()
import coverage
cov = coverage.Coverage(source=[os.path.join(core.REPO, "yowsup")], data_file=None, concurrency=["thread"])
cov.start()
try:
    mod = importlib.import_module("harness.props.%s" % pid.lower())
    rc = mod.run()
except BaseException as e:
    rc = "exception %r" % e
cov.stop()
prop = [json.loads(l) for l in open("/verif/properties.jsonl") if json.loads(l)["id"] == pid][0]
out = ["check %s tier=%s rc=%s" % (pid, os.environ["VERIF_TIER"], rc)]
for f in prop["anchors"]["files"]:
    path = os.path.join(core.REPO, f)
    if not os.path.exists(path):
        out.append("%s: missing" % f)
        continue
    try:
        _, executable, _, missing, _ = cov.analysis2(path)
    except Exception as e:
        out.append("%s: not measured (%s)" % (f, e))
        continue
    src = open(path).read().splitlines()
    out.append("%s: %d of %d executable lines never run" % (f, len(missing), len(executable)))
    # group missing lines into ranges with the enclosing def
    cur_def = {}
    d = None
    for i, line in enumerate(src, 1):
        if line.lstrip().startswith(("def ", "class ")):
            d = line.strip().split("(")[0]
        cur_def[i] = d
    by_def = {}
    for m in missing:
        by_def.setdefault(cur_def.get(m), []).append(m)
    for d, ls in by_def.items():
        out.append("    %-45s %s" % (d, ",".join(map(str, ls[:30])) + (" ..." if len(ls) > 30 else "")))
text = "\n".join(out)
open("/verif/devnotes/coverage/%s.txt" % pid, "w").write(text + "\n")
print(text)
sys.stdout.flush()
os._exit(0)
